//! C12, second group of modelled (L2) kinds: whole-file readers composed from the primitives, run on
//! `nv::adversary::ScriptedReader` behind `BufReader::with_capacity(cap, _)` and compared byte for
//! byte with the extracted Coq model (Io/FastaIndex.v, Io/FastqRead.v):
//!   fidxf data cap script   fasta::io::Indexer::index_record until Ok(None) / Err (= fasta::fs::index)
//!   fqr   data cap script   fastq::io::Reader::read_record until Ok(0) / Err
//! verdict: the transcript equals the one obtained from the plain slice (one window, no Interrupted).

use std::io::{BufRead, BufReader};
use std::panic::AssertUnwindSafe;

use nv::adversary::{Deliver, ScriptedReader};
use nv::{Case, CaseWriter, Obs, Outcome, Rng, guarded, hex};

use super::c12_adv::{fmt_script, parse_script};

fn random_script(rng: &mut Rng, len: usize, with_intr: bool) -> Vec<Deliver> {
    let mut s = Vec::new();
    let style = rng.below(4);
    let n = (len + 8).min(4000);
    for _ in 0..n {
        if with_intr && rng.chance(1, 3) {
            s.push(Deliver::Interrupted);
        }
        let k = match style {
            0 => 1,
            1 => rng.range(1, 4),
            2 => rng.range(1, 40),
            _ => {
                if rng.chance(1, 8) {
                    rng.range(1, 70000)
                } else {
                    rng.range(1, 9)
                }
            }
        } as usize;
        s.push(Deliver::Bytes(k));
    }
    s
}

fn bpos(r: &BufReader<ScriptedReader>) -> usize {
    r.get_ref().pos - r.buffer().len()
}

// ---------------------------------------------------------------------------------------------
// fasta indexer, whole file

fn canon_index_error<E: std::fmt::Debug + Into<std::io::Error>>(e: E) -> String {
    let d = format!("{e:?}");
    let variant = d.split('(').next().unwrap_or("").to_string();
    match variant.as_str() {
        "Io" => {
            let ioe: std::io::Error = e.into();
            format!("Err:Io:{}", nv::errkind(&ioe))
        }
        "EmptySequence" | "InvalidLineBases" | "InvalidLineWidth" => {
            let inner = d[variant.len() + 1..d.len() - 1].replace(", ", ":");
            format!("Err:{variant}:{inner}")
        }
        _ => format!("Err:?{d}"),
    }
}

fn index_all<R: BufRead>(r: R) -> String {
    let mut ix = noodles_fasta::io::Indexer::new(r);
    let mut recs: Vec<String> = Vec::new();
    let end = loop {
        if recs.len() > 4096 {
            break "Err:TooManyRecords".to_string();
        }
        match guarded(AssertUnwindSafe(|| ix.index_record())) {
            Outcome::Panicked(_) => break "Panic".to_string(),
            Outcome::Done(Ok(Some(r))) => recs.push(format!(
                "{}:{}:{}:{}:{}",
                hex(r.name()),
                r.length(),
                r.position(),
                r.line_base_count(),
                r.line_width()
            )),
            Outcome::Done(Ok(None)) => break "ok".to_string(),
            Outcome::Done(Err(e)) => break canon_index_error(e),
        }
    };
    format!("{}|{end}", recs.join(","))
}

fn fasta_class(data: &[u8]) -> Option<&'static str> {
    let bare_cr = data
        .iter()
        .enumerate()
        .any(|(i, &b)| b == b'\r' && i + 1 < data.len() && data[i + 1] != b'\n');
    if bare_cr {
        return Some("fasta-bare-cr-capacity-dependent");
    }
    let mid_gt = data
        .iter()
        .enumerate()
        .any(|(i, &b)| b == b'>' && i > 0 && data[i - 1] != b'\n');
    if mid_gt {
        return Some("fasta-midline-gt-capacity-dependent");
    }
    None
}

fn run_fidxf(c: &Case) -> Obs {
    let data = c.b(0);
    let cap = c.u(1) as usize;
    let script = parse_script(&c.args[2]);
    let obs = index_all(BufReader::with_capacity(cap, ScriptedReader::new(data.clone(), script)));
    let plain = index_all(&data[..]);
    if obs != plain {
        let tag = fasta_class(&data).unwrap_or("fastaidx-whole-file-chunking-dependent");
        return Obs::fail(obs, tag, format!("plain slice gives {plain}"));
    }
    Obs::ok(obs, data.len() >= 5 && data.contains(&b'\n'))
}

/// a FASTA file: 0-4 records, fixed line width per record, LF or CRLF, plus the malformations the
/// indexer reports (ragged lines, empty sequence, missing name, junk before the first '>') and the
/// former capacity-dependent classes (bare CR, mid-line '>')
pub fn gen_fasta(rng: &mut Rng) -> Vec<u8> {
    let mut f = Vec::new();
    let crlf = rng.chance(1, 3);
    let eol = |rng: &mut Rng, f: &mut Vec<u8>| {
        let flip = rng.chance(1, 12);
        if crlf != flip {
            f.extend(b"\r\n");
        } else {
            f.push(b'\n');
        }
    };
    if rng.chance(1, 15) {
        f.extend(b"junk");
        eol(rng, &mut f);
    }
    let nrec = rng.below(5);
    for i in 0..nrec {
        f.push(b'>');
        if !rng.chance(1, 15) {
            f.extend(format!("s{i}").as_bytes());
        }
        if rng.chance(1, 3) {
            f.extend(b" some desc");
        }
        eol(rng, &mut f);
        let w = rng.range(1, 9) as usize;
        let full = if rng.chance(1, 10) { 0 } else { rng.below(4) as usize };
        for _ in 0..full {
            for _ in 0..w {
                f.push(*rng.pick(b"ACGTN"));
            }
            match rng.below(30) {
                0 => f.push(b'A'),          // ragged
                1 => f.extend(b"\r"),       // stray CR before the terminator
                2 => f.extend(b">"),        // '>' inside a line
                3 => {
                    f.pop();                // short line in the middle
                }
                _ => {}
            }
            eol(rng, &mut f);
            if rng.chance(1, 25) {
                eol(rng, &mut f); // blank line
            }
        }
        let last = rng.below(w as u64 + 1) as usize;
        if last > 0 {
            for j in 0..last {
                if j + 1 < last && rng.chance(1, 40) {
                    f.push(b'\r'); // bare CR inside a line
                } else {
                    f.push(*rng.pick(b"ACGTN"));
                }
            }
            if !(i + 1 == nrec && rng.chance(1, 3)) {
                eol(rng, &mut f);
            } else if rng.chance(1, 4) {
                f.push(b'\r');
            }
        }
    }
    f
}

// ---------------------------------------------------------------------------------------------

pub fn generate(rng: &mut Rng, thorough: bool, w: &mut CaseWriter) {
    let caps = [1usize, 2, 3, 5, 7, 16, 64];
    let n = if thorough { 3000 } else { 250 };
    for _ in 0..n {
        let f = gen_fasta(rng);
        let with_intr = rng.chance(1, 3);
        let script = random_script(rng, f.len(), with_intr);
        let cap = *rng.pick(&caps);
        w.push("fidxf", vec![hex(&f), cap.to_string(), fmt_script(&script)]);
    }
}

pub fn run(c: &Case) -> Option<Obs> {
    match c.kind.as_str() {
        "fidxf" => Some(run_fidxf(c)),
        _ => None,
    }
}

#[allow(dead_code)]
pub fn unused() -> usize {
    let r = BufReader::with_capacity(1, ScriptedReader::new(Vec::new(), Vec::new()));
    bpos(&r)
}
