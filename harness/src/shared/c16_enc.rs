//! C16 `aenc`: "the async writers' encoders emit the same byte strings as the sync ones".
//!
//! Implementation-only differential (no Coq model, obs = "-").  A case is
//!
//!     aenc <fmt> <seed> <mode> <sseed>
//!
//! `fmt` in bam | bcf | sam | vcf | fasta | fastq (noodles-gff has no async writer).  From `seed` a
//! header and a list of items is built deterministically:
//!
//!   * rich record buffers made through the public constructors (every field / tag type / array
//!     subtype / INFO and FORMAT number x type, missing values, extreme ints, float bit patterns,
//!     CIGARs of more than 65535 ops for the BAM `CG` path, ...), valid for the format;
//!   * the lazy records (`bam::Record`, `sam::Record`, `vcf::Record`, `bcf::Record`) obtained by
//!     reading back what the sync writer made of those buffers: written through `write_record` for
//!     the writer's own record type and through `write_{alignment,variant}_record` for the other
//!     format's lazy record (generic encoder path);
//!   * in some cases one "spicy" record that a writer may reject (invalid name, id out of range,
//!     reserved ints, non-finite floats in SAM, undefined keys in BCF, ...), then one more record.
//!
//! The items are written (a) with the sync writer into a `Vec<u8>`, (b) with the async writer
//! over an `AdvWriter` (partial writes / Pending by `Sched::new(mode, sseed)`).  Every write call is
//! guarded; both sides stop at the first error / panic.  Oracle:
//!
//!   * same end: Done, or Err at the same item with the same `ErrorKind`, or Panic at the same item;
//!   * Done: same bytes, and the same sink length after every item (raw sinks);
//!   * early end: the async sink holds exactly the sync bytes up to the end of the last accepted
//!     item (the sync text writers are unbuffered and may have emitted part of the rejected line;
//!     the async ones encode into a buffer first -- that remainder is not compared);
//!   * BAM / BCF additionally through the BGZF writers: same raw bytes, and if not, same payload.
//!
//! nontrivial = at least one record was written by the sync writer.

#![allow(dead_code, unused_imports, clippy::all)]

use std::{io, num::NonZero, panic::AssertUnwindSafe, sync::atomic::Ordering};

use bstr::BString;
use futures::FutureExt;
use noodles_bam as bam;
use noodles_bcf as bcf;
use noodles_bgzf as bgzf;
use noodles_core::Position;
use noodles_fasta as fasta;
use noodles_fastq as fastq;
use noodles_sam::{
    self as sam,
    alignment::{
        RecordBuf as SamBuf,
        io::Write as _,
        record::{
            Flags, MappingQuality,
            cigar::{Op, op::Kind},
            data::field::Tag,
        },
        record_buf::{
            Cigar, Data, QualityScores, Sequence,
            data::field::{Value, value::Array},
        },
    },
    header::record::value::{Map, map::ReferenceSequence},
};
use noodles_vcf::{
    self as vcf,
    variant::{
        RecordBuf as VcfBuf,
        io::Write as _,
        record::samples::series::value::genotype::Phasing,
        record_buf::{
            AlternateBases, Filters, Ids, Info, Samples,
            info::field::{Value as IV, value::Array as IA},
            samples::{
                Keys,
                sample::{
                    Value as SV,
                    value::{Array as SA, Genotype, genotype::Allele},
                },
            },
        },
    },
};
use nv::{Case, CaseWriter, Obs, Outcome, Rng, errkind, guarded, hex};
use tokio::io::AsyncWriteExt;

use crate::c16_adversary::{AdvReader, AdvWriter, Sched, block_on};

// ---------------------------------------------------------------------------------------------
// one run of one writer

#[derive(Clone, Debug, PartialEq)]
enum End {
    Done,
    Err(usize, String),
    Panic(usize),
}

struct Out {
    bytes: Vec<u8>,
    /// sink length after every accepted step
    marks: Vec<usize>,
    end: End,
}

fn drive_sync(n: usize, mut step: impl FnMut(usize) -> io::Result<usize>) -> (Vec<usize>, End) {
    let mut marks = Vec::new();
    for i in 0..n {
        match guarded(AssertUnwindSafe(|| step(i))) {
            Outcome::Done(Ok(l)) => marks.push(l),
            Outcome::Done(Err(e)) => {
                if std::env::var("NV_AENC_STATS").is_ok() {
                    eprintln!("AENCERR\titem{i}\t{e}\t{:?}", e.get_ref().and_then(|x| std::error::Error::source(x)).map(|x| x.to_string()));
                }
                return (marks, End::Err(i, errkind(&e)));
            }
            Outcome::Panicked(_) => return (marks, End::Panic(i)),
        }
    }
    (marks, End::Done)
}

async fn drive_async(n: usize, mut step: impl AsyncFnMut(usize) -> io::Result<usize>) -> (Vec<usize>, End) {
    let mut marks = Vec::new();
    for i in 0..n {
        match AssertUnwindSafe(step(i)).catch_unwind().await {
            Ok(Ok(l)) => marks.push(l),
            Ok(Err(e)) => return (marks, End::Err(i, errkind(&e))),
            Err(_) => return (marks, End::Panic(i)),
        }
    }
    (marks, End::Done)
}

fn bgzf_decode(b: &[u8]) -> Result<Vec<u8>, String> {
    use std::io::Read;
    let mut r = bgzf::io::Reader::new(b);
    let mut all = Vec::new();
    match guarded(AssertUnwindSafe(|| r.read_to_end(&mut all))) {
        Outcome::Done(Ok(_)) => Ok(all),
        Outcome::Done(Err(e)) => Err(errkind(&e)),
        Outcome::Panicked(_) => Err("Panic".into()),
    }
}

fn end_text(e: &End, labels: &[String]) -> String {
    let l = |i: &usize| labels.get(*i).cloned().unwrap_or_else(|| "?".into());
    match e {
        End::Done => "Done".into(),
        End::Err(i, k) => format!("Err:{k}@item{i}[{}]", l(i)),
        End::Panic(i) => format!("Panic@item{i}[{}]", l(i)),
    }
}

/// which item does byte offset `at` of the sync stream belong to
fn item_at(marks: &[usize], at: usize) -> usize {
    marks.iter().position(|&m| at < m).unwrap_or(marks.len())
}

struct Cmp<'a> {
    fam: &'a str,
    /// "raw" | "bgzf"
    sink: &'a str,
    ctx: String,
    labels: &'a [String],
    /// item 0 is the header
    has_header: bool,
    /// the sync writer may have emitted part of a rejected item (unbuffered text writers)
    sync_partial_ok: bool,
}

fn compare(c: &Cmp, s: &Out, a: &Out) -> Result<(), (String, String)> {
    let fam = c.fam;
    let part = |i: usize| if c.has_header && i == 0 { "header" } else { "encoder" };
    let lab = |i: usize| c.labels.get(i).cloned().unwrap_or_else(|| "?".into());
    if std::env::var("NV_AENC_STATS").is_ok() {
        eprintln!("AENC\t{}\t{}\titems={}\tbytes={}\t{}", c.fam, c.sink, c.labels.len(), s.bytes.len(), end_text(&s.end, c.labels));
    }
    if s.end != a.end {
        let i = match (&s.end, &a.end) {
            (End::Err(i, _) | End::Panic(i), End::Err(j, _) | End::Panic(j)) => *i.min(j),
            (End::Err(i, _) | End::Panic(i), _) | (_, End::Err(i, _) | End::Panic(i)) => *i,
            _ => 0,
        };
        let what = if matches!(s.end, End::Panic(_)) || matches!(a.end, End::Panic(_)) { "panic" } else { "error" };
        return Err((
            format!("async-{fam}-{}-{what}-differs", part(i)),
            format!("{} sink={} sync={} async={}", c.ctx, c.sink, end_text(&s.end, c.labels), end_text(&a.end, c.labels)),
        ));
    }
    let diff = |x: &[u8], y: &[u8]| -> String {
        let at = x.iter().zip(y.iter()).position(|(p, q)| p != q).unwrap_or(x.len().min(y.len()));
        let i = item_at(&s.marks, at);
        format!(
            "first difference at byte {at} (item {i} [{}]): sync_len={} async_len={} sync={} async={}",
            lab(i),
            x.len(),
            y.len(),
            hex(&x[at.saturating_sub(4).min(x.len())..(at + 16).min(x.len())]),
            hex(&y[at.saturating_sub(4).min(y.len())..(at + 16).min(y.len())])
        )
    };
    if c.sink == "bgzf" {
        if s.bytes == a.bytes {
            return Ok(());
        }
        let (ps, pa) = (bgzf_decode(&s.bytes), bgzf_decode(&a.bytes));
        return match (&ps, &pa) {
            (Ok(x), Ok(y)) if x == y => Err((format!("async-{fam}-encoder-bgzf-bytes-differ"), format!("{} same payload, different BGZF framing: {}", c.ctx, diff(&s.bytes, &a.bytes)))),
            (Ok(x), Ok(y)) => {
                let at = x.iter().zip(y.iter()).position(|(p, q)| p != q).unwrap_or(x.len().min(y.len()));
                Err((format!("async-{fam}-encoder-bytes-differ"), format!("{} sink=bgzf payloads differ at byte {at}: sync_len={} async_len={}", c.ctx, x.len(), y.len())))
            }
            _ => Err((format!("async-{fam}-encoder-bgzf-undecodable"), format!("{} sync={:?} async={:?}", c.ctx, ps.map(|v| v.len()), pa.map(|v| v.len())))),
        };
    }
    match &s.end {
        End::Done => {
            if s.bytes != a.bytes {
                let at = s.bytes.iter().zip(a.bytes.iter()).position(|(p, q)| p != q).unwrap_or(s.bytes.len().min(a.bytes.len()));
                let i = item_at(&s.marks, at);
                return Err((format!("async-{fam}-{}-bytes-differ", part(i)), format!("{} {}", c.ctx, diff(&s.bytes, &a.bytes))));
            }
            if s.marks != a.marks {
                let i = s.marks.iter().zip(a.marks.iter()).position(|(p, q)| p != q).unwrap_or(0);
                return Err((format!("async-{fam}-encoder-record-boundary-differs"), format!("{} same bytes, item {i} [{}] ends at sync={:?} async={:?}", c.ctx, lab(i), s.marks.get(i), a.marks.get(i))));
            }
            Ok(())
        }
        End::Err(i, _) | End::Panic(i) => {
            let p = s.marks.last().copied().unwrap_or(0);
            // the header writers of both sides are unbuffered: a rejected header may leave a prefix
            let partial_ok = c.sync_partial_ok || (c.has_header && *i == 0);
            if s.bytes.len() < p || (!partial_ok && s.bytes.len() != p) {
                return Err(("harness-aenc-sync-sink-length".into(), format!("{} sync sink holds {} bytes, last accepted item ended at {p}", c.ctx, s.bytes.len())));
            }
            // the async sink: exactly the accepted prefix, or (unbuffered async writers) the same partial item
            if a.bytes[..] != s.bytes[..p] && a.bytes != s.bytes {
                let at = s.bytes[..p].iter().zip(a.bytes.iter()).position(|(x, y)| x != y).unwrap_or(p.min(a.bytes.len()));
                return Err((
                    format!("async-{fam}-{}-bytes-differ", part(item_at(&s.marks, at))),
                    format!("{} before the rejected item {i} [{}]: {}", c.ctx, lab(*i), diff(&s.bytes[..p], &a.bytes)),
                ));
            }
            if s.marks != a.marks {
                return Err((format!("async-{fam}-encoder-record-boundary-differs"), format!("{} item ends differ before the rejected item {i}", c.ctx)));
            }
            Ok(())
        }
    }
}

fn sched_of(mode: u8, sseed: u64, salt: u64) -> Sched {
    Sched::new(mode, sseed ^ salt.wrapping_mul(0x9E37_79B9_7F4A_7C15))
}

// ---------------------------------------------------------------------------------------------
// value pools

const FLOAT_POOL: [u32; 18] = [
    0x0000_0000, 0x8000_0000, 0x0000_0001, 0x007f_ffff, 0x0080_0000, 0x7f7f_ffff, 0xff7f_ffff, 0x3f80_0000, 0xbf80_0000, 0x3dcc_cccd,
    0x4048_f5c3, 0x4b80_0000, 0x3400_0000, 0x5015_02f9, 0x1e3c_e508, 0x8000_0001, 0x42f6_e979, 0x3eaa_aaab,
];
const FLOAT_NONFINITE: [u32; 8] = [0x7f80_0000, 0xff80_0000, 0x7fc0_0000, 0xffc0_0000, 0x7f80_0001, 0x7f80_0002, 0x7fff_ffff, 0x7f80_0007];

fn gen_f32(rng: &mut Rng, nonfinite: bool) -> f32 {
    let bits = if nonfinite && rng.chance(1, 4) {
        *rng.pick(&FLOAT_NONFINITE)
    } else if rng.chance(2, 3) {
        *rng.pick(&FLOAT_POOL)
    } else {
        loop {
            let b = rng.next() as u32;
            if f32::from_bits(b).is_finite() {
                break b;
            }
        }
    };
    f32::from_bits(bits)
}

fn gen_in(rng: &mut Rng, lo: i64, hi: i64) -> i64 {
    match rng.below(6) {
        0 => lo,
        1 => hi,
        2 => (lo + 1).min(hi),
        3 => (hi - 1).max(lo),
        4 => 0i64.clamp(lo, hi),
        _ => lo + (rng.next() % ((hi - lo + 1) as u64)) as i64,
    }
}

fn gen_bytes_from(rng: &mut Rng, alphabet: &[u8], n: usize) -> Vec<u8> {
    (0..n).map(|_| *rng.pick(alphabet)).collect()
}

fn graphic(rng: &mut Rng, n: usize, exclude: &[u8]) -> Vec<u8> {
    (0..n)
        .map(|_| loop {
            let b = rng.range(0x21, 0x7e) as u8;
            if !exclude.contains(&b) {
                break b;
            }
        })
        .collect()
}

fn len_pick(rng: &mut Rng, small: u64, specials: &[usize]) -> usize {
    if rng.chance(1, 5) { *rng.pick(specials) } else { rng.below(small + 1) as usize }
}

// ---------------------------------------------------------------------------------------------
// alignment family (BAM, SAM)

const HDR_TAG_VAL: &[u8] = b"abcXYZ019 _-.:/|(){}[]~#$%&'*+,;<=>?@^`!\"";

fn gen_sam_header(rng: &mut Rng) -> (sam::Header, &'static str) {
    let mut t = String::new();
    if rng.chance(4, 5) {
        t += "@HD\tVN:1.6";
        if rng.chance(1, 2) {
            t += &format!("\tSO:{}", rng.pick(&["unknown", "unsorted", "queryname", "coordinate"]));
        }
        if rng.chance(1, 3) {
            t += &format!("\tGO:{}", rng.pick(&["none", "query", "reference"]));
        }
        if rng.chance(1, 3) {
            t += &format!("\tSS:{}", rng.pick(&["coordinate:queryname", "queryname:natural", "unsorted:x:y"]));
        }
        if rng.chance(1, 4) {
            t += "\txy:other value";
        }
        t += "\n";
    }
    let nref = *rng.pick(&[0usize, 1, 1, 2, 3, 5, 40]);
    for i in 0..nref {
        let ln = *rng.pick(&[1u64, 2, 100, 65535, 65536, 1 << 29, (1 << 29) + 1, (1 << 31) - 1, 248_956_422]);
        let name = match rng.below(4) {
            0 => format!("sq{i}"),
            1 => format!("chr{i}_{}", String::from_utf8(graphic(rng, 3, b"*=,\\\"'`()[]{}<>")).unwrap()),
            2 => format!("{i}"),
            _ => format!("HLA-A{i}:01:01"),
        };
        t += &format!("@SQ\tSN:{name}\tLN:{ln}");
        for (tag, vals) in [
            ("AH", &["*", "chr1:1-100"][..]),
            ("AN", &["alt1", "alt1,alt2"][..]),
            ("AS", &["GRCh38", "a b"][..]),
            ("DS", &["a description, with = signs", "x"][..]),
            ("M5", &["0123456789abcdef0123456789abcdef"][..]),
            ("SP", &["Homo sapiens"][..]),
            ("TP", &["linear", "circular"][..]),
            ("UR", &["file:///tmp/ref.fa", "https://example.org/r.fa"][..]),
            ("zz", &["custom"][..]),
        ] {
            if rng.chance(1, 5) {
                t += &format!("\t{tag}:{}", rng.pick(vals));
            }
        }
        t += "\n";
    }
    for i in 0..*rng.pick(&[0usize, 0, 1, 2, 4]) {
        t += &format!("@RG\tID:rg{i}");
        for tag in ["BC", "CN", "DS", "DT", "FO", "KS", "LB", "PG", "PI", "PL", "PM", "PU", "SM", "ab"] {
            if rng.chance(1, 4) {
                let v = match tag {
                    "PL" => rng.pick(&["ILLUMINA", "ONT", "PACBIO", "illumina"]).to_string(),
                    "DT" => "2024-01-02T03:04:05Z".into(),
                    "FO" => "*".into(),
                    "PI" => "350".into(),
                    _ => String::from_utf8({ let n = rng.range(1, 12) as usize; gen_bytes_from(rng, HDR_TAG_VAL, n) }).unwrap(),
                };
                t += &format!("\t{tag}:{v}");
            }
        }
        t += "\n";
    }
    let npg = *rng.pick(&[0usize, 0, 1, 2, 3]);
    for i in 0..npg {
        t += &format!("@PG\tID:pg{i}");
        if rng.chance(1, 2) {
            t += "\tPN:prog";
        }
        if rng.chance(1, 2) {
            t += "\tCL:prog --opt x\\ty in.bam";
        }
        if i > 0 && rng.chance(2, 3) {
            t += &format!("\tPP:pg{}", i - 1);
        }
        if rng.chance(1, 3) {
            t += "\tVN:1.2.3";
        }
        t += "\n";
    }
    for _ in 0..*rng.pick(&[0usize, 0, 1, 3]) {
        let n = rng.below(30) as usize;
        t += &format!("@CO\t{}\n", String::from_utf8(gen_bytes_from(rng, b"abc \tXYZ@:;0189", n)).unwrap());
    }
    let parsed = match guarded(AssertUnwindSafe(|| t.parse::<sam::Header>())) {
        Outcome::Done(Ok(h)) => h,
        _ => {
            let mut b = sam::Header::builder();
            for i in 0..nref.min(5) {
                b = b.add_reference_sequence(format!("r{i}"), Map::<ReferenceSequence>::new(NonZero::new((1usize << 31) - 1).unwrap()));
            }
            b.build()
        }
    };
    let mut h = parsed;
    // rarely: a dictionary entry only the API can make (a header writer may reject it)
    let mut spice = "-";
    if rng.chance(1, 20) {
        let (name, ln, what): (&[u8], usize, &'static str) = match rng.below(6) {
            0 => (b"big31", 1 << 31, "sq-length-2^31"),
            1 => (b"big32m1", (1 << 32) - 1, "sq-length-2^32-1"),
            2 => (b"big32", 1 << 32, "sq-length-2^32"),
            3 => (b"a\0b", 10, "sq-name-with-nul"),
            4 => (b"*star", 10, "sq-name-starts-with-star"),
            _ => (b"sp ace", 10, "sq-name-with-space"),
        };
        h.reference_sequences_mut().insert(BString::from(name), Map::<ReferenceSequence>::new(NonZero::new(ln).unwrap()));
        spice = what;
    }
    (h, spice)
}

const KINDS: [Kind; 9] = [
    Kind::Match,
    Kind::Insertion,
    Kind::Deletion,
    Kind::Skip,
    Kind::SoftClip,
    Kind::HardClip,
    Kind::Pad,
    Kind::SequenceMatch,
    Kind::SequenceMismatch,
];

fn consumes_read(k: Kind) -> bool {
    matches!(k, Kind::Match | Kind::Insertion | Kind::SoftClip | Kind::SequenceMatch | Kind::SequenceMismatch)
}

fn gen_tag(rng: &mut Rng) -> Tag {
    if rng.chance(1, 4) {
        let t = *rng.pick(&[b"NM", b"MD", b"AS", b"RG", b"BC", b"MI", b"OQ", b"ML", b"MM", b"SA", b"XS", b"B0"]);
        Tag::new(t[0], t[1])
    } else {
        let a = *rng.pick(b"ABCXYZabcxyz");
        let b = *rng.pick(b"ABCXYZabcxyz0123456789");
        Tag::new(a, b)
    }
}

fn gen_data_value(rng: &mut Rng, nonfinite: bool) -> Value {
    let n = |rng: &mut Rng| len_pick(rng, 6, &[0, 1, 2, 255, 256, 1000]);
    match rng.below(18) {
        0 => Value::Character(rng.range(0x21, 0x7e) as u8),
        1 => Value::Int8(gen_in(rng, i8::MIN as i64, i8::MAX as i64) as i8),
        2 => Value::UInt8(gen_in(rng, 0, u8::MAX as i64) as u8),
        3 => Value::Int16(gen_in(rng, i16::MIN as i64, i16::MAX as i64) as i16),
        4 => Value::UInt16(gen_in(rng, 0, u16::MAX as i64) as u16),
        5 => Value::Int32(gen_in(rng, i32::MIN as i64, i32::MAX as i64) as i32),
        6 => Value::UInt32(gen_in(rng, 0, u32::MAX as i64) as u32),
        7 => Value::Float(gen_f32(rng, nonfinite)),
        8 | 9 => {
            let k = len_pick(rng, 12, &[0, 1, 300, 70000]);
            let mut s = graphic(rng, k, b"");
            for b in s.iter_mut() {
                if rng.chance(1, 9) {
                    *b = b' ';
                }
            }
            Value::String(s.into())
        }
        10 => {
            let k = len_pick(rng, 6, &[0, 1, 128]);
            Value::Hex(gen_bytes_from(rng, b"0123456789ABCDEF", 2 * k).into())
        }
        11 => Value::Array(Array::Int8((0..n(rng)).map(|_| gen_in(rng, -128, 127) as i8).collect())),
        12 => Value::Array(Array::UInt8((0..n(rng)).map(|_| gen_in(rng, 0, 255) as u8).collect())),
        13 => Value::Array(Array::Int16((0..n(rng)).map(|_| gen_in(rng, i16::MIN as i64, i16::MAX as i64) as i16).collect())),
        14 => Value::Array(Array::UInt16((0..n(rng)).map(|_| gen_in(rng, 0, 65535) as u16).collect())),
        15 => Value::Array(Array::Int32((0..n(rng)).map(|_| gen_in(rng, i32::MIN as i64, i32::MAX as i64) as i32).collect())),
        16 => Value::Array(Array::UInt32((0..n(rng)).map(|_| gen_in(rng, 0, u32::MAX as i64) as u32).collect())),
        _ => Value::Array(Array::Float((0..n(rng)).map(|_| gen_f32(rng, nonfinite)).collect())),
    }
}

/// A record both the SAM and the BAM writer are expected to accept (`bam_only`: may use what only
/// BAM can hold: non-finite floats).  `long_cigar`: more than 65535 CIGAR ops.
fn gen_sam_record(rng: &mut Rng, nref: usize, bam_only: bool, long_cigar: bool) -> SamBuf {
    let mut r = SamBuf::default();
    *r.name_mut() = match rng.below(8) {
        0 => None,
        1 => Some(graphic(rng, 254, b"@").into()),
        2 => Some(graphic(rng, 1, b"@*").into()),
        _ => Some({ let n = rng.range(2, 30) as usize; graphic(rng, n, b"@") }.into()),
    };
    *r.flags_mut() = Flags::from(match rng.below(4) {
        0 => 0u16,
        1 => 0xffff,
        2 => *rng.pick(&[4u16, 16, 99, 147, 83, 163, 0x900, 0x4d]),
        _ => rng.next() as u16,
    });
    let pos = |rng: &mut Rng| -> Option<Position> {
        match rng.below(6) {
            0 => None,
            1 => Position::new(1),
            2 => Position::new((1 << 31) - 1),
            3 => Position::new(*rng.pick(&[16384usize, 16385, 1 << 29, (1 << 29) + 1, 131072])),
            _ => Position::new(rng.range(1, 300_000_000) as usize),
        }
    };
    if nref > 0 && rng.chance(5, 6) {
        *r.reference_sequence_id_mut() = Some(rng.below(nref as u64) as usize);
    }
    *r.alignment_start_mut() = pos(rng);
    *r.mapping_quality_mut() = MappingQuality::new(*rng.pick(&[0u8, 1, 30, 60, 254, 255]));
    if nref > 0 && rng.chance(1, 2) {
        *r.mate_reference_sequence_id_mut() = Some(rng.below(nref as u64) as usize);
    }
    *r.mate_alignment_start_mut() = pos(rng);
    *r.template_length_mut() = gen_in(rng, i32::MIN as i64, i32::MAX as i64) as i32;
    // CIGAR and a sequence of the matching read length
    let mut ops: Vec<Op> = Vec::new();
    let mut read_len = 0usize;
    if long_cigar {
        let n = *rng.pick(&[65535usize, 65536, 65537, 70001]);
        for i in 0..n {
            let k = if i % 2 == 0 { Kind::Match } else { *rng.pick(&[Kind::Deletion, Kind::Insertion, Kind::Skip]) };
            let l = if rng.chance(1, 50) { 2 } else { 1 };
            if consumes_read(k) {
                read_len += l;
            }
            ops.push(Op::new(k, l));
        }
    } else {
        let n = *rng.pick(&[0usize, 0, 1, 2, 3, 5, 9, 40]);
        for _ in 0..n {
            let k = *rng.pick(&KINDS);
            let l = if consumes_read(k) {
                *rng.pick(&[0usize, 1, 1, 2, 7, 50, 151])
            } else {
                *rng.pick(&[0usize, 1, 10, 65536, (1 << 28) - 1, 100000])
            };
            if consumes_read(k) {
                read_len += l;
            }
            ops.push(Op::new(k, l));
        }
    }
    let unmapped_seq_len = if ops.is_empty() { *rng.pick(&[0usize, 0, 1, 2, 3, 50, 151]) } else { read_len };
    *r.cigar_mut() = ops.into_iter().collect::<Cigar>();
    let alphabet: &[u8] = if rng.chance(1, 4) { b"=ACMGRSVTWYHKDBNacgtn" } else { b"ACGTN" };
    let seq = gen_bytes_from(rng, alphabet, unmapped_seq_len);
    let n = seq.len();
    *r.sequence_mut() = Sequence::from(seq);
    *r.quality_scores_mut() = QualityScores::from(match rng.below(4) {
        0 => Vec::new(),
        1 => vec![*rng.pick(&[0u8, 93, 40]); n],
        _ => (0..n).map(|_| rng.below(94) as u8).collect::<Vec<u8>>(),
    });
    let mut d = Data::default();
    for _ in 0..*rng.pick(&[0usize, 0, 1, 2, 3, 6, 14]) {
        d.insert(gen_tag(rng), gen_data_value(rng, bam_only));
    }
    *r.data_mut() = d;
    r
}

/// One record with a feature a writer may reject (or encode in an unusual way).
fn gen_sam_spicy(rng: &mut Rng, nref: usize) -> (SamBuf, &'static str) {
    let mut r = gen_sam_record(rng, nref, false, false);
    let what = match rng.below(22) {
        0 => { *r.name_mut() = Some(BString::from("")); "name-empty" }
        1 => { *r.name_mut() = Some(BString::from("a@b")); "name-with-at" }
        2 => { *r.name_mut() = Some(BString::from("a b")); "name-with-space" }
        3 => { *r.name_mut() = Some(graphic(rng, 255, b"@").into()); "name-255" }
        4 => { *r.name_mut() = Some(BString::from("*")); "name-star" }
        5 => { *r.name_mut() = Some(BString::from(&b"a\0b"[..])); "name-with-nul" }
        6 => { *r.reference_sequence_id_mut() = Some(nref + rng.below(3) as usize); "ref-id-out-of-range" }
        7 => { *r.mate_reference_sequence_id_mut() = Some(nref); "mate-ref-id-out-of-range" }
        8 => { *r.alignment_start_mut() = Position::new(*rng.pick(&[1usize << 31, (1 << 31) + 1, 1 << 32, usize::MAX])); "pos-over-i32" }
        9 => { *r.mate_alignment_start_mut() = Position::new(*rng.pick(&[1usize << 31, usize::MAX])); "mate-pos-over-i32" }
        10 => { *r.cigar_mut() = [Op::new(Kind::Deletion, *rng.pick(&[1usize << 28, (1 << 28) + 1, 1 << 32]))].into_iter().collect(); "cigar-op-len-over-2^28" }
        11 => {
            let n = r.sequence().len();
            *r.quality_scores_mut() = QualityScores::from(vec![30u8; n + 1]);
            "quality-length-mismatch"
        }
        12 => {
            let n = r.sequence().len().max(1);
            *r.sequence_mut() = Sequence::from(vec![b'A'; n]);
            *r.cigar_mut() = [Op::new(Kind::Match, n)].into_iter().collect();
            *r.quality_scores_mut() = QualityScores::from(vec![*rng.pick(&[94u8, 200, 255]); n]);
            "quality-over-93"
        }
        13 => {
            let n = r.sequence().len();
            *r.cigar_mut() = [Op::new(Kind::Match, n + 1)].into_iter().collect();
            "cigar-read-length-mismatch"
        }
        14 => {
            let n = r.sequence().len().max(2);
            *r.cigar_mut() = [Op::new(Kind::Match, n)].into_iter().collect();
            let mut s = vec![b'A'; n];
            s[n / 2] = *rng.pick(&[b'*', b'-', b' ', b'1', 0u8, 0xff]);
            *r.sequence_mut() = Sequence::from(s);
            *r.quality_scores_mut() = QualityScores::default();
            "sequence-invalid-base"
        }
        15 => { r.data_mut().insert(Tag::new(*rng.pick(b"0 \t:"), b'A'), Value::Int8(1)); "tag-invalid" }
        16 => { r.data_mut().insert(Tag::new(b'Z', b'z'), Value::String(BString::from(&b"a\tb"[..]))); "string-with-tab" }
        17 => { r.data_mut().insert(Tag::new(b'Z', b'n'), Value::String(BString::from(&b"a\0b"[..]))); "string-with-nul" }
        18 => { r.data_mut().insert(Tag::new(b'H', b'x'), Value::Hex(BString::from(*rng.pick(&["ABC", "ab", "GG", "0"])))); "hex-invalid" }
        19 => { r.data_mut().insert(Tag::new(b'f', b'n'), Value::Float(f32::from_bits(*rng.pick(&FLOAT_NONFINITE)))); "float-nonfinite" }
        20 => { r.data_mut().insert(Tag::new(b'c', b'h'), Value::Character(*rng.pick(&[b' ', b'\t', 0u8, 0x7f, 0xff]))); "character-not-graphic" }
        _ => {
            // a user CG tag next to a real CIGAR
            r.data_mut().insert(Tag::new(b'C', b'G'), Value::Array(Array::UInt32(vec![16, 32])));
            "user-cg-tag"
        }
    };
    (r, what)
}

enum AlnItem {
    Header,
    Buf(SamBuf),
    Bam(bam::Record),
    Sam(sam::Record),
}

fn lazies_bam(h: &sam::Header, recs: &[SamBuf]) -> Vec<bam::Record> {
    match guarded(AssertUnwindSafe(|| -> io::Result<Vec<bam::Record>> {
        let mut w = bam::io::Writer::from(Vec::new());
        w.write_header(h)?;
        for r in recs {
            w.write_alignment_record(h, r)?;
        }
        let buf = w.into_inner();
        let mut rd = bam::io::Reader::from(&buf[..]);
        rd.read_header()?;
        rd.records().collect()
    })) {
        Outcome::Done(Ok(v)) => v,
        _ => Vec::new(),
    }
}

fn lazies_sam(h: &sam::Header, recs: &[SamBuf]) -> Vec<sam::Record> {
    match guarded(AssertUnwindSafe(|| -> io::Result<Vec<sam::Record>> {
        let mut w = sam::io::Writer::new(Vec::new());
        w.write_header(h)?;
        for r in recs {
            w.write_alignment_record(h, r)?;
        }
        let buf = w.into_inner();
        let mut rd = sam::io::Reader::new(&buf[..]);
        rd.read_header()?;
        rd.records().collect()
    })) {
        Outcome::Done(Ok(v)) => v,
        _ => Vec::new(),
    }
}

fn build_aln(rng: &mut Rng, bam_fmt: bool) -> (sam::Header, Vec<AlnItem>, Vec<String>) {
    let (h, hspice) = gen_sam_header(rng);
    let nref = h.reference_sequences().len();
    let n = rng.range(1, 10) as usize;
    let long_at = if bam_fmt && rng.chance(1, 8) { Some(rng.below(n as u64) as usize) } else { None };
    // lazies are derived from records that both formats hold (no BAM-only values)
    let shared: Vec<SamBuf> = (0..n).map(|i| gen_sam_record(rng, nref, false, long_at == Some(i))).collect();
    let mut items = vec![AlnItem::Header];
    let mut labels = vec![format!("header:{hspice}")];
    for (i, r) in shared.iter().enumerate() {
        labels.push(if long_at == Some(i) { "buf:long-cigar".into() } else { "buf".into() });
        items.push(AlnItem::Buf(r.clone()));
    }
    if bam_fmt {
        for _ in 0..rng.below(4) {
            items.push(AlnItem::Buf(gen_sam_record(rng, nref, true, false)));
            labels.push("buf:bam-values".into());
        }
    }
    if rng.chance(3, 4) {
        let small: Vec<SamBuf> = shared.iter().take(6).cloned().collect();
        for r in lazies_bam(&h, &small) {
            items.push(AlnItem::Bam(r));
            labels.push("lazy-bam".into());
        }
        let small: Vec<SamBuf> = small.into_iter().filter(|r| r.cigar().as_ref().len() < 1000).collect();
        for r in lazies_sam(&h, &small) {
            items.push(AlnItem::Sam(r));
            labels.push("lazy-sam".into());
        }
    }
    if rng.chance(3, 10) {
        let (r, what) = gen_sam_spicy(rng, nref);
        items.push(AlnItem::Buf(r));
        labels.push(format!("spicy:{what}"));
        items.push(AlnItem::Buf(gen_sam_record(rng, nref, false, false)));
        labels.push("buf".into());
    }
    (h, items, labels)
}

fn aln_records_written(marks: &[usize]) -> bool {
    marks.len() >= 2
}

fn run_bam(seed: u64, mode: u8, sseed: u64) -> Result<(bool, Vec<std::sync::Arc<std::sync::atomic::AtomicBool>>), (String, String)> {
    let mut rng = Rng::new(seed);
    let (h, items, labels) = build_aln(&mut rng, true);
    let mut trips = Vec::new();
    let mut nontrivial = false;
    for sink_kind in ["raw", "bgzf"] {
        // ---- sync
        let s = if sink_kind == "raw" {
            let mut w = bam::io::Writer::from(Vec::new());
            let (marks, end) = drive_sync(items.len(), |i| {
                match &items[i] {
                    AlnItem::Header => w.write_header(&h)?,
                    AlnItem::Buf(r) => w.write_alignment_record(&h, r)?,
                    AlnItem::Bam(r) => w.write_record(&h, r)?,
                    AlnItem::Sam(r) => w.write_alignment_record(&h, r)?,
                }
                Ok(w.get_ref().len())
            });
            Out { bytes: w.into_inner(), marks, end }
        } else {
            let mut w = bam::io::Writer::new(Vec::new());
            let (marks, end) = drive_sync(items.len(), |i| {
                match &items[i] {
                    AlnItem::Header => w.write_header(&h)?,
                    AlnItem::Buf(r) => w.write_alignment_record(&h, r)?,
                    AlnItem::Bam(r) => w.write_record(&h, r)?,
                    AlnItem::Sam(r) => w.write_alignment_record(&h, r)?,
                }
                Ok(0)
            });
            let fin = guarded(AssertUnwindSafe(|| w.try_finish()));
            if !matches!(fin, Outcome::Done(Ok(()))) {
                return Err(("harness-aenc-sync-finish".into(), format!("seed={seed} bam try_finish failed")));
            }
            Out { bytes: w.get_ref().get_ref().clone(), marks, end }
        };
        nontrivial |= aln_records_written(&s.marks);
        // ---- async
        let sched = sched_of(mode, sseed, if sink_kind == "raw" { 1 } else { 2 });
        trips.push(sched.tripped.clone());
        let (sink, log) = AdvWriter::new(sched);
        let (marks, end) = if sink_kind == "raw" {
            block_on(async {
                let mut w = bam::r#async::io::Writer::from(sink);
                let log2 = log.clone();
                let r = drive_async(items.len(), async |i| {
                    match &items[i] {
                        AlnItem::Header => w.write_header(&h).await?,
                        AlnItem::Buf(r) => w.write_alignment_record(&h, r).await?,
                        AlnItem::Bam(r) => w.write_record(&h, r).await?,
                        AlnItem::Sam(r) => w.write_alignment_record(&h, r).await?,
                    }
                    Ok(log2.lock().unwrap().bytes.len())
                })
                .await;
                let _ = w.shutdown().await;
                r
            })
        } else {
            let workers = 1 + (sseed % 4) as usize;
            block_on(async {
                let bw = bgzf::r#async::io::writer::Builder::default().set_worker_count(NonZero::new(workers).unwrap()).build_from_writer(sink);
                let mut w = bam::r#async::io::Writer::from(bw);
                let r = drive_async(items.len(), async |i| {
                    match &items[i] {
                        AlnItem::Header => w.write_header(&h).await?,
                        AlnItem::Buf(r) => w.write_alignment_record(&h, r).await?,
                        AlnItem::Bam(r) => w.write_record(&h, r).await?,
                        AlnItem::Sam(r) => w.write_alignment_record(&h, r).await?,
                    }
                    Ok(0)
                })
                .await;
                match w.shutdown().await {
                    Ok(()) => r,
                    Err(e) => (r.0, End::Err(usize::MAX, format!("shutdown:{}", errkind(&e)))),
                }
            })
        };
        let a = Out { bytes: log.lock().unwrap().bytes.clone(), marks, end };
        if trips.iter().any(|t| t.load(Ordering::SeqCst)) {
            return Ok((nontrivial, trips));
        }
        compare(
            &Cmp { fam: "bam", sink: sink_kind, ctx: format!("seed={seed} mode={mode}"), labels: &labels, has_header: true, sync_partial_ok: false },
            &s,
            &a,
        )?;
    }
    Ok((nontrivial, trips))
}

fn run_sam(seed: u64, mode: u8, sseed: u64) -> Result<(bool, Vec<std::sync::Arc<std::sync::atomic::AtomicBool>>), (String, String)> {
    let mut rng = Rng::new(seed);
    let (h, items, labels) = build_aln(&mut rng, false);
    let mut w = sam::io::Writer::new(Vec::new());
    let (marks, end) = drive_sync(items.len(), |i| {
        match &items[i] {
            AlnItem::Header => w.write_header(&h)?,
            AlnItem::Buf(r) => w.write_alignment_record(&h, r)?,
            AlnItem::Bam(r) => w.write_alignment_record(&h, r)?,
            AlnItem::Sam(r) => w.write_record(&h, r)?,
        }
        Ok(w.get_ref().len())
    });
    let s = Out { bytes: w.into_inner(), marks, end };
    let sched = sched_of(mode, sseed, 1);
    let trips = vec![sched.tripped.clone()];
    let (sink, log) = AdvWriter::new(sched);
    let (marks, end) = block_on(async {
        let mut w = sam::r#async::io::Writer::new(sink);
        let log2 = log.clone();
        let r = drive_async(items.len(), async |i| {
            match &items[i] {
                AlnItem::Header => w.write_header(&h).await?,
                AlnItem::Buf(r) => w.write_alignment_record(&h, r).await?,
                AlnItem::Bam(r) => w.write_alignment_record(&h, r).await?,
                AlnItem::Sam(r) => w.write_record(&h, r).await?,
            }
            Ok(log2.lock().unwrap().bytes.len())
        })
        .await;
        let _ = w.get_mut().shutdown().await;
        r
    });
    let a = Out { bytes: log.lock().unwrap().bytes.clone(), marks, end };
    let nontrivial = aln_records_written(&s.marks);
    if trips[0].load(Ordering::SeqCst) {
        return Ok((nontrivial, trips));
    }
    compare(
        &Cmp { fam: "sam", sink: "raw", ctx: format!("seed={seed} mode={mode}"), labels: &labels, has_header: true, sync_partial_ok: true },
        &s,
        &a,
    )?;
    Ok((nontrivial, trips))
}

// ---------------------------------------------------------------------------------------------
// variant family (VCF, BCF)

#[derive(Clone, Copy, PartialEq, Debug)]
enum Ty {
    Int,
    Float,
    Flag,
    Char,
    Str,
}

#[derive(Clone, Copy, PartialEq, Debug)]
enum Num {
    N(usize),
    A,
    R,
    G,
    Dot,
}

#[derive(Clone, Debug)]
struct Def {
    id: String,
    num: Num,
    ty: Ty,
}

struct VHdr {
    header: vcf::Header,
    contigs: Vec<String>,
    filters: Vec<String>,
    infos: Vec<Def>,
    formats: Vec<Def>,
    nsamples: usize,
}

fn num_text(n: Num) -> String {
    match n {
        Num::N(k) => k.to_string(),
        Num::A => "A".into(),
        Num::R => "R".into(),
        Num::G => "G".into(),
        Num::Dot => ".".into(),
    }
}

fn ty_text(t: Ty) -> &'static str {
    match t {
        Ty::Int => "Integer",
        Ty::Float => "Float",
        Ty::Flag => "Flag",
        Ty::Char => "Character",
        Ty::Str => "String",
    }
}

const NUMS: [Num; 8] = [Num::N(1), Num::N(2), Num::N(3), Num::A, Num::R, Num::G, Num::Dot, Num::N(1)];

fn gen_vcf_header(rng: &mut Rng) -> VHdr {
    let ver = *rng.pick(&["4.2", "4.3", "4.3", "4.4", "4.5"]);
    let mut t = format!("##fileformat=VCFv{ver}\n");
    if rng.chance(1, 2) {
        t += "##source=c16 aenc\n";
    }
    if rng.chance(1, 3) {
        t += "##reference=file:///tmp/ref.fa\n";
    }
    let mut infos: Vec<Def> = Vec::new();
    for (id, num, ty) in [
        ("DP", Num::N(1), Ty::Int),
        ("AF", Num::A, Ty::Float),
        ("AC", Num::A, Ty::Int),
        ("AN", Num::N(1), Ty::Int),
        ("DB", Num::N(0), Ty::Flag),
        ("AA", Num::N(1), Ty::Str),
        ("END", Num::N(1), Ty::Int),
        ("SVTYPE", Num::N(1), Ty::Str),
        ("MQ", Num::N(1), Ty::Float),
    ] {
        if rng.chance(1, 2) {
            infos.push(Def { id: id.into(), num, ty });
        }
    }
    let mut k = 0;
    for ty in [Ty::Int, Ty::Float, Ty::Char, Ty::Str] {
        for num in NUMS.iter().take(7) {
            if rng.chance(1, 3) {
                infos.push(Def { id: format!("I{k}"), num: *num, ty });
                k += 1;
            }
        }
    }
    if rng.chance(1, 2) {
        infos.push(Def { id: "FL".into(), num: Num::N(0), ty: Ty::Flag });
    }
    let mut formats: Vec<Def> = Vec::new();
    for (id, num, ty) in [
        ("GT", Num::N(1), Ty::Str),
        ("DP", Num::N(1), Ty::Int),
        ("GQ", Num::N(1), Ty::Int),
        ("AD", Num::R, Ty::Int),
        ("PL", Num::G, Ty::Int),
        ("FT", Num::N(1), Ty::Str),
        ("GL", Num::G, Ty::Float),
    ] {
        if rng.chance(3, 5) {
            formats.push(Def { id: id.into(), num, ty });
        }
    }
    let mut k = 0;
    for ty in [Ty::Int, Ty::Float, Ty::Char, Ty::Str] {
        for num in NUMS.iter().take(7) {
            if rng.chance(1, 4) {
                formats.push(Def { id: format!("F{k}"), num: *num, ty });
                k += 1;
            }
        }
    }
    for d in &infos {
        t += &format!("##INFO=<ID={},Number={},Type={},Description=\"d {} \\\"q\\\"\">\n", d.id, num_text(d.num), ty_text(d.ty), d.id);
    }
    let filters: Vec<String> = ["q10", "s50", "LowQual", "f.4"].iter().filter(|_| rng.chance(1, 2)).map(|s| s.to_string()).collect();
    if rng.chance(1, 3) {
        t += "##FILTER=<ID=PASS,Description=\"All filters passed\">\n";
    }
    for f in &filters {
        t += &format!("##FILTER=<ID={f},Description=\"filter {f}\">\n");
    }
    for d in &formats {
        t += &format!("##FORMAT=<ID={},Number={},Type={},Description=\"d\">\n", d.id, num_text(d.num), ty_text(d.ty));
    }
    if rng.chance(1, 3) {
        t += "##ALT=<ID=DEL,Description=\"Deletion\">\n";
    }
    let ncontig = *rng.pick(&[1usize, 1, 2, 3, 30]);
    let mut contigs = Vec::new();
    for i in 0..ncontig {
        let name = match rng.below(3) {
            0 => format!("sq{i}"),
            1 => format!("chr{i}"),
            _ => format!("{}", i + 1),
        };
        if contigs.contains(&name) {
            continue;
        }
        if rng.chance(1, 2) {
            t += &format!("##contig=<ID={name},length={}>\n", rng.pick(&[1u64, 1000, 248_956_422, (1 << 31) - 1]));
        } else {
            t += &format!("##contig=<ID={name}>\n");
        }
        contigs.push(name);
    }
    if rng.chance(1, 4) {
        t += "##myKey=free text, with = and <brackets>\n";
    }
    let nsamples = *rng.pick(&[0usize, 1, 2, 3, 5]);
    t += "#CHROM\tPOS\tID\tREF\tALT\tQUAL\tFILTER\tINFO";
    if nsamples > 0 {
        t += "\tFORMAT";
        for i in 0..nsamples {
            t += &format!("\tsample{i}");
        }
    }
    t += "\n";
    match guarded(AssertUnwindSafe(|| t.parse::<vcf::Header>())) {
        Outcome::Done(Ok(mut header)) => {
            // what the BCF reader does after parsing the header text: lazy BCF records resolve
            // their dictionary indices through the header's string maps
            if let Ok(sm) = vcf::header::StringMaps::try_from(&header) {
                *header.string_maps_mut() = sm;
            }
            VHdr { header, contigs, filters, infos, formats, nsamples }
        }
        _ => {
            // must not happen; a minimal header keeps the case meaningful
            let header = "##fileformat=VCFv4.3\n##contig=<ID=sq0>\n#CHROM\tPOS\tID\tREF\tALT\tQUAL\tFILTER\tINFO\n".parse::<vcf::Header>().unwrap();
            VHdr { header, contigs: vec!["sq0".into()], filters: vec![], infos: vec![], formats: vec![], nsamples: 0 }
        }
    }
}

const VINT_POOL: [i32; 22] = [
    0, 1, -1, 127, 128, -120, -121, -127, -128, 32767, 32768, -32760, -32761, -32768, 65536, i32::MAX, i32::MAX - 1, i32::MIN + 8, i32::MIN + 9, 100, 1000000, -1000000,
];

fn gen_vint(rng: &mut Rng) -> i32 {
    if rng.chance(2, 3) { *rng.pick(&VINT_POOL) } else { gen_in(rng, -70000, 70000) as i32 }
}

fn gen_vstr(rng: &mut Rng) -> String {
    match rng.below(8) {
        0 => String::new(),
        1 => "a;b=c,d:e%f".into(),
        2 => "with space".into(),
        3 => "caf\u{e9}\u{4e2d}".into(),
        4 => ".".into(),
        5 => String::from_utf8(graphic(rng, 300, b",;=:%")).unwrap(),
        _ => String::from_utf8({ let n = rng.range(1, 10) as usize; graphic(rng, n, b",;=:%") }).unwrap(),
    }
}

fn gen_vchar(rng: &mut Rng) -> char {
    match rng.below(6) {
        0 => *rng.pick(&[';', '=', ',', ':', '%', '.']),
        _ => rng.range(0x21, 0x7e) as u8 as char,
    }
}

fn count_for(rng: &mut Rng, num: Num, nalt: usize, ploidy: usize) -> usize {
    match num {
        Num::N(k) => k,
        Num::A => nalt,
        Num::R => nalt + 1,
        Num::G => {
            if ploidy == 1 { nalt + 1 } else { (nalt + 1) * (nalt + 2) / 2 }
        }
        Num::Dot => rng.below(5) as usize,
    }
}

fn opt<T>(rng: &mut Rng, nonfinite_or_missing: bool, v: T) -> Option<T> {
    if nonfinite_or_missing && rng.chance(1, 6) { None } else { Some(v) }
}

fn gen_info_value(rng: &mut Rng, d: &Def, nalt: usize) -> Option<IV> {
    if d.ty == Ty::Flag {
        return Some(IV::Flag);
    }
    if rng.chance(1, 12) {
        return None;
    }
    let n = count_for(rng, d.num, nalt, 2);
    let scalar = d.num == Num::N(1);
    Some(match d.ty {
        Ty::Int if scalar => IV::Integer(gen_vint(rng)),
        Ty::Float if scalar => IV::Float(gen_f32(rng, true)),
        Ty::Char if scalar => IV::Character(gen_vchar(rng)),
        Ty::Str if scalar => IV::String(gen_vstr(rng)),
        Ty::Int => IV::Array(IA::Integer((0..n).map(|_| { let v = gen_vint(rng); opt(rng, true, v) }).collect())),
        Ty::Float => IV::Array(IA::Float((0..n).map(|_| { let v = gen_f32(rng, true); opt(rng, true, v) }).collect())),
        Ty::Char => IV::Array(IA::Character((0..n).map(|_| { let v = gen_vchar(rng); opt(rng, true, v) }).collect())),
        _ => IV::Array(IA::String((0..n).map(|_| { let v = gen_vstr(rng); opt(rng, true, v) }).collect())),
    })
}

fn gen_genotype(rng: &mut Rng, nalt: usize) -> SV {
    let ploidy = *rng.pick(&[1usize, 2, 2, 2, 3]);
    let phased = rng.chance(1, 2);
    SV::Genotype(
        (0..ploidy)
            .map(|i| {
                let p = if rng.chance(1, 6) { None } else { Some(rng.below(nalt as u64 + 1) as usize) };
                let ph = if i == 0 { if rng.chance(1, 8) { Phasing::Phased } else { Phasing::Unphased } } else if phased { Phasing::Phased } else { Phasing::Unphased };
                Allele::new(p, ph)
            })
            .collect::<Genotype>(),
    )
}

fn gen_sample_value(rng: &mut Rng, d: &Def, nalt: usize) -> Option<SV> {
    if rng.chance(1, 8) {
        return None;
    }
    if d.id == "GT" {
        return Some(gen_genotype(rng, nalt));
    }
    let n = count_for(rng, d.num, nalt, 2);
    let scalar = d.num == Num::N(1);
    Some(match d.ty {
        Ty::Int if scalar => SV::Integer(gen_vint(rng)),
        Ty::Float if scalar => SV::Float(gen_f32(rng, true)),
        Ty::Char if scalar => SV::Character(gen_vchar(rng)),
        Ty::Str | Ty::Flag if scalar => SV::String(gen_vstr(rng)),
        Ty::Int => SV::Array(SA::Integer((0..n).map(|_| { let v = gen_vint(rng); opt(rng, true, v) }).collect())),
        Ty::Float => SV::Array(SA::Float((0..n).map(|_| { let v = gen_f32(rng, true); opt(rng, true, v) }).collect())),
        Ty::Char => SV::Array(SA::Character((0..n).map(|_| { let v = gen_vchar(rng); opt(rng, true, v) }).collect())),
        _ => SV::Array(SA::String((0..n).map(|_| { let v = gen_vstr(rng); opt(rng, true, v) }).collect())),
    })
}

const ALTS: [&str; 12] = ["A", "C", "GT", "TTTTTTTTTT", "<DEL>", "<DUP:TANDEM>", "*", "G]17:198982]", "]13:123456]T", ".A", "<*>", "<NON_REF>"];

struct VParts {
    chrom: String,
    pos: Option<usize>,
    ids: Vec<String>,
    refb: String,
    alts: Vec<String>,
    qual: Option<f32>,
    filters: Vec<String>,
    info: Vec<(String, Option<IV>)>,
    keys: Vec<String>,
    samples: Vec<Vec<Option<SV>>>,
}

fn vbuild(p: &VParts) -> VcfBuf {
    let mut b = VcfBuf::builder()
        .set_reference_sequence_name(p.chrom.clone())
        .set_ids(p.ids.iter().cloned().collect::<Ids>())
        .set_reference_bases(p.refb.clone())
        .set_alternate_bases(AlternateBases::from(p.alts.clone()))
        .set_filters(p.filters.iter().cloned().collect::<Filters>())
        .set_info(p.info.iter().cloned().collect::<Info>())
        .set_samples(Samples::new(p.keys.iter().cloned().collect::<Keys>(), p.samples.clone()));
    if let Some(pos) = p.pos.and_then(Position::new) {
        b = b.set_variant_start(pos);
    }
    if let Some(q) = p.qual {
        b = b.set_quality_score(q);
    }
    b.build()
}

fn gen_vparts(rng: &mut Rng, h: &VHdr) -> VParts {
    let nalt = *rng.pick(&[0usize, 1, 1, 1, 2, 3, 4]);
    let alts: Vec<String> = (0..nalt).map(|_| rng.pick(&ALTS).to_string()).collect();
    let mut info = Vec::new();
    for d in &h.infos {
        if rng.chance(1, 3) {
            info.push((d.id.clone(), gen_info_value(rng, d, nalt)));
        }
    }
    let mut keys = Vec::new();
    let mut kdefs = Vec::new();
    if h.nsamples > 0 && rng.chance(5, 6) {
        for d in &h.formats {
            if (d.id == "GT" && rng.chance(4, 5)) || rng.chance(1, 3) {
                keys.push(d.id.clone());
                kdefs.push(d.clone());
            }
        }
    }
    let samples: Vec<Vec<Option<SV>>> = if keys.is_empty() {
        Vec::new()
    } else {
        (0..h.nsamples)
            .map(|_| {
                let mut row: Vec<Option<SV>> = kdefs.iter().map(|d| gen_sample_value(rng, d, nalt)).collect();
                // trailing values may be dropped
                if rng.chance(1, 8) {
                    let k = rng.below(row.len() as u64 + 1) as usize;
                    row.truncate(k.max(1));
                }
                row
            })
            .collect()
    };
    VParts {
        chrom: rng.pick(&h.contigs).clone(),
        pos: Some(match rng.below(5) {
            0 => 1,
            1 => (1 << 31) - 1,
            2 => *rng.pick(&[16384usize, 16385, 1 << 29, 65536]),
            _ => rng.range(1, 250_000_000) as usize,
        }),
        ids: (0..*rng.pick(&[0usize, 0, 1, 2, 3])).map(|i| format!("rs{}{i}", rng.below(100000))).collect(),
        refb: String::from_utf8({ let n = *rng.pick(&[1usize, 1, 1, 2, 5, 40]); gen_bytes_from(rng, b"ACGTN", n) }).unwrap(),
        alts,
        qual: if rng.chance(1, 4) { None } else { Some(if rng.chance(1, 2) { gen_f32(rng, false).abs() } else { rng.below(10000) as f32 / 10.0 }) },
        filters: match rng.below(4) {
            0 => Vec::new(),
            1 => vec!["PASS".into()],
            _ => h.filters.iter().filter(|_| rng.chance(1, 2)).cloned().collect(),
        },
        info,
        keys,
        samples,
    }
}

fn gen_vcf_spicy(rng: &mut Rng, h: &VHdr) -> (VcfBuf, &'static str) {
    let mut p = gen_vparts(rng, h);
    let what = match rng.below(20) {
        0 => { p.chrom = "sq 0".into(); "chrom-with-space" }
        1 => { p.chrom = "undeclared".into(); "chrom-not-in-header" }
        2 => { p.chrom = "<sym>".into(); "chrom-symbolic" }
        3 => { p.pos = None; "pos-telomere-0" }
        4 => { p.pos = Some(*rng.pick(&[1usize << 31, (1 << 31) + 1, 1 << 32])); "pos-over-i32" }
        5 => { p.ids = vec!["id 0".into()]; "id-with-space" }
        6 => { p.ids = vec!["a;b".into()]; "id-with-semicolon" }
        7 => { p.refb = rng.pick(&["Z", "", "a", "A C"]).to_string(); "ref-invalid-base" }
        8 => { p.alts = vec![rng.pick(&["", "C,", "A G"]).to_string()]; "alt-invalid" }
        9 => { p.filters = vec![rng.pick(&["q 10", "undeclared", "0", "a;b"]).to_string()]; "filter-invalid-or-undeclared" }
        10 => { p.info.push(("UNDECL".into(), Some(IV::Integer(1)))); "info-key-not-in-header" }
        11 => { p.info.push(("A A".into(), Some(IV::Integer(1)))); "info-key-invalid" }
        12 => { p.info.push((h.infos.first().map(|d| d.id.clone()).unwrap_or("X".into()), Some(IV::Integer(*rng.pick(&[i32::MIN, i32::MIN + 1, i32::MIN + 7]))))); "info-int-reserved-or-type-mismatch" }
        13 => {
            if let Some(d) = h.infos.iter().find(|d| d.ty == Ty::Int) {
                p.info.push((d.id.clone(), Some(IV::String("text".into()))));
            } else {
                p.info.push(("UNDECL2".into(), Some(IV::Flag)));
            }
            "info-type-mismatch"
        }
        14 => {
            p.keys = vec!["UNDECLF".into()];
            p.samples = (0..h.nsamples.max(1)).map(|_| vec![Some(SV::Integer(1))]).collect();
            "format-key-not-in-header"
        }
        15 => {
            p.keys = vec!["DP".into(), "GT".into()];
            p.samples = (0..h.nsamples.max(1)).map(|_| vec![Some(SV::Integer(3)), Some(gen_genotype(rng, 1))]).collect();
            "gt-not-first"
        }
        16 => {
            if p.keys.is_empty() {
                p.keys = vec!["GT".into()];
            }
            p.samples = (0..h.nsamples + 2).map(|_| vec![Some(SV::Integer(*rng.pick(&[i32::MIN, i32::MIN + 3, 7])))]).collect();
            "sample-count-or-reserved-int"
        }
        17 => {
            p.keys = vec!["GT".into()];
            p.samples = (0..h.nsamples.max(1)).map(|_| vec![Some(SV::Integer(0)), Some(SV::Integer(1)), Some(SV::Integer(2))]).collect();
            "sample-row-longer-than-keys"
        }
        18 => {
            p.keys = vec!["GT".into()];
            let many = (0..*rng.pick(&[0usize, 1, 130])).map(|i| Allele::new(Some(i % 3), Phasing::Phased)).collect::<Genotype>();
            p.samples = (0..h.nsamples.max(1)).map(|_| vec![Some(SV::Genotype(many.clone()))]).collect();
            p.alts = vec!["C".into(), "G".into()];
            "genotype-ploidy-0-or-130"
        }
        _ => {
            p.keys = vec!["GT".into()];
            p.samples = (0..h.nsamples.max(1)).map(|_| vec![Some(SV::Genotype([Allele::new(Some(*rng.pick(&[126usize, 127, 128, 40000])), Phasing::Unphased)].into_iter().collect::<Genotype>()))]).collect();
            "genotype-allele-index-large"
        }
    };
    (vbuild(&p), what)
}

enum VarItem {
    Header,
    Buf(VcfBuf),
    Vcf(vcf::Record),
    Bcf(bcf::Record),
}

fn lazies_vcf(h: &vcf::Header, recs: &[VcfBuf]) -> Vec<vcf::Record> {
    let mut out = Vec::new();
    for r in recs {
        // record by record: one rejected buffer does not lose the others
        if let Outcome::Done(Ok(v)) = guarded(AssertUnwindSafe(|| -> io::Result<Vec<vcf::Record>> {
            let mut w = vcf::io::Writer::new(Vec::new());
            w.write_header(h)?;
            w.write_variant_record(h, r)?;
            let buf = w.into_inner();
            let mut rd = vcf::io::Reader::new(&buf[..]);
            rd.read_header()?;
            rd.records().collect()
        })) {
            out.extend(v);
        }
    }
    out
}

fn lazies_bcf(h: &vcf::Header, recs: &[VcfBuf]) -> Vec<bcf::Record> {
    let mut out = Vec::new();
    for r in recs {
        if let Outcome::Done(Ok(v)) = guarded(AssertUnwindSafe(|| -> io::Result<Vec<bcf::Record>> {
            let mut w = bcf::io::Writer::from(Vec::new());
            w.write_header(h)?;
            w.write_variant_record(h, r)?;
            let buf = w.into_inner();
            let mut rd = bcf::io::Reader::from(&buf[..]);
            rd.read_header()?;
            rd.records().collect()
        })) {
            out.extend(v);
        }
    }
    out
}

fn sync_accepts(bcf_fmt: bool, h: &vcf::Header, item: &VarItem) -> bool {
    matches!(
        guarded(AssertUnwindSafe(|| -> io::Result<()> {
            if bcf_fmt {
                let mut w = bcf::io::Writer::from(Vec::new());
                w.write_header(h)?;
                match item {
                    VarItem::Header => Ok(()),
                    VarItem::Buf(r) => w.write_variant_record(h, r),
                    VarItem::Vcf(r) => w.write_variant_record(h, r),
                    VarItem::Bcf(r) => w.write_record(h, r),
                }
            } else {
                let mut w = vcf::io::Writer::new(Vec::new());
                match item {
                    VarItem::Header => Ok(()),
                    VarItem::Buf(r) => w.write_variant_record(h, r),
                    VarItem::Vcf(r) => w.write_record(h, r),
                    VarItem::Bcf(r) => w.write_variant_record(h, r),
                }
            }
        })),
        Outcome::Done(Ok(()))
    )
}

fn build_var(rng: &mut Rng, bcf_fmt: bool) -> (vcf::Header, Vec<VarItem>, Vec<String>) {
    let h = gen_vcf_header(rng);
    let n = rng.range(1, 12) as usize;
    let bufs: Vec<VcfBuf> = (0..n).map(|_| vbuild(&gen_vparts(rng, &h))).collect();
    let mut cand: Vec<(VarItem, &'static str)> = bufs.iter().map(|r| (VarItem::Buf(r.clone()), "buf")).collect();
    if rng.chance(3, 4) {
        let small: Vec<VcfBuf> = bufs.iter().take(6).cloned().collect();
        cand.extend(lazies_vcf(&h.header, &small).into_iter().map(|r| (VarItem::Vcf(r), "lazy-vcf")));
        cand.extend(lazies_bcf(&h.header, &small).into_iter().map(|r| (VarItem::Bcf(r), "lazy-bcf")));
    }
    // the items this format's sync writer accepts (a scratch run, guarded) come first; one of the
    // rejected ones may be used as the spicy item at the end
    let mut items = vec![VarItem::Header];
    let mut labels = vec!["header".to_string()];
    let mut rejected: Vec<(VarItem, &'static str)> = Vec::new();
    for (it, l) in cand {
        if sync_accepts(bcf_fmt, &h.header, &it) {
            items.push(it);
            labels.push(l.into());
        } else {
            rejected.push((it, l));
        }
    }
    if !rejected.is_empty() && rng.chance(1, 3) {
        let k = rng.below(rejected.len() as u64) as usize;
        let (it, l) = rejected.swap_remove(k);
        items.push(it);
        labels.push(format!("spicy:generated-{l}-rejected-by-sync"));
    } else if rng.chance(3, 10) {
        let (r, what) = gen_vcf_spicy(rng, &h);
        items.push(VarItem::Buf(r));
        labels.push(format!("spicy:{what}"));
    } else {
        return (h.header, items, labels);
    }
    if let Some(r) = bufs.first() {
        items.push(VarItem::Buf(r.clone()));
        labels.push("buf".into());
    }
    (h.header, items, labels)
}

type Trips = Vec<std::sync::Arc<std::sync::atomic::AtomicBool>>;

fn run_vcf(seed: u64, mode: u8, sseed: u64) -> Result<(bool, Trips), (String, String)> {
    let mut rng = Rng::new(seed);
    let (h, items, labels) = build_var(&mut rng, false);
    let mut w = vcf::io::Writer::new(Vec::new());
    let (marks, end) = drive_sync(items.len(), |i| {
        match &items[i] {
            VarItem::Header => w.write_header(&h)?,
            VarItem::Buf(r) => w.write_variant_record(&h, r)?,
            VarItem::Vcf(r) => w.write_record(&h, r)?,
            VarItem::Bcf(r) => w.write_variant_record(&h, r)?,
        }
        Ok(w.get_ref().len())
    });
    let s = Out { bytes: w.into_inner(), marks, end };
    let sched = sched_of(mode, sseed, 1);
    let trips = vec![sched.tripped.clone()];
    let (sink, log) = AdvWriter::new(sched);
    let (marks, end) = block_on(async {
        let mut w = vcf::r#async::io::Writer::new(sink);
        let log2 = log.clone();
        let r = drive_async(items.len(), async |i| {
            match &items[i] {
                VarItem::Header => w.write_header(&h).await?,
                VarItem::Buf(r) => w.write_variant_record(&h, r).await?,
                VarItem::Vcf(r) => w.write_record(&h, r).await?,
                VarItem::Bcf(r) => w.write_variant_record(&h, r).await?,
            }
            Ok(log2.lock().unwrap().bytes.len())
        })
        .await;
        let _ = w.shutdown().await;
        r
    });
    let a = Out { bytes: log.lock().unwrap().bytes.clone(), marks, end };
    let nontrivial = aln_records_written(&s.marks);
    if trips[0].load(Ordering::SeqCst) {
        return Ok((nontrivial, trips));
    }
    compare(
        &Cmp { fam: "vcf", sink: "raw", ctx: format!("seed={seed} mode={mode}"), labels: &labels, has_header: true, sync_partial_ok: true },
        &s,
        &a,
    )?;
    Ok((nontrivial, trips))
}

fn run_bcf(seed: u64, mode: u8, sseed: u64) -> Result<(bool, Trips), (String, String)> {
    let mut rng = Rng::new(seed);
    let (h, items, labels) = build_var(&mut rng, true);
    let mut trips = Vec::new();
    let mut nontrivial = false;
    for sink_kind in ["raw", "bgzf"] {
        let s = if sink_kind == "raw" {
            let mut w = bcf::io::Writer::from(Vec::new());
            let (marks, end) = drive_sync(items.len(), |i| {
                match &items[i] {
                    VarItem::Header => w.write_header(&h)?,
                    VarItem::Buf(r) => w.write_variant_record(&h, r)?,
                    VarItem::Vcf(r) => w.write_variant_record(&h, r)?,
                    VarItem::Bcf(r) => w.write_record(&h, r)?,
                }
                Ok(w.get_ref().len())
            });
            Out { bytes: w.into_inner(), marks, end }
        } else {
            let mut w = bcf::io::Writer::new(Vec::new());
            let (marks, end) = drive_sync(items.len(), |i| {
                match &items[i] {
                    VarItem::Header => w.write_header(&h)?,
                    VarItem::Buf(r) => w.write_variant_record(&h, r)?,
                    VarItem::Vcf(r) => w.write_variant_record(&h, r)?,
                    VarItem::Bcf(r) => w.write_record(&h, r)?,
                }
                Ok(0)
            });
            if !matches!(guarded(AssertUnwindSafe(|| w.try_finish())), Outcome::Done(Ok(()))) {
                return Err(("harness-aenc-sync-finish".into(), format!("seed={seed} bcf try_finish failed")));
            }
            Out { bytes: w.get_ref().get_ref().clone(), marks, end }
        };
        nontrivial |= aln_records_written(&s.marks);
        let sched = sched_of(mode, sseed, if sink_kind == "raw" { 1 } else { 2 });
        trips.push(sched.tripped.clone());
        let (sink, log) = AdvWriter::new(sched);
        let (marks, end) = if sink_kind == "raw" {
            block_on(async {
                let mut w = bcf::r#async::io::Writer::from(sink);
                let log2 = log.clone();
                let r = drive_async(items.len(), async |i| {
                    match &items[i] {
                        VarItem::Header => w.write_header(&h).await?,
                        VarItem::Buf(r) => w.write_variant_record(&h, r).await?,
                        VarItem::Vcf(r) => w.write_variant_record(&h, r).await?,
                        VarItem::Bcf(r) => w.write_record(&h, r).await?,
                    }
                    Ok(log2.lock().unwrap().bytes.len())
                })
                .await;
                let _ = w.get_mut().shutdown().await;
                r
            })
        } else {
            let workers = 1 + (sseed % 4) as usize;
            block_on(async {
                let bw = bgzf::r#async::io::writer::Builder::default().set_worker_count(NonZero::new(workers).unwrap()).build_from_writer(sink);
                let mut w = bcf::r#async::io::Writer::from(bw);
                let r = drive_async(items.len(), async |i| {
                    match &items[i] {
                        VarItem::Header => w.write_header(&h).await?,
                        VarItem::Buf(r) => w.write_variant_record(&h, r).await?,
                        VarItem::Vcf(r) => w.write_variant_record(&h, r).await?,
                        VarItem::Bcf(r) => w.write_record(&h, r).await?,
                    }
                    Ok(0)
                })
                .await;
                match w.get_mut().shutdown().await {
                    Ok(()) => r,
                    Err(e) => (r.0, End::Err(usize::MAX, format!("shutdown:{}", errkind(&e)))),
                }
            })
        };
        let a = Out { bytes: log.lock().unwrap().bytes.clone(), marks, end };
        if trips.iter().any(|t| t.load(Ordering::SeqCst)) {
            return Ok((nontrivial, trips));
        }
        compare(
            &Cmp { fam: "bcf", sink: sink_kind, ctx: format!("seed={seed} mode={mode}"), labels: &labels, has_header: true, sync_partial_ok: false },
            &s,
            &a,
        )?;
    }
    Ok((nontrivial, trips))
}

// ---------------------------------------------------------------------------------------------
// FASTA, FASTQ (the async writers are hand-written twins of the sync ones)

fn gen_line_bytes(rng: &mut Rng, n: usize) -> Vec<u8> {
    match rng.below(5) {
        0 => gen_bytes_from(rng, b"ACGTNacgtn", n),
        1 => gen_bytes_from(rng, b"ACGT", n),
        2 => graphic(rng, n, b""),
        3 => (0..n).map(|_| rng.next() as u8).filter(|b| *b != b'\n').collect(),
        _ => (0..n).map(|_| rng.next() as u8).collect(),
    }
}

fn run_fasta(seed: u64, mode: u8, sseed: u64) -> Result<(bool, Trips), (String, String)> {
    use fasta::record::{Definition, Sequence as FaSeq};
    let mut rng = Rng::new(seed);
    let lbc = *rng.pick(&[0usize, 0, 0, 1, 2, 7, 60, 61, 79, 81, 1000, usize::MAX]);
    let n = rng.range(1, 8) as usize;
    let recs: Vec<fasta::Record> = (0..n)
        .map(|_| {
            let nl = len_pick(&mut rng, 12, &[0, 1, 80, 300]);
            let name = graphic(&mut rng, nl, b"");
            let desc = match rng.below(4) {
                0 => None,
                1 => Some(BString::from("")),
                2 => Some(BString::from("a description with  spaces\tand tabs")),
                _ => Some({ let k = rng.below(40) as usize; gen_line_bytes(&mut rng, k) }.into()),
            };
            let sl = len_pick(&mut rng, 200, &[0, 1, 79, 80, 81, 159, 160, 161, 4097, 70000]);
            fasta::Record::new(Definition::new(name, desc), FaSeq::from(gen_line_bytes(&mut rng, sl)))
        })
        .collect();
    let labels: Vec<String> = recs.iter().map(|r| format!("record:len={}:line={lbc}", r.sequence().len())).collect();
    let mut w = if lbc == 0 {
        fasta::io::Writer::new(Vec::new())
    } else {
        fasta::io::writer::Builder::default().set_line_base_count(NonZero::new(lbc).unwrap()).build_from_writer(Vec::new())
    };
    let (marks, end) = drive_sync(recs.len(), |i| {
        w.write_record(&recs[i])?;
        Ok(w.get_ref().len())
    });
    let s = Out { bytes: w.into_inner(), marks, end };
    let sched = sched_of(mode, sseed, 1);
    let trips = vec![sched.tripped.clone()];
    let (sink, log) = AdvWriter::new(sched);
    let (marks, end) = block_on(async {
        let mut w = if lbc == 0 {
            fasta::r#async::io::Writer::new(sink)
        } else {
            fasta::r#async::io::writer::Builder::default().set_line_base_count(NonZero::new(lbc).unwrap()).build_from_writer(sink)
        };
        let log2 = log.clone();
        let r = drive_async(recs.len(), async |i| {
            w.write_record(&recs[i]).await?;
            Ok(log2.lock().unwrap().bytes.len())
        })
        .await;
        let _ = w.get_mut().shutdown().await;
        r
    });
    let a = Out { bytes: log.lock().unwrap().bytes.clone(), marks, end };
    let nontrivial = !s.marks.is_empty();
    if trips[0].load(Ordering::SeqCst) {
        return Ok((nontrivial, trips));
    }
    compare(
        &Cmp { fam: "fasta", sink: "raw", ctx: format!("seed={seed} mode={mode} line_base_count={lbc}"), labels: &labels, has_header: false, sync_partial_ok: true },
        &s,
        &a,
    )?;
    Ok((nontrivial, trips))
}

fn run_fastq(seed: u64, mode: u8, sseed: u64) -> Result<(bool, Trips), (String, String)> {
    use fastq::record::Definition;
    let mut rng = Rng::new(seed);
    let n = rng.range(1, 10) as usize;
    let recs: Vec<fastq::Record> = (0..n)
        .map(|_| {
            let nl = len_pick(&mut rng, 20, &[0, 1, 300]);
            let name = graphic(&mut rng, nl, b"");
            let desc: Vec<u8> = match rng.below(4) {
                0 => Vec::new(),
                1 => b"1:N:0:ATCACG".to_vec(),
                2 => b" leading and trailing ".to_vec(),
                _ => { let k = rng.below(30) as usize; gen_line_bytes(&mut rng, k) }
            };
            let sl = len_pick(&mut rng, 160, &[0, 1, 151, 4096, 70000]);
            let seq = gen_line_bytes(&mut rng, sl);
            // quality: same length, or (the writers do not check) a different one
            let ql = if rng.chance(1, 8) { rng.below(10) as usize } else { seq.len() };
            let qual: Vec<u8> = match rng.below(3) {
                0 => vec![b'I'; ql],
                1 => (0..ql).map(|_| rng.range(0x21, 0x7e) as u8).collect(),
                _ => { let mut q = graphic(&mut rng, ql, b""); if !q.is_empty() { q[0] = *rng.pick(&[b'@', b'+']); } q }
            };
            fastq::Record::new(Definition::new(name, desc), seq, qual)
        })
        .collect();
    let labels: Vec<String> = recs.iter().map(|r| format!("record:len={}:desc={}", r.sequence().len(), r.description().len())).collect();
    let mut w = fastq::io::Writer::new(Vec::new());
    let (marks, end) = drive_sync(recs.len(), |i| {
        w.write_record(&recs[i])?;
        Ok(w.get_ref().len())
    });
    let s = Out { bytes: w.into_inner(), marks, end };
    let sched = sched_of(mode, sseed, 1);
    let trips = vec![sched.tripped.clone()];
    let (sink, log) = AdvWriter::new(sched);
    let (marks, end) = block_on(async {
        let mut w = fastq::r#async::io::Writer::new(sink);
        let log2 = log.clone();
        let r = drive_async(recs.len(), async |i| {
            w.write_record(&recs[i]).await?;
            Ok(log2.lock().unwrap().bytes.len())
        })
        .await;
        let _ = w.get_mut().shutdown().await;
        r
    });
    let a = Out { bytes: log.lock().unwrap().bytes.clone(), marks, end };
    let nontrivial = !s.marks.is_empty();
    if trips[0].load(Ordering::SeqCst) {
        return Ok((nontrivial, trips));
    }
    compare(
        &Cmp { fam: "fastq", sink: "raw", ctx: format!("seed={seed} mode={mode}"), labels: &labels, has_header: false, sync_partial_ok: true },
        &s,
        &a,
    )?;
    Ok((nontrivial, trips))
}

// ---------------------------------------------------------------------------------------------

/// noodles-gff has an async reader only (noodles-gff/src/async/io.rs): there is no async GFF
/// encoder to compare, so `gff` is not in this list.
pub const AENC_FMTS: &[&str] = &["bam", "bcf", "sam", "vcf", "fasta", "fastq"];

pub fn generate(rng: &mut Rng, tier: &str, w: &mut CaseWriter) {
    let per_fmt = if tier == "thorough" { 800 } else { 40 };
    for fmt in AENC_FMTS {
        for i in 0..per_fmt {
            // every schedule mode for every format, in turn
            let mode = (i % 6) as u64;
            w.push("aenc", vec![fmt.to_string(), rng.next().to_string(), mode.to_string(), rng.next().to_string()]);
        }
    }
}

fn run_aenc(c: &Case) -> Obs {
    if c.args.len() < 4 {
        return Obs::fail("-", "harness-bad-case", c.line());
    }
    let fmt = c.args[0].as_str();
    let (seed, mode, sseed) = (c.u(1), c.u(2) as u8, c.u(3));
    let r = match fmt {
        "bam" => run_bam(seed, mode, sseed),
        "bcf" => run_bcf(seed, mode, sseed),
        "sam" => run_sam(seed, mode, sseed),
        "vcf" => run_vcf(seed, mode, sseed),
        "fasta" => run_fasta(seed, mode, sseed),
        "fastq" => run_fastq(seed, mode, sseed),
        _ => return Obs::fail("-", "harness-unknown-kind", format!("aenc {fmt}")),
    };
    match r {
        Ok((nontrivial, trips)) => {
            if trips.iter().any(|t| t.load(Ordering::SeqCst)) {
                return Obs::fail("-", &format!("async-{fmt}-hang"), format!("writer poll limit reached seed={seed} mode={mode}"));
            }
            Obs::ok("-", nontrivial)
        }
        Err((tag, detail)) => Obs::fail("-", &tag, detail),
    }
}

pub fn run(c: &Case) -> Option<Obs> {
    match c.kind.as_str() {
        "aenc" => Some(run_aenc(c)),
        _ => None,
    }
}
