//! Independent gzip/BGZF tooling for the C01 oracle: a from-scratch RFC 1951 inflater (after
//! Mark Adler's `puff`), a table-driven CRC-32 and a BGZF member walker.  Nothing here calls
//! noodles or zlib-rs.

pub const EOF_BLOCK: [u8; 28] = [
    0x1f, 0x8b, 0x08, 0x04, 0x00, 0x00, 0x00, 0x00, 0x00, 0xff, 0x06, 0x00, 0x42, 0x43, 0x02, 0x00,
    0x1b, 0x00, 0x03, 0x00, 0x00, 0x00, 0x00, 0x00, 0x00, 0x00, 0x00, 0x00,
];

pub fn crc32(data: &[u8]) -> u32 {
    let mut table = [0u32; 256];
    for (i, t) in table.iter_mut().enumerate() {
        let mut c = i as u32;
        for _ in 0..8 {
            c = if c & 1 != 0 { 0xEDB8_8320 ^ (c >> 1) } else { c >> 1 };
        }
        *t = c;
    }
    let mut c = 0xFFFF_FFFFu32;
    for &b in data {
        c = table[((c ^ b as u32) & 0xff) as usize] ^ (c >> 8);
    }
    c ^ 0xFFFF_FFFF
}

struct Bits<'a> {
    d: &'a [u8],
    pos: usize,
    buf: u32,
    cnt: u32,
}

impl<'a> Bits<'a> {
    fn bits(&mut self, need: u32) -> Result<u32, String> {
        let mut val = self.buf as u64;
        while self.cnt < need {
            if self.pos >= self.d.len() {
                return Err("deflate: out of input".into());
            }
            val |= (self.d[self.pos] as u64) << self.cnt;
            self.pos += 1;
            self.cnt += 8;
        }
        self.buf = (val >> need) as u32;
        self.cnt -= need;
        Ok((val & ((1u64 << need) - 1)) as u32)
    }
}

struct Huff {
    count: [u16; 16],
    symbol: Vec<u16>,
}

fn construct(lengths: &[u16]) -> (Huff, i32) {
    let mut h = Huff {
        count: [0; 16],
        symbol: vec![0; lengths.len()],
    };
    for &l in lengths {
        h.count[l as usize] += 1;
    }
    if h.count[0] as usize == lengths.len() {
        return (h, 0);
    }
    let mut left: i32 = 1;
    for len in 1..16 {
        left <<= 1;
        left -= h.count[len] as i32;
        if left < 0 {
            return (h, left);
        }
    }
    let mut offs = [0u16; 16];
    for len in 1..15 {
        offs[len + 1] = offs[len] + h.count[len];
    }
    for (sym, &l) in lengths.iter().enumerate() {
        if l != 0 {
            h.symbol[offs[l as usize] as usize] = sym as u16;
            offs[l as usize] += 1;
        }
    }
    (h, left)
}

fn decode(s: &mut Bits, h: &Huff) -> Result<u16, String> {
    let mut code: i32 = 0;
    let mut first: i32 = 0;
    let mut index: i32 = 0;
    for len in 1..16 {
        code |= s.bits(1)? as i32;
        let count = h.count[len] as i32;
        if code - count < first {
            return Ok(h.symbol[(index + (code - first)) as usize]);
        }
        index += count;
        first += count;
        first <<= 1;
        code <<= 1;
    }
    Err("deflate: ran out of codes".into())
}

const LENS: [u16; 29] = [
    3, 4, 5, 6, 7, 8, 9, 10, 11, 13, 15, 17, 19, 23, 27, 31, 35, 43, 51, 59, 67, 83, 99, 115, 131, 163, 195, 227, 258,
];
const LEXT: [u16; 29] = [0, 0, 0, 0, 0, 0, 0, 0, 1, 1, 1, 1, 2, 2, 2, 2, 3, 3, 3, 3, 4, 4, 4, 4, 5, 5, 5, 5, 0];
const DISTS: [u16; 30] = [
    1, 2, 3, 4, 5, 7, 9, 13, 17, 25, 33, 49, 65, 97, 129, 193, 257, 385, 513, 769, 1025, 1537, 2049, 3073, 4097, 6145,
    8193, 12289, 16385, 24577,
];
const DEXT: [u16; 30] = [
    0, 0, 0, 0, 1, 1, 2, 2, 3, 3, 4, 4, 5, 5, 6, 6, 7, 7, 8, 8, 9, 9, 10, 10, 11, 11, 12, 12, 13, 13,
];

fn codes(s: &mut Bits, out: &mut Vec<u8>, limit: usize, lencode: &Huff, distcode: &Huff) -> Result<(), String> {
    loop {
        let sym = decode(s, lencode)?;
        if sym < 256 {
            if out.len() >= limit {
                return Err("deflate: output exceeds limit".into());
            }
            out.push(sym as u8);
        } else if sym == 256 {
            return Ok(());
        } else {
            let sym = (sym - 257) as usize;
            if sym >= 29 {
                return Err("deflate: invalid length symbol".into());
            }
            let len = LENS[sym] as usize + s.bits(LEXT[sym] as u32)? as usize;
            let dsym = decode(s, distcode)? as usize;
            if dsym >= 30 {
                return Err("deflate: invalid distance symbol".into());
            }
            let dist = DISTS[dsym] as usize + s.bits(DEXT[dsym] as u32)? as usize;
            if dist > out.len() {
                return Err("deflate: distance too far back".into());
            }
            if out.len() + len > limit {
                return Err("deflate: output exceeds limit".into());
            }
            for _ in 0..len {
                let b = out[out.len() - dist];
                out.push(b);
            }
        }
    }
}

/// Inflate one raw DEFLATE stream; returns (output, bytes of `src` consumed).
pub fn inflate_raw(src: &[u8], limit: usize) -> Result<(Vec<u8>, usize), String> {
    let mut s = Bits {
        d: src,
        pos: 0,
        buf: 0,
        cnt: 0,
    };
    let mut out = Vec::new();
    loop {
        let last = s.bits(1)?;
        let ty = s.bits(2)?;
        match ty {
            0 => {
                s.buf = 0;
                s.cnt = 0;
                if s.pos + 4 > src.len() {
                    return Err("deflate: stored header truncated".into());
                }
                let len = src[s.pos] as usize | (src[s.pos + 1] as usize) << 8;
                let nlen = src[s.pos + 2] as usize | (src[s.pos + 3] as usize) << 8;
                if len != (!nlen & 0xffff) {
                    return Err("deflate: stored LEN/NLEN mismatch".into());
                }
                s.pos += 4;
                if s.pos + len > src.len() {
                    return Err("deflate: stored data truncated".into());
                }
                if out.len() + len > limit {
                    return Err("deflate: output exceeds limit".into());
                }
                out.extend_from_slice(&src[s.pos..s.pos + len]);
                s.pos += len;
            }
            1 => {
                let mut lengths = [0u16; 288];
                for (i, l) in lengths.iter_mut().enumerate() {
                    *l = if i < 144 {
                        8
                    } else if i < 256 {
                        9
                    } else if i < 280 {
                        7
                    } else {
                        8
                    };
                }
                let (lc, _) = construct(&lengths);
                let (dc, _) = construct(&[5u16; 30]);
                codes(&mut s, &mut out, limit, &lc, &dc)?;
            }
            2 => {
                const ORDER: [usize; 19] = [16, 17, 18, 0, 8, 7, 9, 6, 10, 5, 11, 4, 12, 3, 13, 2, 14, 1, 15];
                let nlen = s.bits(5)? as usize + 257;
                let ndist = s.bits(5)? as usize + 1;
                let ncode = s.bits(4)? as usize + 4;
                if nlen > 286 || ndist > 30 {
                    return Err("deflate: bad counts".into());
                }
                let mut lengths = [0u16; 320];
                for &o in ORDER.iter().take(ncode) {
                    lengths[o] = s.bits(3)? as u16;
                }
                let (cl, err) = construct(&lengths[..19]);
                if err != 0 {
                    return Err("deflate: incomplete code-length code".into());
                }
                let mut index = 0;
                while index < nlen + ndist {
                    let sym = decode(&mut s, &cl)?;
                    if sym < 16 {
                        lengths[index] = sym;
                        index += 1;
                    } else {
                        let (val, rep) = match sym {
                            16 => {
                                if index == 0 {
                                    return Err("deflate: repeat without previous length".into());
                                }
                                (lengths[index - 1], 3 + s.bits(2)? as usize)
                            }
                            17 => (0, 3 + s.bits(3)? as usize),
                            _ => (0, 11 + s.bits(7)? as usize),
                        };
                        if index + rep > nlen + ndist {
                            return Err("deflate: too many lengths".into());
                        }
                        for _ in 0..rep {
                            lengths[index] = val;
                            index += 1;
                        }
                    }
                }
                if lengths[256] == 0 {
                    return Err("deflate: no end-of-block code".into());
                }
                let (lc, err) = construct(&lengths[..nlen]);
                if err != 0 && (err < 0 || nlen != (lc.count[0] + lc.count[1]) as usize) {
                    return Err("deflate: bad literal/length code".into());
                }
                let (dc, err) = construct(&lengths[nlen..nlen + ndist]);
                if err != 0 && (err < 0 || ndist != (dc.count[0] + dc.count[1]) as usize) {
                    return Err("deflate: bad distance code".into());
                }
                codes(&mut s, &mut out, limit, &lc, &dc)?;
            }
            _ => return Err("deflate: reserved block type".into()),
        }
        if last == 1 {
            break;
        }
    }
    Ok((out, s.pos))
}

pub struct Member {
    pub offset: usize,
    pub size: usize,
    pub cdata: Vec<u8>,
    pub data: Vec<u8>,
}

/// Walk a BGZF file member by member, checking every field the format fixes.
/// Err((tag, detail)): tag names the violated clause.
pub fn walk(sink: &[u8]) -> Result<Vec<Member>, (String, String)> {
    let e = |t: &str, d: String| Err((t.to_string(), d));
    let mut off = 0;
    let mut out = Vec::new();
    while off < sink.len() {
        let rest = &sink[off..];
        if rest.len() < 18 {
            return e("wf-trailing-bytes", format!("{} stray bytes at offset {off}", rest.len()));
        }
        const FIXED: [(usize, u8, &str); 16] = [
            (0, 0x1f, "ID1"),
            (1, 0x8b, "ID2"),
            (2, 8, "CM"),
            (3, 4, "FLG"),
            (4, 0, "MTIME"),
            (5, 0, "MTIME"),
            (6, 0, "MTIME"),
            (7, 0, "MTIME"),
            (8, 0, "XFL"),
            (9, 255, "OS"),
            (10, 6, "XLEN"),
            (11, 0, "XLEN"),
            (12, b'B', "SI1"),
            (13, b'C', "SI2"),
            (14, 2, "SLEN"),
            (15, 0, "SLEN"),
        ];
        for (i, v, name) in FIXED {
            if rest[i] != v {
                return e("wf-header-field", format!("{name} byte {i} = {:#x} at member offset {off}", rest[i]));
            }
        }
        let bsize = rest[16] as usize | (rest[17] as usize) << 8;
        let total = bsize + 1;
        if total > 65536 {
            return e("wf-bsize", format!("member size {total} > 65536 at {off}"));
        }
        if total < 18 + 2 + 8 {
            return e("wf-bsize", format!("member size {total} too small at {off}"));
        }
        if total > rest.len() {
            return e("wf-bsize", format!("BSIZE+1 = {total} runs past the end of the file at {off}"));
        }
        let cdata = &rest[18..total - 8];
        let crc = u32::from_le_bytes(rest[total - 8..total - 4].try_into().unwrap());
        let isize = u32::from_le_bytes(rest[total - 4..total].try_into().unwrap()) as usize;
        if isize > 65536 {
            return e("wf-isize", format!("ISIZE {isize} > 65536 at {off}"));
        }
        let (data, used) = match inflate_raw(cdata, 65536) {
            Ok(x) => x,
            Err(m) => return e("wf-inflate", format!("{m} at member offset {off}")),
        };
        if used != cdata.len() {
            return e("wf-bsize", format!("deflate stream ends after {used} of {} CDATA bytes at {off}", cdata.len()));
        }
        if data.len() != isize {
            return e("wf-isize", format!("ISIZE {isize} but inflated {} at {off}", data.len()));
        }
        if crc32(&data) != crc {
            return e("wf-crc", format!("CRC32 {crc:#x} != {:#x} at {off}", crc32(&data)));
        }
        out.push(Member {
            offset: off,
            size: total,
            cdata: cdata.to_vec(),
            data,
        });
        off += total;
    }
    Ok(out)
}
