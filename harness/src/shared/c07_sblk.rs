//! C07 `sblk` kind (L2 for NV.CramRec.SliceBlocks): block_count / block_content_ids of the slice
//! headers of one container against the blocks that really follow them.
//!
//!   sblk idx blocks opts refs samhex     same arguments as the `cont` kind: `blocks` = the
//!         type:id:csize:rsize descriptors of container `idx` of the file written at generation time,
//!         external blocks of a slice sorted by content id (the writer emits them in HashMap order,
//!         which differs from run to run).  The model gets, per slice, the buffer lengths of every
//!         standard data series id 1..28 and every other id present (absent = empty buffer), sorted by id.
//!   obs = '/'-joined per slice  `<block_count>|<content ids: first, then the rest sorted>|<type:id:rsize
//!         of the blocks after the slice header, external ones sorted by id>|<byte length of the
//!         block_count + block_content_ids fields in the slice header>`
//!   verdict (order-sensitive part, on the file as written): the header lists the ids of the blocks
//!         that follow it in exactly their order, the core block (type 5, id 0) first, every other
//!         block external (type 4) with a non-empty payload, ids pairwise different.
use super::*;

pub fn run_sblk(c: &Case) -> Obs {
    let idx = c.u(0) as usize;
    let o = parse_opts(&c.args[2]);
    let refs = parse_refs(&c.args[3]);
    let text = c.b(4);
    let res = nv::guarded(AssertUnwindSafe(|| -> Result<(String, Result<(), Fail>), String> {
        let (h, recs) = parse_sam(&text).map_err(|e| e.to_string())?;
        let file = write_cram(&o, &refs, &h, &recs).map_err(|e| e.to_string())?;
        let w = walk::walk_file(&file)?;
        let ci = w.containers.get(idx).ok_or("no such container")?;
        if describe_blocks(&sorted_container(ci)) != c.args[1] {
            return Err(format!("block descriptors changed: {}", describe_blocks(&sorted_container(ci))));
        }
        let slices = slices_of(&file, ci).map_err(|e| format!("{}: {}", e.0, e.1))?;
        let mut parts = Vec::new();
        let mut verdict: Result<(), Fail> = Ok(());
        for (k, s) in slices.iter().enumerate() {
            let end = slices.get(k + 1).map(|n| n.at).unwrap_or(ci.blocks.len());
            let after = &ci.blocks[s.at + 1..end];
            // byte length of the two fields
            let hb = &ci.blocks[s.at];
            let data = &file[hb.data.0..hb.data.1];
            let mut cur = walk::Cur::new(data, 0);
            for _ in 0..4 {
                cur.itf8()?;
            }
            cur.ltf8()?;
            let p0 = cur.p;
            cur.itf8()?;
            let n = cur.itf8()?;
            for _ in 0..n {
                cur.itf8()?;
            }
            let flen = cur.p - p0;
            // order-sensitive checks on the file as written
            let file_ids: Vec<i32> = after.iter().map(|b| b.cid).collect();
            if verdict.is_ok() {
                if s.hdr.ids != file_ids {
                    verdict = fail("sblk-content-ids-differ-from-blocks", format!("header {:?} blocks {:?}", s.hdr.ids, file_ids));
                } else if s.hdr.n_blocks as usize != after.len() {
                    verdict = fail("sblk-block-count", format!("header {} blocks {}", s.hdr.n_blocks, after.len()));
                } else if after.first().map(|b| (b.ctype, b.cid)) != Some((5, 0)) {
                    verdict = fail("sblk-core-block-not-first", format!("{:?}", after.first().map(|b| (b.ctype, b.cid))));
                } else if after.iter().skip(1).any(|b| b.ctype != 4 || b.rsize == 0) {
                    verdict = fail("sblk-empty-or-non-external-block", format!("{:?}", after.iter().map(|b| (b.ctype, b.cid, b.rsize)).collect::<Vec<_>>()));
                } else {
                    let mut d = file_ids.clone();
                    d.sort();
                    d.dedup();
                    if d.len() != file_ids.len() {
                        verdict = fail("sblk-duplicate-content-id", format!("{file_ids:?}"));
                    }
                }
            }
            // canonical (order-free) observation
            let mut ids = s.hdr.ids.clone();
            if ids.len() > 1 {
                ids[1..].sort();
            }
            let mut bl: Vec<(u8, i32, i32)> = after.iter().map(|b| (b.ctype, b.cid, b.rsize)).collect();
            if bl.len() > 1 {
                bl[1..].sort_by_key(|b| b.1);
            }
            parts.push(format!(
                "{}|{}|{}|{}",
                s.hdr.n_blocks,
                ids.iter().map(|x| x.to_string()).collect::<Vec<_>>().join(","),
                bl.iter().map(|(t, i, r)| format!("{t}:{i}:{r}")).collect::<Vec<_>>().join(","),
                flen
            ));
        }
        Ok((parts.join("/"), verdict))
    }));
    match res {
        Outcome::Done(Ok((s, v))) => Obs::ok(s, true).with_verdict(v),
        Outcome::Done(Err(e)) => Obs::fail("Err", "sblk-regenerate", e),
        Outcome::Panicked(m) => Obs::fail("Panic", "sblk-regenerate", m),
    }
}
