//! C16, wave 6: modelled kinds for the async CRAM container framing (NV.Async.CramFraming) and the
//! async FASTA record stream (NV.Async.FastaRecords).
//!
//!   acram <data> <sizes> <with_pending> <chunk>   a raw stream of CRAM containers (no file definition) through
//!         cram::async::io::Reader::new(AdvReader).read_container until Ok(0) / error, and through the sync
//!         cram::io::Reader on the slice: `<len>/<ctx>/<records>/<counter>/<bases>/<blocks>/<landmarks>;..|<stop>`
//!         (stop: 0 EOF container, 1 UnexpectedEof, 2 InvalidData)
//!   afar  <data> <cap> <sizes> <with_pending>     fasta read_definition / read_sequence alternately until
//!         read_definition returns 0 / an error, async (tokio BufReader of capacity <cap> over AdvReader) and
//!         sync (Reader::records() semantics): `<name>:<description>:<sequence>;..|<end>|<bytes consumed>`; the model
//!         prints C11's read_file (sync=), the async model (async=), the closed form (closed=) and C12's sync
//!         scanner model (srun=): the last three must equal the real sync reader's result
//!
//! Poll script: the i-th Ready poll transfers at most sizes[i] bytes (then whole requests); with
//! <with_pending> = 1 every transfer is preceded by a Pending poll.

use std::sync::atomic::Ordering;

use nv::{Case, CaseWriter, Obs, Outcome, Rng, errkind, guarded, hex};

use crate::c16_adversary::{AdvReader, Sched, block_on_pool};

fn parse_sizes(s: &str) -> Vec<usize> {
    if s == "_" { vec![] } else { s.split(',').map(|x| x.parse().unwrap()).collect() }
}

fn fmt_sizes(v: &[usize]) -> String {
    if v.is_empty() { "_".into() } else { v.iter().map(|x| x.to_string()).collect::<Vec<_>>().join(",") }
}

fn gen_script(rng: &mut Rng) -> (String, String) {
    let n = match rng.below(4) {
        0 => 0,
        1 => rng.below(6),
        _ => rng.below(80),
    } as usize;
    let sizes: Vec<usize> = (0..n).map(|_| *rng.pick(&[1usize, 1, 1, 2, 2, 3, 4, 5, 7, 16, 33, 100])).collect();
    (fmt_sizes(&sizes), rng.below(2).to_string())
}

fn run_guarded<F: FnOnce() -> String>(f: F) -> String {
    match guarded(std::panic::AssertUnwindSafe(f)) {
        Outcome::Done(v) => v,
        Outcome::Panicked(_) => "Panic".into(),
    }
}

// ---------------------------------------------------------------------------------------------
// acram

/// ITF8 with at least `min_class` continuation bytes (non-canonical encodings are legal input)
fn itf8(v: i32, min_class: usize, junk: u8) -> Vec<u8> {
    let u = v as u32;
    let need = if u < 1 << 7 {
        0
    } else if u < 1 << 14 {
        1
    } else if u < 1 << 21 {
        2
    } else if u < 1 << 28 {
        3
    } else {
        4
    };
    match need.max(min_class.min(4)) {
        0 => vec![u as u8],
        1 => vec![0x80 | (u >> 8) as u8, u as u8],
        2 => vec![0xc0 | (u >> 16) as u8, (u >> 8) as u8, u as u8],
        3 => vec![0xe0 | (u >> 24) as u8, (u >> 16) as u8, (u >> 8) as u8, u as u8],
        // the high nibble of the fifth byte is ignored by the readers
        _ => vec![0xf0 | (u >> 28) as u8, (u >> 20) as u8, (u >> 12) as u8, (u >> 4) as u8, (u as u8 & 0x0f) | (junk & 0xf0)],
    }
}

fn ltf8(v: i64, min_class: usize) -> Vec<u8> {
    let u = v as u64;
    let mut need = 8;
    for k in 0..8 {
        if u < 1u64 << (7 * (k + 1)) {
            need = k;
            break;
        }
    }
    let k = need.max(min_class.min(8));
    if k == 8 {
        let mut out = vec![0xff];
        out.extend(u.to_be_bytes());
        return out;
    }
    // k continuation bytes; prefix = k one-bits then a zero
    let prefix: u8 = if k == 0 { 0 } else { !(0xffu8 >> k) };
    let mut out = Vec::new();
    let hi = if k == 7 { 0 } else { (u >> (8 * k)) as u8 };
    out.push(prefix | hi);
    for i in (0..k).rev() {
        out.push((u >> (8 * i)) as u8);
    }
    out
}

fn crc32(b: &[u8]) -> u32 {
    let mut c = flate2::Crc::new();
    c.update(b);
    c.sum()
}

pub const CRAM_EOF: [u8; 38] = [
    0x0f, 0x00, 0x00, 0x00, 0xff, 0xff, 0xff, 0xff, 0x0f, 0xe0, 0x45, 0x4f, 0x46, 0x00, 0x00, 0x00, 0x00, 0x01, 0x00, 0x05, 0xbd,
    0xd9, 0x4f, 0x00, 0x01, 0x00, 0x06, 0x06, 0x01, 0x00, 0x01, 0x00, 0x01, 0x00, 0xee, 0x63, 0x01, 0x4b,
];

fn pick_i32(rng: &mut Rng) -> i32 {
    match rng.below(8) {
        0 => rng.below(128) as i32,
        1 => rng.range(128, 1 << 14) as i32,
        2 => rng.range(1 << 14, 1 << 21) as i32,
        3 => rng.range(1 << 21, 1 << 28) as i32,
        4 => rng.range(1 << 28, i32::MAX as u64) as i32,
        5 => *rng.pick(&[0, 1, 127, 128, 16383, 16384, 2097151, 2097152, 268435455, 268435456, i32::MAX]),
        _ => rng.below(1000) as i32,
    }
}

fn pick_i64(rng: &mut Rng) -> i64 {
    let k = rng.below(10);
    if k == 9 {
        return rng.below(500) as i64;
    }
    let lo = if k == 0 { 0 } else { 1u64 << (7 * k) };
    let hi = if k == 8 { i64::MAX as u64 } else { (1u64 << (7 * (k + 1))) - 1 };
    rng.range(lo, hi) as i64
}

/// one container: header (with the given anomalies) + body
fn gen_container(rng: &mut Rng, anomaly: u64) -> Vec<u8> {
    let body_len = match rng.below(4) {
        0 => 0usize,
        1 => rng.below(8) as usize,
        _ => rng.below(200) as usize,
    };
    let mc = |rng: &mut Rng| if rng.chance(1, 4) { rng.below(5) as usize } else { 0 };
    let mut h = Vec::new();
    let len_field: i32 = match anomaly {
        1 => -(rng.range(1, 1000) as i32),
        2 => body_len as i32 + rng.range(1, 50) as i32, // promises more than there is (only matters if last)
        _ => body_len as i32,
    };
    h.extend(len_field.to_le_bytes());
    let (rid, start, span) = match rng.below(6) {
        0 => (-1, pick_i32(rng), pick_i32(rng)),
        1 => (-2, pick_i32(rng), pick_i32(rng)),
        _ => (rng.below(40) as i32, rng.range(1, 1 << 29) as i32, rng.range(1, 1 << 20) as i32),
    };
    let (rid, start, span) = match anomaly {
        3 => (-(rng.range(3, 100) as i32), start, span),
        4 => (rid.max(0), 0, span),
        5 => (rid.max(0), start.max(1), -(rng.range(0, 5) as i32)),
        _ => (rid, start, span),
    };
    h.extend(itf8(rid, mc(rng), rng.below(256) as u8));
    h.extend(itf8(start, mc(rng), rng.below(256) as u8));
    h.extend(itf8(span, mc(rng), rng.below(256) as u8));
    let nrec = if anomaly == 6 { -(rng.range(1, 9) as i32) } else { pick_i32(rng) };
    h.extend(itf8(nrec, mc(rng), 0));
    let counter = if anomaly == 7 { -(rng.range(1, 1 << 40) as i64) } else { pick_i64(rng) };
    h.extend(ltf8(counter, if rng.chance(1, 4) { rng.below(9) as usize } else { 0 }));
    h.extend(ltf8(pick_i64(rng), if rng.chance(1, 4) { rng.below(9) as usize } else { 0 }));
    h.extend(itf8(rng.below(6) as i32, mc(rng), 0));
    let nl = rng.below(4) as i32;
    h.extend(itf8(nl, mc(rng), 0));
    for i in 0..nl {
        let lm = if anomaly == 8 && i == nl - 1 { -1 } else { pick_i32(rng) };
        h.extend(itf8(lm, mc(rng), 0));
    }
    let mut c = crc32(&h);
    if anomaly == 9 {
        c ^= 1 << rng.below(32);
    }
    h.extend(c.to_le_bytes());
    h.extend(rng.bytes(body_len));
    h
}

pub fn gen_acram(rng: &mut Rng, w: &mut CaseWriter) {
    let mut data = Vec::new();
    let n = rng.below(4);
    for _ in 0..n {
        data.extend(gen_container(rng, 0));
    }
    match rng.below(10) {
        0 | 1 | 2 => data.extend(CRAM_EOF),
        3 => {}
        4 => {
            // cut anywhere (also inside the EOF container)
            data.extend(CRAM_EOF);
            let k = rng.below(data.len() as u64 + 1) as usize;
            data.truncate(k);
        }
        5 => {
            let a = rng.range(1, 9);
            data.extend(gen_container(rng, a));
            data.extend(CRAM_EOF);
        }
        6 => {
            // a container whose body is shorter than promised, at the end of the stream
            data.extend(gen_container(rng, 2));
        }
        7 => {
            // the EOF container with a damaged byte
            let mut e = CRAM_EOF.to_vec();
            let k = rng.below(e.len() as u64) as usize;
            e[k] ^= 1 << rng.below(8);
            data.extend(e);
            data.extend(CRAM_EOF);
        }
        8 => {
            // trailing data after the EOF container (never read)
            data.extend(CRAM_EOF);
            data.extend(rng.bytes(5));
        }
        _ => {
            let mut c = gen_container(rng, 0);
            let k = rng.below(c.len() as u64 + 1) as usize;
            c.truncate(k);
            data.extend(c);
        }
    }
    let (sizes, wp) = gen_script(rng);
    w.push("acram", vec![hex(&data), sizes, wp, rng.pick(&[1usize, 7, 32, 4096]).to_string()]);
}

/// `Some(Context { reference_sequence_id: 2, alignment_start: Position(3), alignment_end: Position(7) })` -> s2:3:7
fn ctx_canon(dbg: &str) -> String {
    if dbg == "None" {
        return "n".into();
    }
    if dbg == "Many" {
        return "m".into();
    }
    let nums: Vec<String> = dbg
        .split(|c: char| !c.is_ascii_digit())
        .filter(|t| !t.is_empty())
        .map(|t| t.to_string())
        .collect();
    format!("s{}", nums.join(":"))
}

fn stop_code(e: &std::io::Error) -> String {
    match e.kind() {
        std::io::ErrorKind::UnexpectedEof => "1".into(),
        std::io::ErrorKind::InvalidData => "2".into(),
        k => format!("E:{k:?}"),
    }
}

fn container_view(len: usize, c: &noodles_cram::io::reader::Container) -> String {
    let h = c.header();
    let lms: Vec<String> = h.landmarks().iter().map(|x| x.to_string()).collect();
    format!(
        "{len}/{}/{}/{}/{}/{}/{}",
        ctx_canon(&format!("{:?}", h.reference_sequence_context())),
        h.record_count(),
        h.record_counter(),
        h.base_count(),
        h.block_count(),
        if lms.is_empty() { "_".to_string() } else { lms.join(".") }
    )
}

pub fn run_acram(c: &Case) -> Obs {
    let data = c.b(0);
    let sizes = parse_sizes(&c.args[1]);
    let with_pending = c.u(2) == 1;
    let s = run_guarded(|| {
        let mut r = noodles_cram::io::Reader::new(&data[..]);
        let mut cont = noodles_cram::io::reader::Container::default();
        let mut out = Vec::new();
        loop {
            match r.read_container(&mut cont) {
                Ok(0) => return format!("{}|0", out.join(";")),
                Ok(n) => out.push(container_view(n, &cont)),
                Err(e) => return format!("{}|{}", out.join(";"), stop_code(&e)),
            }
        }
    });
    let sched = Sched::explicit(sizes, with_pending);
    let tripped = sched.tripped.clone();
    let src = AdvReader::new(data.clone(), sched);
    let a = run_guarded(move || {
        block_on_pool(1, async move {
            let mut r = noodles_cram::r#async::io::Reader::new(src);
            let mut cont = noodles_cram::io::reader::Container::default();
            let mut out = Vec::new();
            loop {
                match r.read_container(&mut cont).await {
                    Ok(0) => return format!("{}|0", out.join(";")),
                    Ok(n) => out.push(container_view(n, &cont)),
                    Err(e) => return format!("{}|{}", out.join(";"), stop_code(&e)),
                }
            }
        })
    });
    if tripped.load(Ordering::SeqCst) {
        return Obs::fail("-", "async-cram-hang", "poll limit reached");
    }
    let obs = format!("sync={s} async={a}");
    if s != a {
        return Obs::fail(obs, "async-cram-container-framing-differs", format!("sync={s} async={a} data={}", hex(&data)));
    }
    Obs::ok(obs, data.len() >= 20)
}


// ---------------------------------------------------------------------------------------------
// afar: the fasta record stream

fn gen_fasta_dirty(rng: &mut Rng) -> Vec<u8> {
    let mut f = Vec::new();
    let crlf = rng.chance(1, 3);
    let eol = |rng: &mut Rng, f: &mut Vec<u8>| match rng.below(14) {
        0 => f.extend(b"\r\r\n"),
        1 => f.push(b'\r'),
        2 => {}
        3 => f.extend(b"\n\n"),
        4 => f.extend(b"\n\r"),
        5 => f.extend(b"\n\r\r"),
        _ => {
            if crlf {
                f.extend(b"\r\n")
            } else {
                f.push(b'\n')
            }
        }
    };
    if rng.chance(1, 10) {
        // no definition at the start
        f.extend(b"AC");
        eol(rng, &mut f);
    }
    let nrec = rng.below(4);
    for _ in 0..nrec {
        if !rng.chance(1, 12) {
            f.push(b'>');
        }
        let n = rng.below(7);
        for _ in 0..n {
            f.push(*rng.pick(b"sq01ab \t\r>\x0c\x0b"));
        }
        eol(rng, &mut f);
        let nl = rng.below(4);
        for _ in 0..nl {
            if rng.chance(1, 6) {
                f.push(*rng.pick(b"\r>"));
            }
            let n = rng.below(8);
            for _ in 0..n {
                f.push(*rng.pick(b"ACGTN\r>"));
            }
            eol(rng, &mut f);
        }
    }
    if rng.chance(1, 4) {
        let k = rng.below(f.len() as u64 + 1) as usize;
        f.truncate(k);
    }
    f
}

pub fn gen_afar(rng: &mut Rng, w: &mut CaseWriter) {
    let data = gen_fasta_dirty(rng);
    let (sizes, wp) = gen_script(rng);
    let cap = *rng.pick(&[1usize, 1, 2, 2, 3, 4, 5, 7, 8, 16, 64, 8192]);
    w.push("afar", vec![hex(&data), cap.to_string(), sizes, wp]);
}

fn far_rec(d: &noodles_fasta::record::Definition, seq: &[u8]) -> String {
    let desc = match d.description() {
        Some(x) => hex(x.as_ref()),
        None => "-".to_string(),
    };
    format!("{}:{}:{}", hex(d.name().as_ref()), desc, hex(seq))
}

pub fn run_afar(c: &Case) -> Obs {
    let data = c.b(0);
    let cap = c.u(1) as usize;
    let sched = Sched::explicit(parse_sizes(&c.args[2]), c.u(3) == 1);
    let tripped = sched.tripped.clone();
    let s = run_guarded(|| {
        let mut r = noodles_fasta::io::Reader::new(&data[..]);
        let mut def = noodles_fasta::record::Definition::default();
        let mut out = Vec::new();
        loop {
            match r.read_definition(&mut def) {
                Ok(0) => return format!("{}|ok", out.join(";")),
                Ok(_) => {}
                Err(e) => return format!("{}|Err:{}", out.join(";"), errkind(&e)),
            }
            let mut seq = Vec::new();
            match r.read_sequence(&mut seq) {
                Ok(_) => out.push(far_rec(&def, &seq)),
                Err(e) => return format!("{}|Err:{}", out.join(";"), errkind(&e)),
            }
        }
    });
    let src = AdvReader::new(data.clone(), sched);
    let a = run_guarded(move || {
        block_on_pool(1, async move {
            let mut r = noodles_fasta::r#async::io::Reader::new(tokio::io::BufReader::with_capacity(cap, src));
            let mut def = noodles_fasta::record::Definition::default();
            let mut out = Vec::new();
            let end = loop {
                match r.read_definition(&mut def).await {
                    Ok(0) => break "ok".to_string(),
                    Ok(_) => {}
                    Err(e) => break format!("Err:{}", errkind(&e)),
                }
                let mut seq = Vec::new();
                match r.read_sequence(&mut seq).await {
                    Ok(_) => out.push(far_rec(&def, &seq)),
                    Err(e) => break format!("Err:{}", errkind(&e)),
                }
            };
            let br = r.get_ref();
            let pos = br.get_ref().pos as usize - br.buffer().len();
            format!("{}|{end}|{pos}", out.join(";"))
        })
    });
    if tripped.load(Ordering::SeqCst) {
        return Obs::fail("-", "async-fasta-hang", "poll limit reached");
    }
    // the closed form of the model is compared with the sync reader's result
    let obs = format!("sync={s} async={a} closed={s} srun={s}");
    let a_no_pos = a.rsplit_once('|').map(|(x, _)| x.to_string()).unwrap_or(a.clone());
    if s != a_no_pos {
        return Obs::fail(obs, "async-fasta-record-stream-differs", format!("cap={cap} sync={s} async={a} data={}", hex(&data)));
    }
    Obs::ok(obs, data.len() >= 4)
}

// ---------------------------------------------------------------------------------------------
// ahc: the HEADER container's header reader (header_reader().container_reader() + discard_to_end())
//   ahc <data> <sizes> <with_pending> <chunk>     obs: sync=<r> async=<r>,  r = ok/<bytes discarded>/<bytes left> | e<stop code>
// model: NV.Async.CramHeaderContainer (sync_hc_case / async_hc_case).  Lengths and landmark counts stay
// small (the extracted model counts in unary nat).

pub fn gen_ahc(rng: &mut Rng, w: &mut CaseWriter) {
    let nt = rng.below(60) as usize;
    let tail = rng.bytes(nt);
    let len: i32 = match rng.below(12) {
        0 => -1,
        1 => i32::MIN,
        2 => tail.len() as i32 + rng.range(1, 40) as i32, // longer than what follows
        3 => rng.range(100, 3000) as i32,
        4 => 0,
        _ => rng.below(tail.len() as u64 + 1) as i32,
    };
    let mut h = len.to_le_bytes().to_vec();
    let junk = rng.below(256) as u8;
    let mc = |rng: &mut Rng| if rng.chance(1, 4) { rng.below(6) as usize } else { 0 };
    let any = |rng: &mut Rng| -> i32 {
        match rng.below(6) {
            0 => -1,
            1 => -2,
            2 => i32::MIN,
            3 => pick_i32(rng),
            _ => rng.below(300) as i32,
        }
    };
    for _ in 0..4 {
        let v = any(rng);
        let k = mc(rng);
        h.extend(itf8(v, k, junk));
    }
    for _ in 0..2 {
        let v: i64 = match rng.below(5) {
            0 => -1,
            1 => i64::MIN,
            2 => rng.next() as i64,
            _ => rng.below(100000) as i64,
        };
        let k = if rng.chance(1, 4) { rng.below(10) as usize } else { 0 };
        h.extend(ltf8(v, k));
    }
    let v = any(rng);
    let k = mc(rng);
    h.extend(itf8(v, k, junk)); // block count
    let nl: i32 = match rng.below(12) {
        0 => -1,
        1 => i32::MIN,
        2 => rng.range(4, 50) as i32, // more than present
        _ => rng.below(4) as i32,
    };
    let k = mc(rng);
    h.extend(itf8(nl, k, junk));
    for _ in 0..nl.clamp(0, 3) {
        let v = any(rng);
        let k = mc(rng);
        h.extend(itf8(v, k, junk));
    }
    let c = crc32(&h);
    h.extend((if rng.chance(1, 8) { c ^ (1 << rng.below(32)) } else { c }).to_le_bytes());
    h.extend(tail);
    if rng.chance(1, 5) {
        let k = rng.below(h.len() as u64 + 1) as usize;
        h.truncate(k);
    }
    let (sizes, wp) = gen_script(rng);
    w.push("ahc", vec![hex(&h), sizes, wp, rng.pick(&[1usize, 7, 32, 4096]).to_string()]);
}

pub fn run_ahc(c: &Case) -> Obs {
    use tokio::io::AsyncReadExt;
    let data = c.b(0);
    let sizes = parse_sizes(&c.args[1]);
    let with_pending = c.u(2) == 1;
    let total = data.len();
    let s = run_guarded(|| {
        let mut r = noodles_cram::io::Reader::new(&data[..]);
        let n = {
            let mut hr = r.header_reader();
            let mut cr = match hr.container_reader() {
                Ok(cr) => cr,
                Err(e) => return format!("e{}", stop_code(&e)),
            };
            match cr.discard_to_end() {
                Ok(n) => n,
                Err(e) => return format!("e{}", stop_code(&e)),
            }
        };
        format!("ok/{n}/{}", r.get_ref().len())
    });
    let sched = Sched::explicit(sizes, with_pending);
    let tripped = sched.tripped.clone();
    let src = AdvReader::new(data.clone(), sched);
    let a = run_guarded(move || {
        block_on_pool(1, async move {
            let mut r = noodles_cram::r#async::io::Reader::new(src);
            let n = {
                let mut hr = r.header_reader();
                let mut cr = match hr.container_reader().await {
                    Ok(cr) => cr,
                    Err(e) => return format!("e{}", stop_code(&e)),
                };
                match cr.discard_to_end().await {
                    Ok(n) => n,
                    Err(e) => return format!("e{}", stop_code(&e)),
                }
            };
            let mut rest = Vec::new();
            match r.get_mut().read_to_end(&mut rest).await {
                Ok(_) => format!("ok/{n}/{}", rest.len()),
                Err(e) => format!("rest-e{}", stop_code(&e)),
            }
        })
    });
    if tripped.load(Ordering::SeqCst) {
        return Obs::fail("-", "async-cram-hang", "poll limit reached");
    }
    let obs = format!("sync={s} async={a}");
    if s != a {
        return Obs::fail(obs, "async-cram-header-container-open-differs", format!("sync={s} async={a} data={}", hex(&data)));
    }
    Obs::ok(obs, s.starts_with("ok/") && total >= 20)
}

// ---------------------------------------------------------------------------------------------

pub fn generate(rng: &mut Rng, tier: &str, w: &mut CaseWriter) {
    let thorough = tier == "thorough";
    let n = if thorough { 3000 } else { 200 };
    for _ in 0..n {
        gen_acram(rng, w);
    }
    let n = if thorough { 3000 } else { 250 };
    for _ in 0..n {
        gen_ahc(rng, w);
    }
    let n = if thorough { 3000 } else { 250 };
    for _ in 0..n {
        gen_afar(rng, w);
    }
}

pub fn run(c: &Case) -> Option<Obs> {
    Some(match c.kind.as_str() {
        "acram" => run_acram(c),
        "ahc" => run_ahc(c),
        "afar" => run_afar(c),
        _ => return None,
    })
}

#[allow(dead_code)]
fn _unused(e: &std::io::Error) -> String {
    errkind(e)
}
