//! C20 alignment side: generic writer -> generic (autodetecting) reader, and conversions.

use std::io::{self, Read};

use noodles_bam as bam;
use noodles_fasta as fasta;
use noodles_sam::{self as sam, alignment::io::Write as _};
use noodles_util::alignment::{
    self,
    io::{CompressionMethod, Format},
};
use nv::{Case, CaseWriter, Obs, Outcome, Rng, adversary::FaultySink, guarded};

use crate::common::{V, bad, diff_column, first_diff, first_window_len, is_gz, make_reader, show};

/// explicitly configured (format, compression) pairs
pub const FMTS: [&str; 5] = ["sam", "samgz", "bam", "bamraw", "cram"];
/// builder defaults: format set but compression not set (`samdef`, `bamdef`, `cramdef`), nothing set (`def`)
pub const DEFAULTS: [&str; 4] = ["samdef", "bamdef", "cramdef", "def"];
pub const ALL: [&str; 9] = ["sam", "samgz", "bam", "bamraw", "cram", "samdef", "bamdef", "cramdef", "def"];

/// what the stream must be: for the default codes, the defaults the builder documents ("If the
/// format is not set, a default format is used [SAM]. If the compression method is not set, a
/// default one is determined by the format": SAM and CRAM => none, BAM => BGZF)
pub fn fmt_of(code: &str) -> (Format, Option<CompressionMethod>) {
    match code {
        "sam" | "samdef" | "def" => (Format::Sam, None),
        "samgz" => (Format::Sam, Some(CompressionMethod::Bgzf)),
        "bam" | "bamdef" => (Format::Bam, Some(CompressionMethod::Bgzf)),
        "bamraw" => (Format::Bam, None),
        _ => (Format::Cram, None),
    }
}
/// what is set on the writer builder
pub fn builder_cfg(code: &str) -> (Option<Format>, Option<Option<CompressionMethod>>) {
    match code {
        "def" => (None, None),
        "samdef" => (Some(Format::Sam), None),
        "bamdef" => (Some(Format::Bam), None),
        "cramdef" => (Some(Format::Cram), None),
        _ => {
            let (f, k) = fmt_of(code);
            (Some(f), Some(k))
        }
    }
}
fn writer_builder(code: &str, repo: fasta::Repository) -> alignment::io::writer::Builder {
    let (f, k) = builder_cfg(code);
    let mut b = alignment::io::writer::Builder::default().set_reference_sequence_repository(repo);
    if let Some(f) = f {
        b = b.set_format(f);
    }
    if let Some(k) = k {
        b = b.set_compression_method(k);
    }
    b
}
fn family(code: &str) -> &'static str {
    match fmt_of(code).0 {
        Format::Sam => "sam",
        Format::Bam => "bam",
        Format::Cram => "cram",
    }
}
fn is_cram(code: &str) -> bool {
    family(code) == "cram"
}
/// the code of the (format, compression) the stream must have
fn canon_code(code: &str) -> &'static str {
    match fmt_of(code) {
        (Format::Sam, None) => "sam",
        (Format::Sam, Some(_)) => "samgz",
        (Format::Bam, Some(_)) => "bam",
        (Format::Bam, None) => "bamraw",
        _ => "cram",
    }
}

/// the reader a user would pick for this format and compression, from the format's own crate
/// (a default-built BAM must be a BGZF BAM that `bam::io::Reader::new` reads, etc.)
fn read_specific(code: &str, bytes: &[u8], repo: fasta::Repository) -> io::Result<Vec<Vec<u8>>> {
    let mut lines = Vec::new();
    match fmt_of(code) {
        (Format::Sam, None) => {
            let mut r = sam::io::Reader::new(bytes);
            let h = r.read_header()?;
            for rec in r.record_bufs(&h) {
                lines.push(canon_line(&h, &rec?)?);
            }
        }
        (Format::Sam, Some(_)) => {
            let mut r = sam::io::Reader::new(noodles_bgzf::io::Reader::new(bytes));
            let h = r.read_header()?;
            for rec in r.record_bufs(&h) {
                lines.push(canon_line(&h, &rec?)?);
            }
        }
        (Format::Bam, Some(_)) => {
            let mut r = bam::io::Reader::new(bytes);
            let h = r.read_header()?;
            for rec in r.record_bufs(&h) {
                lines.push(canon_line(&h, &rec?)?);
            }
        }
        (Format::Bam, None) => {
            let mut r = bam::io::Reader::from(bytes);
            let h = r.read_header()?;
            for rec in r.record_bufs(&h) {
                lines.push(canon_line(&h, &rec?)?);
            }
        }
        _ => {
            let mut r = noodles_cram::io::reader::Builder::default().set_reference_sequence_repository(repo).build_from_reader(bytes);
            let h = r.read_header()?;
            for rec in r.records(&h) {
                let rec = rec?;
                lines.push(canon_line(&h, &rec)?);
            }
        }
    }
    Ok(lines)
}

// ---------------------------------------------------------------------------------------------
// Specification of a data set: SAM text built by the harness (independent of noodles).

pub struct Spec {
    pub header_text: String,
    pub lines: Vec<String>,
    pub refs: Vec<(String, Vec<u8>)>,
}

const BASES: &[u8] = b"ACGT";

fn gen_name(rng: &mut Rng, i: usize) -> String {
    match rng.below(6) {
        0 => format!("r{i}"),
        1 => format!("read:{i}/1"),
        2 => format!("q.{i}#x"),
        3 => format!("B{i}"),
        4 => format!("C{i}"),
        _ => format!("name_{i}_{}", rng.below(1000)),
    }
}

fn gen_tags(rng: &mut Rng, has_rg: bool) -> String {
    let mut t = String::new();
    if has_rg && rng.chance(1, 2) {
        t.push_str("\tRG:Z:rg0");
    }
    if rng.chance(1, 2) {
        let v: i64 = *rng.pick(&[0i64, 1, 7, 127, 128, 255, 256, -1, -128, -129, 32767, 65535, 65536, -32769, 2147483647, -2147483648]);
        t.push_str(&format!("\tNH:i:{v}"));
    }
    if rng.chance(1, 3) {
        t.push_str(&format!("\tXS:Z:{}", rng.pick(&["x", "hello world", "a:b", "CRAM", "BAM"])));
    }
    if rng.chance(1, 3) {
        if rng.chance(1, 3) {
            t.push_str(&format!("\tXF:f:{}", rng.pick(&["0", "1.5", "-2.25", "1024", "0.125"])));
        } else {
            t.push_str(&format!("\tXF:f:{}", gen_float(rng)));
        }
    }
    if rng.chance(1, 4) {
        t.push_str(&format!("\tXA:A:{}", rng.pick(&["a", "Z", "!", "~"])));
    }
    if rng.chance(1, 4) {
        if rng.chance(1, 4) {
            let n = rng.range(1, 4);
            let vals: Vec<String> = (0..n).map(|_| gen_float(rng)).collect();
            t.push_str(&format!("\tXB:B:f,{}", vals.join(",")));
        } else {
            t.push_str(*rng.pick(&["\tXB:B:c,-1,0,1", "\tXB:B:S,0,65535", "\tXB:B:i,-70000,70000", "\tXB:B:f,1.5,-0.5", "\tXB:B:C,1"]));
        }
    }
    if rng.chance(1, 6) {
        t.push_str("\tXH:H:1AE301");
    }
    t
}

pub fn gen_spec(seed: u64, nrec: usize, hdr: u64, nm: u64) -> Spec {
    let mut rng = Rng::new(seed ^ 0xC20A);
    let rng = &mut rng;
    let mut refs: Vec<(String, Vec<u8>)> = Vec::new();
    let mut header_text = String::new();
    let mut has_rg = false;
    if hdr >= 1 {
        if hdr == 1 || hdr == 3 {
            header_text.push_str(*rng.pick(&["@HD\tVN:1.6\n", "@HD\tVN:1.6\tSO:unsorted\n", "@HD\tVN:1.5\tSO:unknown\n"]));
        }
        let nref = rng.range(1, 3) as usize;
        for i in 0..nref {
            let len = rng.range(30, 260) as usize;
            let seq: Vec<u8> = (0..len).map(|_| *rng.pick(BASES)).collect();
            let name = if i == 0 { "sq0".to_string() } else { format!("chr{i}") };
            header_text.push_str(&format!("@SQ\tSN:{name}\tLN:{len}\n"));
            refs.push((name, seq));
        }
        if hdr == 3 {
            header_text.push_str("@RG\tID:rg0\tSM:s\n");
            has_rg = true;
            header_text.push_str("@PG\tID:pg0\tPN:nv\n");
            if rng.chance(1, 2) {
                header_text.push_str("@CO\tcomment CRAM BAM\n");
            }
        }
    }
    let mut lines = Vec::new();
    for i in 0..nrec {
        let mut name = gen_name(rng, i);
        if i == 0 {
            match nm {
                1 => name = format!("CRAM{}", rng.below(100)),
                2 => name = "BAM".to_string(),
                3 => name = "*".to_string(),
                4 => name = "BCF".to_string(),
                5 => name = "CRA".to_string(),
                6 => name = "CRAM".to_string(),
                _ => {}
            }
        }
        let mapped = !refs.is_empty() && rng.chance(2, 3);
        let tags = gen_tags(rng, has_rg);
        if mapped {
            let rid = rng.below(refs.len() as u64) as usize;
            let (rname, rseq) = &refs[rid];
            let rlen = rseq.len();
            // cigar shapes: (op, len)
            let m1 = rng.range(1, 12) as usize;
            let m2 = rng.range(1, 12) as usize;
            let shape = rng.below(7);
            let ops: Vec<(char, usize)> = match shape {
                0 => vec![('M', m1 + m2)],
                1 => vec![('S', rng.range(1, 4) as usize), ('M', m1 + m2)],
                2 => vec![('M', m1), ('I', rng.range(1, 3) as usize), ('M', m2)],
                3 => vec![('M', m1), ('D', rng.range(1, 3) as usize), ('M', m2)],
                4 => vec![('M', m1), ('N', rng.range(1, 5) as usize), ('M', m2)],
                5 => vec![('H', 2), ('M', m1 + m2), ('S', rng.range(1, 3) as usize)],
                _ => vec![('M', m1), ('S', m2)],
            };
            let ref_span: usize = ops.iter().filter(|(o, _)| matches!(o, 'M' | 'D' | 'N')).map(|(_, l)| *l).sum();
            let pos = rng.range(1, (rlen - ref_span) as u64 + 1) as usize;
            let mut seq = Vec::new();
            let mut rp = pos - 1;
            for (o, l) in &ops {
                match o {
                    'M' => {
                        for _ in 0..*l {
                            let b = if rng.chance(1, 10) { *rng.pick(b"ACGTN") } else { rseq[rp] };
                            seq.push(b);
                            rp += 1;
                        }
                    }
                    'I' | 'S' => {
                        for _ in 0..*l {
                            seq.push(*rng.pick(BASES));
                        }
                    }
                    'D' | 'N' => rp += *l,
                    _ => {}
                }
            }
            let qual: Vec<u8> = (0..seq.len()).map(|_| 33 + rng.below(61) as u8).collect();
            let cigar: String = ops.iter().map(|(o, l)| format!("{l}{o}")).collect();
            let mut flags = *rng.pick(&[0u16, 16, 1024, 256]);
            let (rnext, pnext, tlen) = if rng.chance(1, 3) {
                flags |= *rng.pick(&[1u16 | 64, 1 | 128 | 32, 1 | 2 | 64]);
                ("=".to_string(), rng.range(1, rlen as u64) as usize, rng.range(0, 400) as i64 - 200)
            } else {
                ("*".to_string(), 0, 0)
            };
            let mapq = *rng.pick(&[0u8, 1, 30, 60, 254, 255]);
            lines.push(format!(
                "{name}\t{flags}\t{rname}\t{pos}\t{mapq}\t{cigar}\t{rnext}\t{pnext}\t{tlen}\t{}\t{}{tags}",
                String::from_utf8(seq).unwrap(),
                String::from_utf8(qual).unwrap()
            ));
        } else {
            let n = if rng.chance(1, 12) { 0 } else { rng.range(1, 30) as usize };
            let flags = *rng.pick(&[4u16, 4 | 512, 4 | 1 | 8 | 64, 4 | 1 | 8 | 128]);
            let (seq, qual) = if n == 0 {
                ("*".to_string(), "*".to_string())
            } else {
                let s: Vec<u8> = (0..n).map(|_| *rng.pick(b"ACGTN")).collect();
                let q: Vec<u8> = (0..n).map(|_| 33 + rng.below(61) as u8).collect();
                (String::from_utf8(s).unwrap(), String::from_utf8(q).unwrap())
            };
            let mapq = *rng.pick(&[0u8, 255]);
            lines.push(format!("{name}\t{flags}\t*\t0\t{mapq}\t*\t*\t0\t0\t{seq}\t{qual}{tags}"));
        }
    }
    Spec { header_text, lines, refs }
}

impl Spec {
    pub fn text(&self) -> Vec<u8> {
        let mut t = self.header_text.clone().into_bytes();
        for l in &self.lines {
            t.extend_from_slice(l.as_bytes());
            t.push(b'\n');
        }
        t
    }
    pub fn repository(&self) -> fasta::Repository {
        let recs: Vec<fasta::Record> = self
            .refs
            .iter()
            .map(|(n, s)| {
                fasta::Record::new(
                    fasta::record::Definition::new(n.as_str(), None),
                    fasta::record::Sequence::from(s.clone()),
                )
            })
            .collect();
        fasta::Repository::new(recs)
    }
}

// ---------------------------------------------------------------------------------------------
// Canonical form at the SAM data-model level: the SAM line the (specific) SAM writer emits.

// Float fields are NOT taken from the writer's text (that would make the SAM writer its own
// judge): they are replaced by the bit patterns of the values the record hands out.
pub fn canon_line(header: &sam::Header, rec: &dyn sam::alignment::Record) -> io::Result<Vec<u8>> {
    use sam::alignment::record::data::field::{Value, value::Array};
    let mut w = sam::io::Writer::new(Vec::new());
    w.write_alignment_record(header, rec)?;
    let mut v = w.into_inner();
    if v.last() == Some(&b'\n') {
        v.pop();
    }
    // the float values of the record, field by field in iteration (= writing) order
    let mut floats: Vec<Vec<u32>> = Vec::new();
    let data = rec.data();
    for item in data.iter() {
        let (_, value) = item?;
        match value {
            Value::Float(f) => floats.push(vec![f.to_bits()]),
            Value::Array(Array::Float(vals)) => {
                let mut b = Vec::new();
                for x in vals.iter() {
                    b.push(x?.to_bits());
                }
                floats.push(b);
            }
            _ => {}
        }
    }
    if floats.is_empty() {
        return Ok(v);
    }
    let mut it = floats.into_iter();
    let cols: Vec<Vec<u8>> = v
        .split(|&c| c == b'\t')
        .enumerate()
        .map(|(i, c)| {
            if i >= 11 && c.len() >= 5 && (&c[2..5] == b":f:" || c[2..].starts_with(b":B:f")) {
                let bits = it.next().unwrap_or_default();
                let mut o = c[..if &c[2..5] == b":f:" { 5 } else { 6 }].to_vec();
                let txt: Vec<String> = bits.iter().map(|b| format!("#{b:08x}")).collect();
                if c[2..].starts_with(b":B:f") && !txt.is_empty() {
                    o.push(b',');
                }
                o.extend_from_slice(txt.join(",").as_bytes());
                o
            } else {
                c.to_vec()
            }
        })
        .collect();
    Ok(cols.join(&b'\t'))
}

/// the same substitution on the harness' own SAM text (float text parsed by Rust's f32 parser)
pub fn bits_of_text_line(line: &str) -> Vec<u8> {
    let cols: Vec<String> = line
        .split('\t')
        .enumerate()
        .map(|(i, c)| {
            let b = c.as_bytes();
            if i >= 11 && b.len() >= 5 && &b[2..5] == b":f:" {
                format!("{}#{:08x}", &c[..5], c[5..].parse::<f32>().map(|f| f.to_bits()).unwrap_or(0xffff_ffff))
            } else if i >= 11 && b.len() >= 6 && b[2..].starts_with(b":B:f") {
                let vals: Vec<String> = c[6..].split(',').filter(|x| !x.is_empty()).map(|x| format!("#{:08x}", x.parse::<f32>().map(|f| f.to_bits()).unwrap_or(0xffff_ffff))).collect();
                if vals.is_empty() { c[..6].to_string() } else { format!("{},{}", &c[..6], vals.join(",")) }
            } else {
                c.to_string()
            }
        })
        .collect();
    cols.join("\t").into_bytes()
}

/// a finite f32 from its bit pattern: boundary constants and random bits, as the shortest decimal
/// text that parses back to the same bits (Rust's Display)
fn gen_float(rng: &mut Rng) -> String {
    const K: &[u32] = &[
        0x3f80_0001, // 1.0000001
        0x4b7f_ffff, // 16777215
        0x3dfc_d6ea, // 0.12345679
        0x7f7f_ffff, // f32::MAX
        0xff7f_ffff, // f32::MIN
        0x0080_0000, // smallest normal
        0x0000_0001, // smallest subnormal
        0x8000_0000, // -0
        0x3eaa_aaab, // 1/3
        0x4048_f5c3, // 3.14
        0x3f7f_ffff, // largest below 1
        0x4b80_0000, // 2^24
        0x5f00_0000, // 2^63
    ];
    let bits = if rng.chance(1, 3) {
        *rng.pick(K)
    } else {
        loop {
            let b = rng.next() as u32;
            if (b >> 23) & 0xff != 0xff {
                break b;
            }
        }
    };
    format!("{}", f32::from_bits(bits))
}

pub fn canon_header(header: &sam::Header) -> io::Result<Vec<u8>> {
    let mut w = sam::io::Writer::new(Vec::new());
    w.write_header(header)?;
    Ok(w.into_inner())
}

/// parse the harness' SAM text with the specific SAM reader
pub fn parse_spec(text: &[u8]) -> io::Result<(sam::Header, Vec<sam::alignment::RecordBuf>)> {
    let mut r = sam::io::Reader::new(text);
    let header = r.read_header()?;
    let mut recs = Vec::new();
    for rec in r.record_bufs(&header) {
        recs.push(rec?);
    }
    Ok((header, recs))
}

pub fn write_generic(
    code: &str,
    header: &sam::Header,
    recs: &[&dyn sam::alignment::Record],
    repo: fasta::Repository,
) -> io::Result<Vec<u8>> {
    let sink = FaultySink::new(vec![]);
    {
        let mut w = writer_builder(code, repo).build_from_writer(sink.clone())?;
        w.write_header(header)?;
        for r in recs {
            w.write_record(header, &AsRec(*r))?;
        }
        w.finish(header)?;
    }
    Ok(sink.bytes())
}

/// `write_record` is generic over a sized `R: Record`; forward a trait object.
pub struct AsRec<'a>(pub &'a dyn sam::alignment::Record);
mod as_rec {
    use super::AsRec;
    use bstr::BStr;
    use noodles_core::Position;
    use noodles_sam::{
        self as sam,
        alignment::record::{Cigar, Data, Flags, MappingQuality, QualityScores, Sequence},
    };
    use std::io;
    impl sam::alignment::Record for AsRec<'_> {
        fn name(&self) -> Option<&BStr> {
            self.0.name()
        }
        fn flags(&self) -> io::Result<Flags> {
            self.0.flags()
        }
        fn reference_sequence_id<'r, 'h: 'r>(&'r self, header: &'h sam::Header) -> Option<io::Result<usize>> {
            self.0.reference_sequence_id(header)
        }
        fn alignment_start(&self) -> Option<io::Result<Position>> {
            self.0.alignment_start()
        }
        fn mapping_quality(&self) -> Option<io::Result<MappingQuality>> {
            self.0.mapping_quality()
        }
        fn cigar(&self) -> Box<dyn Cigar + '_> {
            self.0.cigar()
        }
        fn mate_reference_sequence_id<'r, 'h: 'r>(&'r self, header: &'h sam::Header) -> Option<io::Result<usize>> {
            self.0.mate_reference_sequence_id(header)
        }
        fn mate_alignment_start(&self) -> Option<io::Result<Position>> {
            self.0.mate_alignment_start()
        }
        fn template_length(&self) -> io::Result<i32> {
            self.0.template_length()
        }
        fn sequence(&self) -> Box<dyn Sequence + '_> {
            self.0.sequence()
        }
        fn quality_scores(&self) -> Box<dyn QualityScores + '_> {
            self.0.quality_scores()
        }
        fn data(&self) -> Box<dyn Data + '_> {
            self.0.data()
        }
    }
}

pub struct ReadBack {
    pub variant: &'static str,
    pub header: sam::Header,
    pub lines: Vec<Vec<u8>>,
}

fn variant_of(r: &alignment::Record) -> &'static str {
    match r {
        alignment::Record::Sam(_) => "sam",
        alignment::Record::Bam(_) => "bam",
        alignment::Record::Cram(_) => "cram",
    }
}

/// read everything through the generic autodetecting reader; the record variant the reader
/// installs tells which format it decided on
pub fn read_generic(src: Box<dyn Read>, repo: fasta::Repository) -> Result<ReadBack, (String, io::Error)> {
    let mut r = alignment::io::reader::Builder::default()
        .set_reference_sequence_repository(repo)
        .build_from_reader(src)
        .map_err(|e| ("build".to_string(), e))?;
    let header = r.read_header().map_err(|e| ("read_header".to_string(), e))?;
    // two slots of different initial variants: the reader installs its own variant in both
    let mut rec = alignment::Record::Sam(sam::Record::default());
    let mut probe = alignment::Record::Bam(bam::Record::default());
    let mut lines = Vec::new();
    loop {
        let n = r.read_record(&header, &mut rec).map_err(|e| (format!("read_record#{}", lines.len()), e))?;
        if n == 0 {
            break;
        }
        lines.push(canon_line(&header, &rec).map_err(|e| ("canon".to_string(), e))?);
    }
    let _ = r.read_record(&header, &mut probe);
    let (va, vb) = (variant_of(&rec), variant_of(&probe));
    let variant = if va == vb { va } else { "inconsistent" };
    Ok(ReadBack { variant, header, lines })
}

// ---------------------------------------------------------------------------------------------

fn header_norm(h: &[u8]) -> Vec<Vec<u8>> {
    // compare headers line by line, dropping the M5/UR fields a CRAM writer may add to @SQ
    h.split(|&c| c == b'\n')
        .filter(|l| !l.is_empty())
        .map(|l| {
            let cols: Vec<&[u8]> = l
                .split(|&c| c == b'\t')
                .filter(|c| !(l.starts_with(b"@SQ") && (c.starts_with(b"M5:") || c.starts_with(b"UR:"))))
                .collect();
            cols.join(&b'\t')
        })
        .collect()
}

struct Prepared {
    spec: Spec,
    header: sam::Header,
    recs: Vec<sam::alignment::RecordBuf>,
    canon: Vec<Vec<u8>>,
}

fn prepare(seed: u64, nrec: usize, hdr: u64, nm: u64) -> Result<Prepared, (String, String)> {
    prepare_spec(gen_spec(seed, nrec, hdr, nm))
}

/// explicit data set: SAM text, plus reference sequences `name:SEQ,name:SEQ` (`_` = none)
fn spec_of_text(text: &[u8], refs: &str) -> Spec {
    let t = String::from_utf8_lossy(text).to_string();
    let mut header_text = String::new();
    let mut lines = Vec::new();
    for l in t.split('\n').filter(|l| !l.is_empty()) {
        if l.starts_with('@') && lines.is_empty() {
            header_text.push_str(l);
            header_text.push('\n');
        } else {
            lines.push(l.to_string());
        }
    }
    let refs = if refs == "_" {
        vec![]
    } else {
        refs.split(',').map(|r| { let (n, s) = r.split_once(':').unwrap(); (n.to_string(), s.as_bytes().to_vec()) }).collect()
    };
    Spec { header_text, lines, refs }
}

fn prepare_spec(spec: Spec) -> Result<Prepared, (String, String)> {
    if std::env::var("NV_C20_DEBUG").is_ok() {
        eprintln!("{}", String::from_utf8_lossy(&spec.text()));
    }
    let (header, recs) = match parse_spec(&spec.text()) {
        Ok(x) => x,
        Err(e) => return bad("harness-spec-unparsable", format!("{e}")),
    };
    let mut canon = Vec::new();
    for r in &recs {
        match canon_line(&header, r) {
            Ok(l) => canon.push(l),
            Err(e) => return bad("harness-spec-unwritable", format!("{e}")),
        }
    }
    // the canonical lines are the lines of the spec (the generator writes canonical SAM; float
    // fields are compared by the bit pattern Rust's own parser assigns to the text)
    for (a, b) in canon.iter().zip(&spec.lines) {
        if *a != bits_of_text_line(b) {
            return bad("harness-spec-not-canonical", format!("`{}` vs `{}`", show(a), b));
        }
    }
    Ok(Prepared { spec, header, recs, canon })
}

fn g<T>(what: &str, f: impl FnOnce() -> T + std::panic::UnwindSafe) -> Result<T, (String, String)> {
    match guarded(f) {
        Outcome::Done(v) => Ok(v),
        Outcome::Panicked(m) => bad(format!("{what}-panic"), m),
    }
}

/// The F14 class, re-derived from the input: a header-less SAM whose first line starts with CRAM.
fn sam_text_starts_with_cram(p: &Prepared) -> bool {
    p.spec.header_text.is_empty() && p.spec.lines.first().is_some_and(|l| l.starts_with("CRAM"))
}

/// write with the generic writer in `code`, check the leading bytes, read back with the generic
/// reader over `rdr`, compare
fn check_roundtrip(p: &Prepared, code: &str, rdr: &str) -> V {
    let repo = p.spec.repository();
    let recs: Vec<&dyn sam::alignment::Record> = p.recs.iter().map(|r| r as &dyn sam::alignment::Record).collect();
    let bytes = match g(&format!("write-{code}"), std::panic::AssertUnwindSafe(|| write_generic(code, &p.header, &recs, repo.clone())))? {
        Ok(b) => b,
        Err(e) => return bad(format!("write-{code}-error"), format!("{e}")),
    };
    check_stream(p, code, &bytes, rdr, &p.canon, is_cram(code))
}

/// CRAM does not store the mapping quality of an unmapped read: compare it modulo that.
fn norm_unmapped_mapq(l: &[u8]) -> Vec<u8> {
    let mut cols: Vec<Vec<u8>> = l.split(|&c| c == b'\t').map(|c| c.to_vec()).collect();
    if cols.len() > 4 {
        let flags: u32 = String::from_utf8_lossy(&cols[1]).parse().unwrap_or(0);
        if flags & 4 != 0 {
            cols[4] = b"255".to_vec();
        }
    }
    cols.join(&b'\t')
}

/// input classes on which the CRAM codec itself (property C07) fails, re-derived from the data set
fn cram_cause(p: &Prepared) -> Option<&'static str> {
    let col = |l: &String, i: usize| l.split('\t').nth(i).unwrap_or("").to_string();
    if p.spec.lines.iter().any(|l| col(l, 9) == "*") {
        Some("cram-record-without-sequence")
    } else if p.spec.lines.iter().any(|l| col(l, 0) == "*") {
        Some("cram-missing-name-reads-as-empty")
    } else {
        None
    }
}

fn check_stream(p: &Prepared, code: &str, bytes: &[u8], rdr: &str, expect0: &[Vec<u8>], via_cram: bool) -> V {
    let expect_n: Vec<Vec<u8>> = if via_cram { expect0.iter().map(|l| norm_unmapped_mapq(l)).collect() } else { expect0.to_vec() };
    let expect: &[Vec<u8>] = &expect_n;
    let (_, k) = fmt_of(code);
    if is_gz(bytes) != k.is_some() {
        let what = if DEFAULTS.contains(&code) { "default-compression-not-as-documented" } else { "compression-not-as-requested" };
        return bad(format!("write-{code}-{what}"), format!("stream starts {}", nv::hex(&bytes[..bytes.len().min(4)])));
    }
    let ccode = canon_code(code);
    let repo = p.spec.repository();
    let wlen = first_window_len(rdr, bytes.len());
    let short_window = wlen < bytes.len().min(8192);
    let res = g(&format!("read-{code}"), {
        let src = make_reader(rdr, bytes.to_vec());
        let repo = repo.clone();
        std::panic::AssertUnwindSafe(move || read_generic(src, repo))
    })?;
    // would a full first read have worked?  (derives the "short first read" cause from the input)
    let full_ok = |p: &Prepared| -> bool {
        if !short_window {
            return false;
        }
        let src = make_reader("c", bytes.to_vec());
        let repo = p.spec.repository();
        match guarded(std::panic::AssertUnwindSafe(move || read_generic(src, repo))) {
            Outcome::Done(Ok(rb)) => rb.variant == family(code) && rb.lines.iter().map(|l| if via_cram { norm_unmapped_mapq(l) } else { l.clone() }).collect::<Vec<_>>() == expect,
            _ => false,
        }
    };
    let mut rb = match res {
        Ok(rb) => rb,
        Err((stage, e)) => {
            let kind = nv::errkind(&e);
            if let (true, Some(t)) = (via_cram, cram_cause(p)) {
                return bad(t, format!("{code}: {stage} {kind} {e}"));
            }
            if full_ok(p) {
                return bad("detect-short-first-read", format!("{code} first read {wlen} of {} bytes: {stage} {kind}", bytes.len()));
            }
            if ccode == "samgz" && p.spec.text().len() < 4 {
                return bad("detect-short-input-error", format!("samgz text of {} bytes: {stage} {kind}", p.spec.text().len()));
            }
            if ccode == "sam" && sam_text_starts_with_cram(p) {
                return bad("detect-sam-as-cram", format!("header-less SAM starting `{}`: {stage} {kind}", &p.spec.lines[0][..p.spec.lines[0].len().min(12)]));
            }
            return bad(format!("read-{code}-error"), format!("{stage} {kind} {e}"));
        }
    };
    if via_cram {
        rb.lines = rb.lines.iter().map(|l| norm_unmapped_mapq(l)).collect();
    }
    if rb.variant != family(code) {
        if full_ok(p) {
            return bad("detect-short-first-read", format!("{code} first read {wlen} of {} bytes: detected {}", bytes.len(), rb.variant));
        }
        if ccode == "samgz" && p.spec.text().len() < 4 {
            return bad("detect-short-input-error", format!("samgz text of {} bytes: detected {}", p.spec.text().len(), rb.variant));
        }
        if ccode == "sam" && rb.variant == "cram" && sam_text_starts_with_cram(p) {
            return bad("detect-sam-as-cram", "header-less SAM whose first read name starts with CRAM");
        }
        return bad(format!("detect-{code}-as-{}", rb.variant), format!("first bytes {}", nv::hex(&bytes[..bytes.len().min(8)])));
    }
    if let Some(d) = first_diff(expect, &rb.lines) {
        if full_ok(p) {
            return bad("detect-short-first-read", format!("{code} first read {wlen}: {d}"));
        }
        if let (true, Some(t)) = (via_cram, cram_cause(p)) {
            return bad(t, format!("{code}: {d}"));
        }
        let col = expect.iter().zip(&rb.lines).find(|(a, b)| a != b).map(|(a, b)| diff_column(a, b)).unwrap_or(99);
        return bad(format!("roundtrip-{code}-loses-{}", col_name(col)), d);
    }
    // the stream is also a file of that format for the format's own reader (conventional framing)
    {
        let (b2, code2, repo2) = (bytes.to_vec(), code.to_string(), p.spec.repository());
        match g(&format!("specific-read-{code}"), std::panic::AssertUnwindSafe(move || read_specific(&code2, &b2, repo2)))? {
            Ok(lines) => {
                let lines: Vec<Vec<u8>> = if via_cram { lines.iter().map(|l| norm_unmapped_mapq(l)).collect() } else { lines };
                if let Some(d) = first_diff(expect, &lines) {
                    return bad(format!("write-{code}-differs-for-format-reader"), d);
                }
            }
            Err(e) => return bad(format!("write-{code}-unreadable-by-format-reader"), format!("{} {e}", nv::errkind(&e))),
        }
    }
    // header: every line written is read back (CRAM may add M5/UR to @SQ)
    let hw = header_norm(&canon_header(&p.header).unwrap_or_default());
    let hr = header_norm(&canon_header(&rb.header).unwrap_or_default());
    let hr_f: Vec<&Vec<u8>> = hr.iter().filter(|l| hw.contains(l)).collect();
    if hr_f.len() != hw.len() || hw.iter().zip(&hr_f).any(|(a, b)| a != *b) {
        // a header-less data set gains lines in some formats; only losses / changes count
        return bad(format!("roundtrip-{code}-loses-header"), format!("written {:?} read {:?}", hw.iter().map(|l| show(l)).collect::<Vec<_>>(), hr.iter().map(|l| show(l)).collect::<Vec<_>>()));
    }
    Ok(())
}

fn col_name(c: usize) -> &'static str {
    match c {
        0 => "name",
        1 => "flags",
        2 => "rname",
        3 => "pos",
        4 => "mapq",
        5 => "cigar",
        6 => "rnext",
        7 => "pnext",
        8 => "tlen",
        9 => "seq",
        10 => "qual",
        99 => "records",
        _ => "data",
    }
}

/// generic reader of src piped into the generic writer of dst
fn check_convert(p: &Prepared, src: &str, dst: &str) -> V {
    let repo = p.spec.repository();
    let recs: Vec<&dyn sam::alignment::Record> = p.recs.iter().map(|r| r as &dyn sam::alignment::Record).collect();
    let bytes = match g(&format!("write-{src}"), std::panic::AssertUnwindSafe(|| write_generic(src, &p.header, &recs, repo.clone())))? {
        Ok(b) => b,
        Err(e) => return bad(format!("write-{src}-error"), format!("{e}")),
    };
    // the source itself must read back (otherwise the conversion says nothing)
    let via_cram = is_cram(src) || is_cram(dst);
    check_stream(p, src, &bytes, "c", &p.canon, via_cram)?;
    let out = g(&format!("convert-{src}-to-{dst}"), {
        let repo = repo.clone();
        let bytes = bytes.clone();
        std::panic::AssertUnwindSafe(move || -> Result<Vec<u8>, (String, io::Error)> {
            let mut r = alignment::io::reader::Builder::default()
                .set_reference_sequence_repository(repo.clone())
                .build_from_reader(io::Cursor::new(bytes))
                .map_err(|e| ("build".to_string(), e))?;
            let header = r.read_header().map_err(|e| ("read_header".to_string(), e))?;
            let sink = FaultySink::new(vec![]);
            {
                let mut w = writer_builder(dst, repo)
                    .build_from_writer(sink.clone())
                    .map_err(|e| ("build_writer".to_string(), e))?;
                w.write_header(&header).map_err(|e| ("write_header".to_string(), e))?;
                let mut rec = alignment::Record::Sam(sam::Record::default());
                let mut i = 0;
                loop {
                    let n = r.read_record(&header, &mut rec).map_err(|e| (format!("read_record#{i}"), e))?;
                    if n == 0 {
                        break;
                    }
                    w.write_record(&header, &rec).map_err(|e| (format!("write_record#{i}"), e))?;
                    i += 1;
                }
                w.finish(&header).map_err(|e| ("finish".to_string(), e))?;
            }
            Ok(sink.bytes())
        })
    })?;
    let out = match out {
        Ok(b) => b,
        Err((stage, e)) => {
            if let (true, Some(t)) = (via_cram, cram_cause(p)) {
                return bad(t, format!("{src}->{dst}: {stage} {} {e}", nv::errkind(&e)));
            }
            return bad(format!("convert-{src}-to-{dst}-error"), format!("{stage} {} {e}", nv::errkind(&e)));
        }
    };
    match check_stream(p, dst, &out, "c", &p.canon, via_cram) {
        Ok(()) => Ok(()),
        Err((tag, d)) => {
            // name the conversion pair and the column lost
            if let Some(f) = tag.strip_prefix(&format!("roundtrip-{dst}-loses-")) {
                bad(format!("convert-{src}-to-{dst}-loses-{f}"), d)
            } else {
                Err((tag, format!("after {src}->{dst}: {d}")))
            }
        }
    }
}

/// async builders against the sync ones: sync-written stream through the async autodetecting
/// reader, async-written stream through the sync autodetecting reader
fn check_async(p: &Prepared, code: &str) -> V {
    use futures::TryStreamExt;
    let repo = p.spec.repository();
    let recs: Vec<&dyn sam::alignment::Record> = p.recs.iter().map(|r| r as &dyn sam::alignment::Record).collect();
    let bytes = match g(&format!("write-{code}"), std::panic::AssertUnwindSafe(|| write_generic(code, &p.header, &recs, repo.clone())))? {
        Ok(b) => b,
        Err(e) => return bad(format!("write-{code}-error"), format!("{e}")),
    };
    let via_cram = is_cram(code);
    // the sync reader's verdict on the same stream comes first (known classes are tagged there)
    check_stream(p, code, &bytes, "c", &p.canon, via_cram)?;
    let expect: Vec<Vec<u8>> = if via_cram { p.canon.iter().map(|l| norm_unmapped_mapq(l)).collect() } else { p.canon.clone() };
    let got = g(&format!("async-read-{code}"), {
        let (bytes, repo) = (bytes.clone(), repo.clone());
        std::panic::AssertUnwindSafe(move || {
            crate::common::block_on(async move {
                let mut r = alignment::r#async::io::reader::Builder::default()
                    .set_reference_sequence_repository(repo)
                    .build_from_reader(&bytes[..])
                    .await
                    .map_err(|e| ("build".to_string(), e))?;
                let header = r.read_header().await.map_err(|e| ("read_header".to_string(), e))?;
                let mut lines = Vec::new();
                let mut rs = Box::pin(r.records(&header));
                while let Some(rec) = rs.try_next().await.map_err(|e| (format!("record#{}", lines.len()), e))? {
                    lines.push(canon_line(&header, rec.as_ref()).map_err(|e| ("canon".to_string(), e))?);
                }
                Ok::<_, (String, io::Error)>(lines)
            })
        })
    })?;
    let mut got = match got {
        Ok(l) => l,
        Err((stage, e)) => return bad(format!("async-read-{code}-error"), format!("{stage} {} {e}", nv::errkind(&e))),
    };
    if via_cram {
        got = got.iter().map(|l| norm_unmapped_mapq(l)).collect();
    }
    if let Some(d) = first_diff(&expect, &got) {
        return bad(format!("async-read-{code}-differs-from-sync"), d);
    }
    // async writer
    let (bf, bk) = builder_cfg(code);
    let out = g(&format!("async-write-{code}"), {
        let repo = repo.clone();
        std::panic::AssertUnwindSafe(|| {
            crate::common::block_on(async {
                let sink = crate::common::AsyncSink::default();
                let mut b = alignment::r#async::io::writer::Builder::default().set_reference_sequence_repository(repo);
                if let Some(f) = bf {
                    b = b.set_format(f);
                }
                if let Some(k) = bk {
                    b = b.set_compression_method(k);
                }
                let mut w = b.build_from_writer(sink.clone()).await?;
                w.write_header(&p.header).await?;
                for r in &recs {
                    w.write_record(&p.header, *r).await?;
                }
                w.shutdown(&p.header).await?;
                drop(w);
                let b = sink.0.lock().unwrap().clone();
                Ok::<_, io::Error>(b)
            })
        })
    })?;
    let out = match out {
        Ok(b) => b,
        Err(e) => return bad(format!("async-write-{code}-error"), format!("{} {e}", nv::errkind(&e))),
    };
    match check_stream(p, code, &out, "c", &p.canon, via_cram) {
        Ok(()) => Ok(()),
        Err((tag, d)) => bad(format!("async-write-{code}-{tag}"), d),
    }
}

// ---------------------------------------------------------------------------------------------

pub const RDRS: [&str; 12] = ["c", "b1", "b2", "b3", "b4", "b5", "b8", "b64", "s1", "t1", "s3", "s4"];

pub fn generate(rng: &mut Rng, tier: &str, w: &mut CaseWriter) {
    let thorough = tier == "thorough";
    // every format x header mode x record count class, full first read
    let counts: &[usize] = if thorough { &[0, 1, 2, 3, 5, 8, 13, 20] } else { &[0, 1, 3, 20] };
    for code in ALL {
        for hdr in 0..4u64 {
            for &n in counts {
                let reps = if thorough { 6 } else { 1 };
                for _ in 0..reps {
                    w.push("art", vec![code.into(), rng.next().to_string(), n.to_string(), hdr.to_string(), "0".into(), "c".into()]);
                }
            }
        }
    }
    // adversarial first names (header-less and with header)
    for code in FMTS {
        for nm in 1..=6u64 {
            for hdr in [0u64, 1] {
                w.push("art", vec![code.into(), rng.next().to_string(), "2".into(), hdr.to_string(), nm.to_string(), "c".into()]);
            }
        }
    }
    // the first fill_buf window is varied
    for code in FMTS {
        for rdr in RDRS {
            let reps = if thorough { 4 } else { 1 };
            for _ in 0..reps {
                let n = rng.range(0, 6);
                let hdr = rng.below(4);
                w.push("art", vec![code.into(), rng.next().to_string(), n.to_string(), hdr.to_string(), "0".into(), rdr.into()]);
            }
        }
    }
    // thorough: larger first-read sizes around the window the detector needs
    if thorough {
        for code in FMTS {
            for k in [2usize, 5, 10, 17, 18, 19, 26, 27, 28, 40, 64, 100, 8191, 8192] {
                w.push("art", vec![code.into(), rng.next().to_string(), "3".into(), "1".into(), "0".into(), format!("s{k}")]);
            }
        }
    }
    // async builders
    for code in ALL {
        for i in 0..(if thorough { 12 } else { 3 }) {
            let n = if i == 0 { 0 } else { rng.range(1, 12) };
            w.push("aas", vec![code.into(), rng.next().to_string(), n.to_string(), (i % 4).to_string()]);
        }
    }
    // conversions: every source -> every target
    let reps = if thorough { 12 } else { 2 };
    for src in FMTS {
        for dst in ALL {
            for i in 0..reps {
                let n = if i == 0 { 0 } else { rng.range(1, 20) };
                let hdr = if i == 1 { 0 } else { rng.range(1, 3) };
                w.push("acv", vec![src.into(), dst.into(), rng.next().to_string(), n.to_string(), hdr.to_string()]);
            }
        }
    }
}

pub fn run(c: &Case) -> Obs {
    let r: V = (|| match c.kind.as_str() {
        "art" => {
            let p = prepare(c.u(1), c.u(2) as usize, c.u(3), c.u(4))?;
            check_roundtrip(&p, &c.args[0], &c.args[5])
        }
        "atx" => {
            let p = prepare_spec(spec_of_text(&c.b(1), &c.args[2]))?;
            check_roundtrip(&p, &c.args[0], &c.args[3])
        }
        "aas" => {
            let p = prepare(c.u(1), c.u(2) as usize, c.u(3), 0)?;
            check_async(&p, &c.args[0])
        }
        "acv" => {
            let p = prepare(c.u(2), c.u(3) as usize, c.u(4), 0)?;
            check_convert(&p, &c.args[0], &c.args[1])
        }
        // acx src dst text refs: a conversion of an explicitly given data set (regression cases)
        "acx" => {
            let p = prepare_spec(spec_of_text(&c.b(2), &c.args[3]))?;
            check_convert(&p, &c.args[0], &c.args[1])
        }
        _ => bad("harness-unknown-kind", c.kind.clone()),
    })();
    let nontrivial = match c.kind.as_str() {
        "art" | "atx" | "aas" | "acx" => true,
        _ => c.u(3) > 0,
    };
    Obs::ok("-", nontrivial).with_verdict(r)
}
