//! C13: files written by noodles' own writers, for the truncation checks.  Every builder is a
//! deterministic function of the `Rng` it is given.

use std::io::Write;
use std::num::NonZero;

use noodles_bam as bam;
use noodles_bcf as bcf;
use noodles_bgzf as bgzf;
use noodles_core::Position;
use noodles_cram as cram;
use noodles_csi::{
    self as csi,
    binning_index::{
        self, Indexer,
        index::{
            Header,
            reference_sequence::{bin::Chunk, index::BinnedIndex, index::LinearIndex},
        },
    },
};
use noodles_fasta as fasta;
use noodles_sam as sam;
use noodles_tabix as tabix;
use noodles_vcf as vcf;
use nv::Rng;

type VP = bgzf::VirtualPosition;

const BASES: &[u8] = b"ACGTN";

fn bases(rng: &mut Rng, n: usize) -> String {
    (0..n).map(|_| *rng.pick(BASES) as char).collect()
}

/// BGZF-compress `payload`, ending a block at each offset of `breaks` (sorted; a repeated offset
/// gives an empty block), with or without the EOF marker block.
pub fn bgzip(payload: &[u8], breaks: &[usize], eof: bool) -> Vec<u8> {
    let mut w = bgzf::io::Writer::new(Vec::new());
    let mut at = 0;
    for &b in breaks {
        let b = b.min(payload.len());
        if b >= at {
            w.write_all(&payload[at..b]).unwrap();
            at = b;
            w.flush().unwrap();
        }
    }
    w.write_all(&payload[at..]).unwrap();
    if eof {
        w.finish().unwrap()
    } else {
        w.flush().unwrap();
        w.into_inner()
    }
}

pub fn random_breaks(rng: &mut Rng, len: usize, max: u64) -> Vec<usize> {
    let n = rng.below(max + 1) as usize;
    let mut v: Vec<usize> = (0..n).map(|_| rng.below(len as u64 + 1) as usize).collect();
    v.sort_unstable();
    if n > 1 && rng.chance(1, 4) {
        v[1] = v[0]; // an empty block
    }
    v
}

/// start offsets of the BGZF blocks of a well-formed file (plus the file length)
pub fn bgzf_boundaries(file: &[u8]) -> Vec<usize> {
    let mut v = vec![0];
    let mut at = 0;
    while at + 18 <= file.len() {
        let bsize = u16::from_le_bytes([file[at + 16], file[at + 17]]) as usize + 1;
        at += bsize;
        v.push(at);
    }
    v
}

// ---------------------------------------------------------------------------------------------
// alignment formats

/// SAM text with `nrec` records; `unmapped_only` for CRAM without a reference; `long` makes a few
/// reads tens of kilobases long (so that BAM records span BGZF blocks).
pub fn sam_text(rng: &mut Rng, nrec: u64, unmapped_only: bool, long: bool) -> Vec<u8> {
    let mut s = String::new();
    s.push_str("@HD\tVN:1.6\tSO:unsorted\n");
    let nref = if unmapped_only { 0 } else { rng.range(1, 3) };
    for i in 0..nref {
        s.push_str(&format!("@SQ\tSN:sq{i}\tLN:{}\n", 100000 * (i + 1)));
    }
    if rng.chance(1, 2) {
        s.push_str("@RG\tID:rg0\tSM:s\n");
    }
    if rng.chance(1, 2) {
        let n = rng.below(40) as usize;
        s.push_str(&format!("@PG\tID:pg0\tPN:nv\n@CO\tc {}\n", bases(rng, n)));
    }
    for i in 0..nrec {
        let long_tag = long && rng.chance(1, 3);
        let l = if long && !long_tag && rng.chance(1, 3) { rng.range(20000, 45000) } else { rng.range(1, 40) } as usize;
        let seq = bases(rng, l);
        let qual: String = (0..l).map(|_| (b'!' + rng.below(40) as u8) as char).collect();
        let tags = match if long_tag { 4 } else { rng.below(4) } {
            4 => {
                // a long trailing field: in bgzipped SAM the block boundary falls inside it
                let n = rng.range(20000, 45000) as usize;
                format!("\tNH:i:1\tZZ:Z:{}", bases(rng, n))
            }
            0 => "".to_string(),
            1 => "\tNH:i:1".to_string(),
            2 => {
                let n = rng.range(1, 12) as usize;
                format!("\tNH:i:{}\tZZ:Z:{}", rng.below(70000), bases(rng, n))
            }
            _ => "\tXB:B:c,1,-2,3\tXF:f:1.5".to_string(),
        };
        if unmapped_only || rng.chance(1, 4) {
            s.push_str(&format!("r{i}\t4\t*\t0\t255\t*\t*\t0\t0\t{seq}\t{qual}{tags}\n"));
        } else {
            let r = rng.below(nref);
            let pos = rng.range(1, 900);
            s.push_str(&format!(
                "r{i}\t{}\tsq{r}\t{pos}\t{}\t{l}M\t*\t0\t0\t{seq}\t{qual}{tags}\n",
                if rng.chance(1, 3) { 16 } else { 0 },
                rng.below(61)
            ));
        }
    }
    s.into_bytes()
}

pub fn parse_sam(text: &[u8]) -> (sam::Header, Vec<sam::alignment::RecordBuf>) {
    let mut r = sam::io::Reader::new(text);
    let h = r.read_header().expect("generated SAM header");
    let recs = r.record_bufs(&h).collect::<Result<Vec<_>, _>>().expect("generated SAM records");
    (h, recs)
}

/// uncompressed BAM stream: (bytes, offset of the first record, end offset of every record)
pub fn bam_raw(text: &[u8]) -> (Vec<u8>, usize, Vec<usize>) {
    use sam::alignment::io::Write as _;
    let (h, recs) = parse_sam(text);
    let mut w = bam::io::Writer::from(Vec::new());
    w.write_header(&h).unwrap();
    let hdr = w.get_ref().len();
    let mut ends = Vec::new();
    for r in &recs {
        w.write_alignment_record(&h, r).unwrap();
        ends.push(w.get_ref().len());
    }
    (w.into_inner(), hdr, ends)
}

/// BGZF-compressed BAM written by bam::io::Writer::new; `flush_every` > 0 ends a BGZF block after
/// every that many records (so that files have several blocks even when small)
pub fn bam_file(text: &[u8], flush_every: usize, eof: bool) -> Vec<u8> {
    use sam::alignment::io::Write as _;
    let (h, recs) = parse_sam(text);
    let mut w = bam::io::Writer::new(Vec::new());
    w.write_header(&h).unwrap();
    for (i, r) in recs.iter().enumerate() {
        w.write_alignment_record(&h, r).unwrap();
        if flush_every > 0 && (i + 1) % flush_every == 0 {
            w.get_mut().flush().unwrap();
        }
    }
    if eof {
        w.try_finish().unwrap();
        w.into_inner().into_inner()
    } else {
        w.get_mut().flush().unwrap();
        w.into_inner().into_inner()
    }
}

/// CRAM: header container, data containers of `per_slice` records (one slice per container
/// boundary is decided by the writer), EOF container
pub fn cram_file(text: &[u8], per_slice: usize) -> Vec<u8> {
    use sam::alignment::io::Write as _;
    let (h, recs) = parse_sam(text);
    let mut b = cram::io::writer::Builder::default();
    if per_slice > 0 {
        b = b.verif_set_records_per_slice(per_slice);
    }
    let mut w = b.build_from_writer(Vec::new());
    w.write_header(&h).unwrap();
    for r in &recs {
        w.write_alignment_record(&h, r).unwrap();
    }
    w.try_finish(&h).unwrap();
    w.get_ref().clone()
}

// ---------------------------------------------------------------------------------------------
// variant formats

pub fn vcf_text(rng: &mut Rng, nrec: u64, wide: bool) -> Vec<u8> {
    let mut s = String::new();
    s.push_str("##fileformat=VCFv4.3\n");
    let nref = rng.range(1, 2);
    for i in 0..nref {
        s.push_str(&format!("##contig=<ID=sq{i},length={}>\n", 100000000 * (i + 1)));
    }
    s.push_str("##INFO=<ID=DP,Number=1,Type=Integer,Description=\"depth\">\n");
    s.push_str("##INFO=<ID=AF,Number=A,Type=Float,Description=\"af\">\n");
    s.push_str("##INFO=<ID=ST,Number=1,Type=String,Description=\"st\">\n");
    s.push_str("##FILTER=<ID=q10,Description=\"q\">\n");
    s.push_str("##FORMAT=<ID=GT,Number=1,Type=String,Description=\"gt\">\n");
    s.push_str("##FORMAT=<ID=GQ,Number=1,Type=Integer,Description=\"gq\">\n");
    let nsamp = rng.range(0, 2);
    s.push_str("#CHROM\tPOS\tID\tREF\tALT\tQUAL\tFILTER\tINFO");
    if nsamp > 0 {
        s.push_str("\tFORMAT");
        for i in 0..nsamp {
            s.push_str(&format!("\ts{i}"));
        }
    }
    s.push('\n');
    let mut pos = 1;
    for i in 0..nrec {
        pos += rng.range(1, 100);
        let r = rng.below(nref);
        let n = rng.range(1, 4) as usize;
        let rb = bases(rng, n).replace('N', "A");
        let alt = *rng.pick(&["C", "G,T", "."]);
        let mut info = match (rng.below(3), alt) {
            (0, _) => "DP=1".to_string(),
            (1, _) => format!("DP={}", rng.below(100000)),
            (_, "C") => format!("DP={};AF=0.5", rng.below(300)),
            _ => format!("DP={}", rng.below(300)),
        };
        if wide && rng.chance(1, 3) {
            let n = rng.range(20000, 45000) as usize;
            info.push_str(&format!(";ST={}", bases(rng, n)));
        }
        s.push_str(&format!(
            "sq{r}\t{pos}\t{}\t{rb}\t{alt}\t{}\t{}\t{info}",
            if rng.chance(1, 2) { ".".to_string() } else { format!("id{i}") },
            if rng.chance(1, 2) { ".".to_string() } else { format!("{}", rng.below(100)) },
            *rng.pick(&[".", "PASS", "q10"])
        ));
        if nsamp > 0 {
            s.push_str("\tGT:GQ");
            for _ in 0..nsamp {
                s.push_str(&format!("\t{}:{}", *rng.pick(&["0/1", "1|1", "./."]), rng.below(99)));
            }
        }
        s.push('\n');
    }
    s.into_bytes()
}

pub fn parse_vcf(text: &[u8]) -> (vcf::Header, Vec<vcf::variant::RecordBuf>) {
    let mut r = vcf::io::Reader::new(text);
    let h = r.read_header().expect("generated VCF header");
    let recs = r.record_bufs(&h).collect::<Result<Vec<_>, _>>().expect("generated VCF records");
    (h, recs)
}

/// uncompressed BCF stream: (bytes, offset of the first record, end offset of every record)
pub fn bcf_raw(text: &[u8]) -> (Vec<u8>, usize, Vec<usize>) {
    use vcf::variant::io::Write as _;
    let (h, recs) = parse_vcf(text);
    let mut w = bcf::io::Writer::from(Vec::new());
    w.write_header(&h).unwrap();
    let hdr = w.get_ref().len();
    let mut ends = Vec::new();
    for rec in &recs {
        w.write_variant_record(&h, rec).unwrap();
        ends.push(w.get_ref().len());
    }
    (w.into_inner(), hdr, ends)
}

pub fn bcf_file(text: &[u8], flush_every: usize) -> Vec<u8> {
    use vcf::variant::io::Write as _;
    let (h, recs) = parse_vcf(text);
    let mut w = bcf::io::Writer::new(Vec::new());
    w.write_header(&h).unwrap();
    for (i, rec) in recs.iter().enumerate() {
        w.write_variant_record(&h, rec).unwrap();
        if flush_every > 0 && (i + 1) % flush_every == 0 {
            w.get_mut().flush().unwrap();
        }
    }
    w.try_finish().unwrap();
    w.into_inner().into_inner()
}

/// bgzipped VCF written through vcf::io::Writer over a bgzf writer
pub fn vcf_gz(text: &[u8], flush_every: usize) -> Vec<u8> {
    use vcf::variant::io::Write as _;
    let (h, recs) = parse_vcf(text);
    let mut w = vcf::io::Writer::new(bgzf::io::Writer::new(Vec::new()));
    w.write_header(&h).unwrap();
    for (i, rec) in recs.iter().enumerate() {
        w.write_variant_record(&h, rec).unwrap();
        if flush_every > 0 && (i + 1) % flush_every == 0 {
            w.get_mut().flush().unwrap();
        }
    }
    w.into_inner().finish().unwrap()
}

/// bgzipped SAM written through sam::io::Writer over a bgzf writer
pub fn sam_gz(text: &[u8], flush_every: usize) -> Vec<u8> {
    use sam::alignment::io::Write as _;
    let (h, recs) = parse_sam(text);
    let mut w = sam::io::Writer::new(bgzf::io::Writer::new(Vec::new()));
    w.write_header(&h).unwrap();
    for (i, r) in recs.iter().enumerate() {
        w.write_alignment_record(&h, r).unwrap();
        if flush_every > 0 && (i + 1) % flush_every == 0 {
            w.get_mut().flush().unwrap();
        }
    }
    w.into_inner().finish().unwrap()
}

// ---------------------------------------------------------------------------------------------
// indexes

fn pos(n: u64) -> Position {
    Position::try_from(n as usize).unwrap()
}

pub fn build_index<I>(rng: &mut Rng, ms: u8, d: u8, nref: usize, hdr: Option<Header>, unplaced: bool) -> binning_index::Index<I>
where
    I: binning_index::index::reference_sequence::Index + Default,
{
    build_index_lim(rng, ms, d, nref, hdr, unplaced, u64::MAX)
}

pub fn build_index_lim<I>(rng: &mut Rng, ms: u8, d: u8, nref: usize, hdr: Option<Header>, unplaced: bool, lim: u64) -> binning_index::Index<I>
where
    I: binning_index::index::reference_sequence::Index + Default,
{
    let maxp = ((1u64 << (ms as u64 + 3 * d as u64)) - 1).min(lim);
    let mut ix = Indexer::<I>::new(ms, d);
    if let Some(h) = hdr {
        ix = ix.set_header(h);
    }
    let mut off = rng.below(1 << 20);
    for r in 0..nref {
        if rng.chance(1, 5) {
            continue;
        }
        let mut s = rng.range(1, 1000.min(maxp));
        for _ in 0..rng.range(1, 8) {
            s = (s + rng.below(1 + maxp / 8)).min(maxp);
            let sh = rng.below(20);
            let e = (s + rng.below(1 + (maxp >> sh))).min(maxp);
            let a = off;
            off += rng.range(1, 70000);
            ix.add_record(Some((r, pos(s), pos(e), rng.chance(9, 10))), Chunk::new(VP::from(a), VP::from(off)))
                .unwrap();
        }
    }
    if unplaced {
        for _ in 0..rng.range(1, 3) {
            ix.add_record(None, Chunk::new(VP::from(off), VP::from(off + 1))).unwrap();
        }
    }
    ix.build(nref)
}

/// `small`: positions below 2^18 so that the linear index stays short (the file is a few
/// hundred bytes and every cut can be tried)
pub fn bai_index(rng: &mut Rng, small: bool) -> bam::bai::Index {
    let nref = rng.range(0, 3) as usize;
    let unplaced = rng.chance(2, 3);
    build_index_lim::<LinearIndex>(rng, 14, 5, nref, None, unplaced, if small { (1 << 18) - 1 } else { u64::MAX })
}

pub fn bai_file(index: &bam::bai::Index) -> Vec<u8> {
    let mut buf = Vec::new();
    bam::bai::io::Writer::new(&mut buf).write_index(index).unwrap();
    buf
}

pub fn csi_file(rng: &mut Rng) -> Vec<u8> {
    let nref = rng.range(0, 3) as usize;
    let (ms, d) = *rng.pick(&[(14u8, 5u8), (12, 4), (14, 6)]);
    let hdr = if rng.chance(1, 2) {
        Some(csi::binning_index::index::header::Builder::vcf().build())
    } else {
        None
    };
    let unplaced = rng.chance(2, 3);
    let index: csi::Index = build_index::<BinnedIndex>(rng, ms, d, nref, hdr, unplaced);
    let mut w = csi::io::Writer::new(Vec::new());
    w.write_index(&index).unwrap();
    w.into_inner().finish().unwrap()
}

pub fn tabix_file(rng: &mut Rng) -> Vec<u8> {
    let nref = rng.range(0, 3) as usize;
    let names: csi::binning_index::index::header::ReferenceSequenceNames = (0..nref)
        .map(|i| {
            let n = rng.below(6) as usize;
            bstr::BString::from(format!("chr{i}_{}", bases(rng, n)))
        })
        .collect();
    let hdr = csi::binning_index::index::header::Builder::vcf()
        .set_reference_sequence_names(names)
        .build();
    let unplaced = rng.chance(2, 3);
    let index: tabix::Index = build_index::<LinearIndex>(rng, 14, 5, nref, Some(hdr), unplaced);
    let mut w = tabix::io::Writer::new(Vec::new());
    w.write_index(&index).unwrap();
    w.into_inner().finish().unwrap()
}

/// a tabix file whose payload stays small (positions below 2^18: short linear indexes)
pub fn tabix_file_small(rng: &mut Rng) -> Vec<u8> {
    let nref = rng.range(0, 3) as usize;
    let names: csi::binning_index::index::header::ReferenceSequenceNames = (0..nref)
        .map(|i| {
            let n = rng.below(6) as usize;
            bstr::BString::from(format!("chr{i}_{}", bases(rng, n)))
        })
        .collect();
    let hdr = csi::binning_index::index::header::Builder::vcf()
        .set_reference_sequence_names(names)
        .build();
    let unplaced = rng.chance(2, 3);
    let index: tabix::Index = build_index_lim::<LinearIndex>(rng, 14, 5, nref, Some(hdr), unplaced, (1 << 18) - 1);
    let mut w = tabix::io::Writer::new(Vec::new());
    w.write_index(&index).unwrap();
    w.into_inner().finish().unwrap()
}

/// a tabix file with sequence names in the header but NO reference sequence (built through the
/// public index builder; the writer accepts it)
pub fn tabix_file_no_refs(rng: &mut Rng) -> Vec<u8> {
    let n = rng.range(1, 4) as usize;
    let names: csi::binning_index::index::header::ReferenceSequenceNames = (0..n)
        .map(|i| {
            let k = rng.below(4) as usize;
            bstr::BString::from(format!("c{i}{}", bases(rng, k)))
        })
        .collect();
    let hdr = csi::binning_index::index::header::Builder::vcf()
        .set_reference_sequence_names(names)
        .build();
    let mut b = binning_index::Index::<LinearIndex>::builder().set_header(hdr).set_reference_sequences(Vec::new());
    if rng.chance(1, 2) {
        b = b.set_unplaced_unmapped_record_count(rng.below(1000));
    }
    let index: tabix::Index = b.build();
    let mut w = tabix::io::Writer::new(Vec::new());
    w.write_index(&index).unwrap();
    w.into_inner().finish().unwrap()
}

pub fn gzi_file(rng: &mut Rng) -> Vec<u8> {
    let n = rng.range(0, 8);
    let (mut c, mut u) = (0u64, 0u64);
    let v: Vec<(u64, u64)> = (0..n)
        .map(|_| {
            c += rng.range(28, 65536);
            u += rng.range(1, 65280);
            (c, u)
        })
        .collect();
    let index = bgzf::gzi::Index::from(v);
    let mut buf = Vec::new();
    bgzf::gzi::io::Writer::new(&mut buf).write_index(&index).unwrap();
    buf
}

pub fn fai_file(rng: &mut Rng) -> Vec<u8> {
    let n = rng.range(0, 5);
    let mut off = 0u64;
    let recs: Vec<fasta::fai::Record> = (0..n)
        .map(|i| {
            let lb = rng.range(1, 80);
            let len = rng.range(1, 100000);
            off += rng.range(4, 40);
            let r = fasta::fai::Record::new(
                format!("sq{i}"),
                len,
                off,
                NonZero::new(lb).unwrap(),
                NonZero::new(lb + 1 + rng.below(2)).unwrap(),
            );
            off += len + len / lb;
            r
        })
        .collect();
    let index = fasta::fai::Index::from(recs);
    let mut buf = Vec::new();
    fasta::fai::io::Writer::new(&mut buf).write_index(&index).unwrap();
    buf
}

pub fn crai_file(rng: &mut Rng) -> Vec<u8> {
    let n = rng.range(0, 6);
    crai_file_n(rng, n)
}

/// a .crai with n records written by crai::io::Writer (gzip, default level)
pub fn crai_file_n(rng: &mut Rng, n: u64) -> Vec<u8> {
    let mut off = 26u64;
    let recs: Vec<cram::crai::Record> = (0..n)
        .map(|_| {
            let r = if rng.chance(1, 5) {
                cram::crai::Record::new(None, None, 0, off, rng.below(500), rng.below(100000))
            } else {
                cram::crai::Record::new(
                    Some(rng.below(3) as usize),
                    Position::new(rng.range(1, 100000) as usize),
                    rng.below(100000) as usize,
                    off,
                    rng.below(500),
                    rng.below(100000),
                )
            };
            off += rng.range(100, 100000);
            r
        })
        .collect();
    let mut w = cram::crai::io::Writer::new(Vec::new());
    w.write_index(&recs).unwrap();
    w.finish().unwrap()
}

/// the fields of a hand-assembled gzip member (RFC 1952) around a text
pub struct GzOpts {
    pub extra: Option<Vec<u8>>,
    pub name: Option<Vec<u8>>,
    pub comment: Option<Vec<u8>>,
    pub hcrc: bool,
    pub ftext: bool,
    pub level: u32,
    pub mtime: u32,
    pub xfl: u8,
    pub os: u8,
    pub garbage: Vec<u8>,
}

/// header (ID1 ID2 CM FLG MTIME XFL OS [XLEN extra] [name NUL] [comment NUL] [CRC16]) ++ raw DEFLATE
/// stream of flate2's compressor at `level` (0 = stored blocks) ++ CRC32 ++ ISIZE ++ garbage
pub fn gz_member(text: &[u8], o: &GzOpts) -> Vec<u8> {
    use std::io::Write as _;
    let flg = (o.ftext as u8) | (o.hcrc as u8) << 1 | (o.extra.is_some() as u8) << 2 | (o.name.is_some() as u8) << 3 | (o.comment.is_some() as u8) << 4;
    let mut out = vec![0x1f, 0x8b, 8, flg];
    out.extend_from_slice(&o.mtime.to_le_bytes());
    out.push(o.xfl);
    out.push(o.os);
    if let Some(e) = &o.extra {
        out.extend_from_slice(&(e.len() as u16).to_le_bytes());
        out.extend_from_slice(e);
    }
    for f in [&o.name, &o.comment].into_iter().flatten() {
        out.extend(f.iter().map(|b| if *b == 0 { b'x' } else { *b }));
        out.push(0);
    }
    if o.hcrc {
        let mut c = flate2::Crc::new();
        c.update(&out);
        out.extend_from_slice(&((c.sum() & 0xffff) as u16).to_le_bytes());
    }
    let mut e = flate2::write::DeflateEncoder::new(Vec::new(), flate2::Compression::new(o.level));
    e.write_all(text).unwrap();
    out.extend_from_slice(&e.finish().unwrap());
    let mut c = flate2::Crc::new();
    c.update(text);
    out.extend_from_slice(&c.sum().to_le_bytes());
    out.extend_from_slice(&(text.len() as u32).to_le_bytes());
    out.extend_from_slice(&o.garbage);
    out
}

/// number of bytes flate2's single-member gzip decoder consumes from `file` (None: not a member)
pub fn gz_member_len(file: &[u8]) -> Option<usize> {
    use std::io::Read as _;
    let mut cur = std::io::Cursor::new(file);
    let mut text = Vec::new();
    {
        let mut d = flate2::bufread::GzDecoder::new(&mut cur);
        d.read_to_end(&mut text).ok()?;
    }
    Some(cur.position() as usize)
}
