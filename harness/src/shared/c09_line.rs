//! C09: whole record lines against the Coq model NV.Vcf.Line.
//!   line ver infodefs fmtdefs nsamples rec ftab valid
//!        rec = chrom&pos&ids&ref&alts&qual&filters&info&keys&rows (hex strings; lists ';'-joined, '~' = empty
//!        list; info items hexkey=spec; rows '!'-joined, values ';'-joined, '_' = a row without values)
//!        obs = hex(line)|eager|lazy|span(orig)/span(eager)/span(lazy)   or   WErr|span(orig)
//!   ltxt ver infodefs fmtdefs nsamples hextext ftab
//!        arbitrary text (with its line terminator) through both readers; obs = eager|lazy, each rec/span or Err
#![allow(dead_code)]

use super::rec::{Canon, canon, canon_lazy, expected_after_roundtrip, first_diff, gen_fdefs, gen_float, gen_sample_vals, gen_value, opt, span_of_pub, VERS};
use super::*;

fn lst(l: &[String]) -> String {
    if l.is_empty() { "~".into() } else { l.iter().map(|s| hex(s.as_bytes())).collect::<Vec<_>>().join(";") }
}

pub fn rec_str(c: &Canon) -> String {
    let info = if c.info.is_empty() {
        "~".to_string()
    } else {
        c.info.iter().map(|(k, v)| format!("{}={}", hex(k.as_bytes()), spec(v))).collect::<Vec<_>>().join(";")
    };
    let rows = if c.samples.is_empty() { "~".to_string() } else { c.samples.iter().map(|r| specs(r)).collect::<Vec<_>>().join("!") };
    [
        hex(c.chrom.as_bytes()),
        c.pos.to_string(),
        lst(&c.ids),
        hex(c.refb.as_bytes()),
        lst(&c.alts),
        c.qual.map(|b| b.to_string()).unwrap_or(".".into()),
        lst(&c.filters),
        info,
        lst(&c.keys),
        rows,
    ]
    .join("&")
}

fn ustr(h: &str) -> String {
    String::from_utf8(unhex(h)).expect("utf8")
}

fn unlst(s: &str) -> Vec<String> {
    if s == "~" { vec![] } else { s.split(';').map(ustr).collect() }
}

pub fn rec_parse(s: &str) -> Canon {
    let p: Vec<&str> = s.split('&').collect();
    Canon {
        chrom: ustr(p[0]),
        pos: p[1].parse().unwrap(),
        ids: unlst(p[2]),
        refb: ustr(p[3]),
        alts: unlst(p[4]),
        qual: if p[5] == "." { None } else { Some(p[5].parse().unwrap()) },
        filters: unlst(p[6]),
        info: if p[7] == "~" {
            vec![]
        } else {
            p[7].split(';').map(|kv| { let (k, v) = kv.split_once('=').unwrap(); (ustr(k), parse_spec(v)) }).collect()
        },
        keys: unlst(p[8]),
        samples: if p[9] == "~" {
            vec![]
        } else {
            p[9].split('!').map(|r| if r == "_" { vec![] } else { r.split(';').map(parse_spec).collect() }).collect()
        },
    }
}

pub fn build(c: &Canon) -> RecordBuf {
    let mut b = RecordBuf::builder()
        .set_reference_sequence_name(c.chrom.clone())
        .set_ids(c.ids.iter().cloned().collect())
        .set_reference_bases(c.refb.clone())
        .set_alternate_bases(c.alts.clone().into())
        .set_filters(c.filters.iter().cloned().collect())
        .set_info(c.info.iter().map(|(k, v)| (k.clone(), v.as_ref().map(to_binfo))).collect());
    if c.pos > 0 {
        b = b.set_variant_start(Position::try_from(c.pos).unwrap());
    }
    if let Some(q) = c.qual {
        b = b.set_quality_score(f32::from_bits(q));
    }
    let clear_pos = c.pos == 0;
    if !c.samples.is_empty() || !c.keys.is_empty() {
        let keys: Keys = c.keys.iter().cloned().collect();
        let rows = c.samples.iter().map(|r| r.iter().map(|v| v.as_ref().map(to_bsmp)).collect()).collect();
        b = b.set_samples(BSamples::new(keys, rows));
    }
    let mut rb = b.build();
    if clear_pos {
        *rb.variant_start_mut() = None; // the builder's default is Position::MIN
    }
    rb
}

/// the input class of the known lazy-reader panic: INFO ends with CR, then TAB, then the LF
fn info_cr_empty_rest(text: &[u8]) -> bool {
    let Some(i) = text.iter().position(|&b| b == b'\n') else { return false };
    let line = &text[..i];
    let ps: Vec<&[u8]> = line.split(|&b| b == b'\t').collect();
    (ps.len() == 9 && ps[8].is_empty() && ps[..8].concat().ends_with(b"\r")) || (ps.len() == 8 && ps[7].is_empty() && ps[..7].concat().ends_with(b"\r"))
}

fn lazy_panic_tag(text: &[u8]) -> &'static str {
    if info_cr_empty_rest(text) { "lazy-record-cr-before-empty-last-column-panic" } else { "line-reader-panic-lazy" }
}

fn defs3(s: &str) -> Vec<(String, String, String)> {
    if s == "-" {
        return vec![];
    }
    s.split(',').map(|d| { let p: Vec<&str> = d.split('/').collect(); (p[0].to_string(), p[1].to_string(), p[2].to_string()) }).collect()
}

fn header_of(c: &Case) -> std::io::Result<vcf::Header> {
    let ns: usize = c.args[3].parse().unwrap();
    let names: Vec<String> = (0..ns).map(|i| format!("s{i}")).collect();
    mk_header(&c.args[0], &defs3(&c.args[1]), &defs3(&c.args[2]), &names)
}

fn eager_text(header: &vcf::Header, text: &[u8]) -> R<RecordBuf> {
    g(|| {
        let mut r = vcf::io::Reader::new(text);
        let mut rb = RecordBuf::default();
        match r.read_record_buf(header, &mut rb) {
            Ok(0) => Err(()),
            Ok(_) => Ok(rb),
            Err(_) => Err(()),
        }
    })
}

fn lazy_text(header: &vcf::Header, text: &[u8]) -> R<(vcf::Record, Canon)> {
    g(|| {
        let mut r = vcf::io::Reader::new(text);
        let mut rec = vcf::Record::default();
        match r.read_record(&mut rec) {
            Ok(0) => Err(()),
            Ok(_) => {
                let c = canon_lazy(header, &rec).map_err(|_| ())?;
                Ok((rec, c))
            }
            Err(_) => Err(()),
        }
    })
}

/// the record the readers must return for a valid written record
pub fn expected(c: &Canon, ver: &str) -> Canon {
    let mut x = expected_after_roundtrip(c, ver);
    x.refb = c
        .refb
        .chars()
        .map(|b| match b {
            'W' | 'M' | 'R' | 'D' | 'H' | 'V' => 'A',
            'S' | 'Y' | 'B' => 'C',
            'K' => 'G',
            'w' | 'm' | 'r' | 'd' | 'h' | 'v' => 'a',
            's' | 'y' | 'b' => 'c',
            'k' => 'g',
            o => o,
        })
        .collect();
    // the writer writes at most as many values as there are FORMAT keys
    for row in x.samples.iter_mut() {
        row.truncate(x.keys.len());
    }
    x
}

pub fn run_line(c: &Case) -> Obs {
    let ver = c.args[0].as_str();
    let header = match header_of(c) {
        Ok(h) => h,
        Err(e) => return Obs::fail("-", "line-header-unparsable", format!("{e}")),
    };
    let orig = rec_parse(&c.args[4]);
    let valid = c.args[6] == "1";
    let rb = build(&orig);
    let s0 = span_of_pub(&header, &rb);
    let line = match write_line(&header, &rb) {
        R::Ok(l) => l,
        R::Err => {
            let o = Obs::ok(format!("WErr|{s0}"), true);
            return if valid { o.with_verdict(Err(("line-writer-rejects-valid".into(), c.args[4].clone()))) } else { o };
        }
        R::Panic => return Obs::fail("Panic", "line-writer-panic", &c.args[4]),
    };
    let text = format!("{line}\n");
    let e = eager_text(&header, text.as_bytes());
    let l = lazy_text(&header, text.as_bytes());
    if matches!(e, R::Panic) {
        return Obs::fail("Panic", "line-reader-panic-eager", &line);
    }
    if matches!(l, R::Panic) {
        return Obs::fail("Panic", lazy_panic_tag(text.as_bytes()), &line);
    }
    let (es, se, ec) = match &e {
        R::Ok(rb2) => { let cn = canon(rb2); (rec_str(&cn), span_of_pub(&header, rb2), Some(cn)) }
        _ => ("Err".to_string(), "-".to_string(), None),
    };
    let (ls, sl, lc) = match &l {
        R::Ok((rec, cn)) => (rec_str(cn), span_of_pub(&header, rec), Some(cn.clone())),
        _ => ("Err".to_string(), "-".to_string(), None),
    };
    let obs = format!("{}|{es}|{ls}|{s0}/{se}/{sl}", hex(line.as_bytes()));
    let verdict = (|| {
        // lazy = eager on every line the writer produced from a record with the header's number of
        // samples (the eager reader reads exactly the header's sample columns, the lazy one all)
        let ns_hdr: usize = c.args[3].parse().unwrap();
        // (records of the edge classes hold values outside the property's quantifier -- e.g. an empty
        // String under an array key, which the two readers show differently -- so only the valid
        // records and the former-defect class of samples without FORMAT keys are held to it)
        let keyless = orig.keys.is_empty() && !orig.samples.is_empty() && orig.samples.iter().all(|r| r.is_empty());
        if let (Some(ec), Some(lc), true) = (&ec, &lc, orig.samples.len() == ns_hdr && (valid || keyless)) {
            if let Some(f) = first_diff(ec, lc) {
                let tag = if orig.keys.is_empty() && !orig.samples.is_empty() {
                    "lazy-samples-dropped-format-missing".to_string()
                } else {
                    format!("line-{f}-lazy-ne-eager")
                };
                return Err((tag, format!("{line} :: eager {ec:?} lazy {lc:?}")));
            }
        }
        if !valid {
            return Ok(());
        }
        let want = expected(&orig, ver);
        let Some(ec) = ec else { return Err(("line-unreadable-eager".to_string(), line.clone())) };
        let Some(lc) = lc else { return Err(("line-unreadable-lazy".to_string(), line.clone())) };
        if let Some(f) = first_diff(&want, &ec) {
            return Err((format!("line-{f}-roundtrip-eager"), format!("{line} :: {want:?} vs {ec:?}")));
        }
        if let Some(f) = first_diff(&want, &lc) {
            return Err((format!("line-{f}-roundtrip-lazy"), format!("{line} :: {want:?} vs {lc:?}")));
        }
        if se != s0 || sl != s0 {
            return Err((format!("line-span-changed-by-roundtrip-v{ver}"), format!("{line} :: {s0} {se} {sl}")));
        }
        Ok(())
    })();
    Obs::ok(obs, true).with_verdict(verdict)
}

pub fn run_ltxt(c: &Case) -> Obs {
    let header = match header_of(c) {
        Ok(h) => h,
        Err(e) => return Obs::fail("-", "ltxt-header-unparsable", format!("{e}")),
    };
    let text = unhex(&c.args[4]);
    let e = eager_text(&header, &text);
    let l = lazy_text(&header, &text);
    if matches!(e, R::Panic) {
        return Obs::fail("Panic", "ltxt-reader-panic-eager", &c.args[4]);
    }
    let es = match &e {
        R::Ok(rb) => format!("{}/{}", rec_str(&canon(rb)), span_of_pub(&header, rb)),
        _ => "Err".to_string(),
    };
    let ls = match &l {
        R::Ok((rec, cn)) => format!("{}/{}", rec_str(cn), span_of_pub(&header, rec)),
        R::Panic => "Panic".to_string(),
        _ => "Err".to_string(),
    };
    if matches!(l, R::Panic) {
        return Obs::fail(format!("{es}|{ls}"), lazy_panic_tag(&text), &c.args[4]);
    }
    Obs::ok(format!("{es}|{ls}"), true)
}

// -------------------------------------------------------------------------------------------
// generators

pub const CHROMS_OK: &[&str] = &["sq0", "chr1", "1", "X", "<CTG1>", "HLA-A*01:01", "chrUn_KI270302v1", "a|b;c=d", "MT", "<a>", "c.1"];
const CHROMS_BAD: &[&str] = &["", "*a", "=a", "<>", "<", "a b", "a,b", "a\tb", "<a", "a>", "<<a>>", "a<b", "{x}", "\u{e9}"];
pub const IDS_OK: &[&str] = &["rs123", "rs6054257", "id.2", "a=b", "x,y", "esv1:2", "\u{e9}1", "COSM%1", "\"q\"", "..", ".a", "PASS"];
const IDS_EDGE: &[&str] = &["", ".", "a;b", "a b", "a\tb", "a\rb", "\r", "x\u{b}"];
pub const ALTS_OK: &[&str] = &[
    "A", "C", "GT", "ACGTN", "a", "<DEL>", "<DUP:TANDEM>", "<INS:ME:ALU>", "<*>", "*", "G]17:198982]", "]13:123456]T", "C[2:321682[",
    "[17:198983[A", ".A", "G.", "<NON_REF>", "<CN0>", "G]<ctg1>:7]", "a;b", "a=b",
];
const ALTS_EDGE: &[&str] = &["", ".", "A,C", "A C", "A\tC", "\r"];
pub const FILTERS_OK: &[&str] = &["q10", "s50", "LowQual", "PASS2", "f.1", "a=b", "x,y", "PASS", "pass"];
const FILTERS_EDGE: &[&str] = &["", ".", "a;b", "a b", "q\n"];
const REFS_EDGE: &[&str] = &["", "R", "acgtnRYKMSWBDHV", "rykmswbdhv", "X", "A.", "A C", "U", "*"];

pub fn distinct(rng: &mut Rng, n: usize, pool: &[&str]) -> Vec<String> {
    let mut out: Vec<String> = vec![];
    let mut tries = 0;
    while out.len() < n && tries < 50 {
        let x = rng.pick(pool).to_string();
        if !out.contains(&x) {
            out.push(x);
        }
        tries += 1;
    }
    out
}

fn defs_str(d: &[(String, String, String)]) -> String {
    if d.is_empty() { "-".into() } else { d.iter().map(|(k, n, t)| format!("{k}/{n}/{t}")).collect::<Vec<_>>().join(",") }
}

pub fn all_floats(c: &Canon) -> String {
    let mut vs: Vec<OV> = vec![];
    if let Some(q) = c.qual {
        vs.push(Some(V::Float(q)));
    }
    for (_, v) in &c.info {
        vs.push(v.clone());
    }
    for r in &c.samples {
        vs.extend(r.iter().cloned());
    }
    ftab(&vs)
}

/// mode 0: a record the property quantifies over; mode 1: one or more edge classes mixed in
pub fn gen_line(rng: &mut Rng, ver: &str, mode: u64, w: &mut CaseWriter) {
    let edge = mode == 1;
    let reserved = rng.chance(1, 3);
    let mut infos: Vec<(String, String, String)> = vec![];
    for i in 0..rng.range(0, 4) {
        let ty = *rng.pick(&["I", "F", "C", "S", "B"]);
        let num = if ty == "B" { "0" } else if rng.chance(1, 2) { "1" } else { *rng.pick(&["2", "3", "A", "R", "G", "."]) };
        infos.push((format!("I{i}"), num.into(), ty.into()));
    }
    let pos = match rng.below(8) { 0 => 0usize, 1 => 1, 2 => usize::MAX >> rng.below(2), _ => rng.range(1, 300000000) as usize };
    if rng.chance(1, 3) && pos < (1 << 30) {
        infos.push(("END".into(), "1".into(), "I".into()));
    }
    if rng.chance(1, 3) {
        infos.push(("SVLEN".into(), svlen_number(ver).into(), "I".into()));
    }
    let nsamples = if rng.chance(1, 4) { 0 } else { rng.range(1, 3) as usize };
    let with_gt = rng.chance(2, 3);
    let nf = rng.range(if with_gt { 0 } else { 1 }, 3) as usize;
    let mut formats = gen_fdefs(rng, with_gt, nf);
    if rng.chance(1, 3) {
        formats.push(FDef { key: "LEN".into(), num: "1".into(), ty: "I".into() });
    }
    let fmts3: Vec<(String, String, String)> = formats.iter().map(|d| (d.key.clone(), d.num.clone(), d.ty.clone())).collect();

    let mut c = Canon {
        chrom: rng.pick(CHROMS_OK).to_string(),
        pos,
        ids: { let n = *rng.pick(&[0usize, 0, 1, 1, 2, 3]); distinct(rng, n, IDS_OK) },
        refb: (0..rng.range(1, 5)).map(|_| *rng.pick(&['A', 'C', 'G', 'T', 'N', 'a', 'c', 'g', 't', 'n'])).collect(),
        alts: { let n = *rng.pick(&[0usize, 1, 1, 1, 2, 3]); (0..n).map(|_| rng.pick(ALTS_OK).to_string()).collect() },
        qual: if rng.chance(1, 4) { None } else { Some(gen_float(rng, false)) },
        filters: match rng.below(4) { 0 => vec![], 1 => vec!["PASS".into()], _ => { let n = rng.range(1, 3) as usize; distinct(rng, n, FILTERS_OK) } },
        info: vec![],
        keys: vec![],
        samples: vec![],
    };
    let mut order: Vec<usize> = (0..infos.len()).collect();
    for i in (1..order.len()).rev() {
        order.swap(i, rng.below(i as u64 + 1) as usize);
    }
    for i in order {
        if rng.chance(1, 3) {
            continue;
        }
        let (k, num, ty) = &infos[i];
        let v = if k == "END" {
            if rng.chance(1, 8) { None } else { Some(V::Int((pos.max(1) as u64 + rng.below(5000)) as i32)) }
        } else if k == "SVLEN" {
            if rng.chance(1, 6) { None } else { Some(V::AI((0..rng.range(1, 3)).map(|i| if i > 0 && rng.chance(1, 4) { None } else { Some(rng.range(0, 9000) as i32) }).collect())) }
        } else {
            gen_value(rng, true, num, ty, false, reserved)
        };
        if has_nonascii_char(&v) {
            continue;
        }
        c.info.push((k.clone(), v));
    }
    if rng.chance(1, 5) {
        // keys the header does not define (and no reserved definition: lower case)
        let v = match rng.below(3) { 0 => Some(V::Flag), 1 => None, _ => Some(V::Str(rng.pick(&["x", "a b", "1,2", "k=v", "50%", ".."]).to_string())) };
        c.info.push((format!("u{}", rng.below(3)), v));
    }
    if nsamples > 0 {
        let keep: Vec<FDef> = formats.iter().filter(|d| d.key == "GT" || rng.chance(3, 4)).cloned().collect();
        let keep = if keep.is_empty() { formats.clone() } else { keep };
        c.keys = keep.iter().map(|d| d.key.clone()).collect();
        let allow_empty = rng.chance(1, 4);
        c.samples = (0..nsamples)
            .map(|_| {
                let mut vals = gen_sample_vals(rng, ver, &keep, false, reserved, allow_empty);
                for (d, v) in keep.iter().zip(vals.iter_mut()) {
                    if d.key == "LEN" {
                        *v = opt(rng, |r| V::Int(r.range(0, 9000) as i32));
                    }
                    if has_nonascii_char(v) || matches!(v, Some(V::Str(s)) if s.is_empty()) {
                        *v = None;
                    }
                }
                vals
            })
            .collect();
    }
    if nsamples > 0 && rng.chance(1, 10) {
        // samples without FORMAT keys: written ". . .", read back by both readers (6449b9b)
        c.keys.clear();
        for r in c.samples.iter_mut() {
            r.clear();
        }
    }
    let mut valid = true;
    let mut ns_hdr = nsamples;
    if edge {
        valid = false;
        for _ in 0..rng.range(1, 2) {
            match rng.below(16) {
                0 => c.chrom = rng.pick(CHROMS_BAD).to_string(),
                1 => c.ids = { let mut v = distinct(rng, 1, IDS_EDGE); if rng.chance(1, 2) { v.extend(distinct(rng, 1, IDS_OK)); } v },
                2 => c.refb = rng.pick(REFS_EDGE).to_string(),
                3 => c.alts = { let mut v = distinct(rng, 1, ALTS_EDGE); if rng.chance(1, 2) { v.push(rng.pick(ALTS_OK).to_string()); } v },
                4 => c.filters = { let mut v = distinct(rng, 1, FILTERS_EDGE); if rng.chance(1, 2) { v.extend(distinct(rng, 1, FILTERS_OK)); } v },
                5 => {
                    let k = rng.pick(&["1000G", "9x", "a-b", "", ".", "a=b", "k;l", "_ok", "x.y", "\u{e9}"]).to_string();
                    if k == "1000G" {
                        // reserved: Number=0, Type=Flag (the model is given the effective definitions)
                        infos.push(("1000G".into(), "0".into(), "B".into()));
                        c.info.push((k, if rng.chance(1, 4) { None } else { Some(V::Flag) }));
                    } else {
                        c.info.push((k, if rng.chance(1, 2) { Some(V::Flag) } else { Some(V::Str("v".into())) }));
                    }
                }
                6 => {
                    // GT not first / invalid or unusual FORMAT keys
                    if !c.samples.is_empty() {
                        match rng.below(3) {
                            0 => { if !c.keys.contains(&"GT".to_string()) { c.keys.push("GT".into()); } else { c.keys.rotate_left(1); } }
                            1 => c.keys.push(rng.pick(&["9k", "a:b", "", ".", "a b"]).to_string()),
                            _ => c.keys.push(rng.pick(&["zz", "_u", "X.1"]).to_string()),
                        }
                    }
                }
                7 => { let nk = c.keys.len(); for r in c.samples.iter_mut() { while r.len() < nk { r.push(None); } r.push(Some(V::Int(7))); r.push(None); } }   // rows longer than the keys
                8 => c.keys.clear(),                                                                    // samples without FORMAT keys
                9 => ns_hdr = if nsamples == 0 { 1 } else if rng.chance(1, 2) { nsamples + 1 } else { nsamples - 1 },
                10 => { if let Some(r) = c.samples.first_mut() { r.clear(); r.push(Some(V::Str(String::new()))); } }
                11 => c.samples.clear(),                                                                 // keys but no samples
                12 => { if let Some(r) = c.samples.first_mut() { *r = vec![None]; } }
                13 => c.info.push(("I0".into(), Some(V::Str("mistyped".into())))),
                14 => { if !infos.iter().any(|(k, _, _)| k == "END") { infos.push(("END".into(), "1".into(), "I".into())); } c.info.retain(|(k, _)| k != "END"); c.info.push(("END".into(), Some(V::Int(rng.range(0, 40) as i32 - 5)))); }
                _ => c.qual = Some(*rng.pick(&[0x7fc0_0000u32, 0xffc0_0000, 0x7f80_0000, 0xff80_0000, 0, 0x8000_0000])),
            }
        }
        // the type invariants of RecordBuf (sets / maps) must still hold for the model's input
        let mut seen = std::collections::HashSet::new();
        c.info.retain(|(k, _)| seen.insert(k.clone()));
        let mut seen = std::collections::HashSet::new();
        c.keys.retain(|k| seen.insert(k.clone()));
        let mut seen = std::collections::HashSet::new();
        c.ids.retain(|k| seen.insert(k.clone()));
        let mut seen = std::collections::HashSet::new();
        c.filters.retain(|k| seen.insert(k.clone()));
    }
    w.push(
        "line",
        vec![ver.into(), defs_str(&infos), defs_str(&fmts3), ns_hdr.to_string(), rec_str(&c), all_floats(&c), (valid as u8).to_string()],
    );
}

pub const LTXT_LINES: &[&str] = &[
    "sq0\t1\t.\tA\t.\t.\t.\t.\n",
    "sq0\t1\t.\tA\t.\t.\t.\t.\r\n",
    "sq0\t1\t.\tA\t.\t.\t.\t.",
    "sq0\t1\t.\tA\t.\t.\t.\t.\t\n",
    "sq0\t1\t.\tA\t.\t.\t.\n",
    "sq0\t1\n",
    "\n",
    "sq0\t0\ta;b\tACGT\tA,<DEL>\t.\tPASS\tI0=5;u1;u2=x%3By\tGT:F0\t0/1:3\t.\n",
    "sq0\t+7\t.\tA\t.\t.\tq10;q10\tI0=5\tGT\t0/1\t0|1\n",
    "sq0\t00\t.\tA\t.\t.\t.\t.\tGT\t0/1\t0|1\n",
    "sq0\t18446744073709551615\t.\tA\t.\t.\t.\t.\tGT\t0/1\t0|1\n",
    "sq0\t18446744073709551616\t.\tA\t.\t.\t.\t.\tGT\t0/1\t0|1\n",
    "sq0\t5\ta;a\tA\t.\t.\t.\t.\tGT\t0/1\t0|1\n",
    "sq0\t5\ta;;b\tA\t,\t.\t;\t.\tGT\t0/1\t0|1\n",
    "sq0\t5\t\tA\t\t\t\t\tGT\t0/1\t0|1\n",
    "sq0\t5\t.\t\t.\t.\t.\t.\tGT\t0/1\t0|1\n",
    "sq0\t5\t.\tA\t.\t.\t.\tI0=1;\tGT\t0/1\t0|1\n",
    "sq0\t5\t.\tA\t.\t.\t.\t;I0=1\tGT\t0/1\t0|1\n",
    "sq0\t5\t.\tA\t.\t.\t.\tI0=1;;u1\tGT\t0/1\t0|1\n",
    "sq0\t5\t.\tA\t.\t.\t.\t=4\tGT\t0/1\t0|1\n",
    "sq0\t5\t.\tA\t.\t.\t.\tI0=1;I0=2\tGT\t0/1\t0|1\n",
    "sq0\t5\t.\tA\t.\t.\t.\tI0\tGT\t0/1\t0|1\n",
    "sq0\t5\t.\tA\t.\t.\t.\tu1=.;u2=;u3\tGT\t0/1\t0|1\n",
    "sq0\t5\t.\tA\t.\t.\t.\t.\t.\t.\t.\n",
    "sq0\t5\t.\tA\t.\t.\t.\t.\t.\t0/1\t1\n",
    "sq0\t5\t.\tA\t.\t.\t.\t.\tGT\n",
    "sq0\t5\t.\tA\t.\t.\t.\t.\tGT\t\n",
    "sq0\t5\t.\tA\t.\t.\t.\t.\tGT\t0/1\n",
    "sq0\t5\t.\tA\t.\t.\t.\t.\tGT\t0/1\t\n",
    "sq0\t5\t.\tA\t.\t.\t.\t.\tGT\t0/1\t\t\n",
    "sq0\t5\t.\tA\t.\t.\t.\t.\tGT\t0/1\t\t0|1\n",
    "sq0\t5\t.\tA\t.\t.\t.\t.\tGT\t0/1\t0|1\t1/1\n",
    "sq0\t5\t.\tA\t.\t.\t.\t.\tGT:\t0/1\t0|1\n",
    "sq0\t5\t.\tA\t.\t.\t.\t.\tGT::\t0/1\t0|1\n",
    "sq0\t5\t.\tA\t.\t.\t.\t.\t:GT\t0/1\t0|1\n",
    "sq0\t5\t.\tA\t.\t.\t.\t.\tGT:GT\t0/1\t0|1\n",
    "sq0\t5\t.\tA\t.\t.\t.\t.\tGT:F0:zz\t0/1:5:x%3Ay\t0|1:.:.\n",
    "sq0\t5\t.\tA\t.\t.\t.\t.\tF0:GT\t5:0/1\t.:0|1\n",
    "sq0\t5\t.\tA\t.\t.\t.\t.\tGT:F0\t0/1:5:6\t0|1\n",
    "sq0\t5\t.\tACGT\t<DEL>\t.\t.\tEND=9;SVLEN=7,.\tGT:LEN\t0/1:12\t0|1:.\n",
    "sq0\t5\t.\tACGT\t<DEL>\t.\t.\tSVLEN=-7\tLEN\t-1\t3\n",
    "sq0\t5\t.\tACGT\t<DEL>\t.\t.\tEND=2\tLEN\t1\t3\n",
    "sq0\t5\t.\tACGT\t<DEL>\t.\t.\tEND=x\tLEN\t1\t3\n",
    "sq0\t5\t.\tACGT\t<DEL>\t.\t.\tEND=.\tLEN:GT\t1\t3\n",
    "sq0\t5\t.\tA\t.\t1e3\t.\t.\tGT\t0/1\t0|1\n",
    "sq0\t5\t.\tA\t.\tnan\t.\t.\tGT\t0/1\t0|1\n",
    "sq0\t5\t.\tA\t.\t1.5x\t.\t.\tGT\t0/1\t0|1\n",
    "sq0\t5\t.\tA\t.\t.\tPASS;q10\t.\tGT\t0/1\t0|1\n",
    "sq0\t5\t.\tA\t.\t.\t.\t.\tGT\t0/1\t0|1\r\n",
    "sq0\t5\t.\tA\t.\t.\t.\t.\tGT\t0/1\t0|1\r\r\n",
    "sq0\t5\t.\tA\t.\t.\t.\tu1=a\rb\tGT\t0/1\t0|1\n",
    // the known lazy-record panic class: INFO ends with CR, then TAB, then LF
    "sq0\t1\t.\tA\t.\t.\t.\t.\r\t\n",
    "sq0\t1\t.\tA\t.\t.\t.\tu1\r\t\n",
    "sq0\t1\t.\tA\t.\t.\t.\tu1\r\t\r\n",
    "sq0\tx\t.\tA\t.\t.\t.\tu1\r\t\n",
    "sq0\t1\t.\tA\t.\t.\tq\r\t\n",
    "sq0\t1\t.\tA\t.\t.\tq\r\t\r\n",
    "sq0\t1\t.\tA\t.\t.\r\t\t\n",
    "sq0\t1\t.\tA\t.\tzz\r\t\t\n",
    "sq0\tx\t.\tA\r\t\t\t\t\n",
    "sq0\t1\r\t\t\t\t\t\t\n",
    "sq0\r\t\t\t\t\t\t\t\n",
    "\r\t\t\t\t\t\t\t\n",
    "sq0\t1\t.\tA\t.\tzz\tq\r\t\n",
];

fn qual_ftab(text: &[u8]) -> String {
    let line = text.split(|&b| b == b'\n').next().unwrap_or(&[]);
    let line = if line.ends_with(b"\r") { &line[..line.len() - 1] } else { line };
    let q = line.split(|&b| b == b'\t').nth(5).unwrap_or(&[]);
    match std::str::from_utf8(q).ok().and_then(|t| t.parse::<f32>().ok()) {
        Some(f) if !q.is_empty() => format!("{0}:{1}:{0}", f.to_bits(), hex(q)),
        _ => "-".into(),
    }
}

pub fn gen_ltxt(rng: &mut Rng, w: &mut CaseWriter, n_mut: usize) {
    let infos = "I0/1/I,END/1/I,SVLEN/./I";
    let fmts = "GT/1/S,F0/1/I,LEN/1/I";
    let mut push = |w: &mut CaseWriter, ver: &str, ns: usize, t: &[u8]| {
        let sv = if matches!(ver, "4.4" | "4.5") { infos.replace("SVLEN/.", "SVLEN/A") } else { infos.to_string() };
        w.push("ltxt", vec![ver.into(), sv, fmts.into(), ns.to_string(), hex(t), qual_ftab(t)]);
    };
    for t in LTXT_LINES {
        for (ver, ns) in [("4.3", 2usize), ("4.5", 2), ("4.4", 0)] {
            push(w, ver, ns, t.as_bytes());
        }
    }
    // mutations: delete / duplicate / replace one byte by a separator
    for _ in 0..n_mut {
        let mut t = rng.pick(LTXT_LINES).as_bytes().to_vec();
        for _ in 0..rng.range(1, 2) {
            if t.is_empty() {
                break;
            }
            let i = rng.below(t.len() as u64) as usize;
            match rng.below(4) {
                0 => { t.remove(i); }
                1 => { let b = t[i]; t.insert(i, b); }
                2 => t[i] = *rng.pick(b"\t;:=,./|.0%"),
                _ => t.insert(i, *rng.pick(b"\t;:=,./|.0%\r")),
            }
        }
        if !t.contains(&b'\n') {
            t.push(b'\n'); // a last line without LF and with fewer than eight columns is not modelled
        }
        let ver = *rng.pick(VERS);
        let ns = *rng.pick(&[0usize, 1, 2, 2, 3]);
        push(w, ver, ns, &t);
    }
}

// -------------------------------------------------------------------------------------------
// multi: several records written into one file and read back through ONE reused RecordBuf, through
// the record_bufs() iterator and through ONE reused lazy Record; every record must equal what a
// fresh buffer gives for its line (and what the single-line model gives: the obs)
//   multi ver infodefs fmtdefs ns rec^rec^... ftab
//   obs = per record hex(line)|eager|lazy (WErr when the writer rejects it), joined by '^'

fn fresh_eager(header: &vcf::Header, line: &str) -> Option<Canon> {
    match eager_text(header, format!("{line}\n").as_bytes()) {
        R::Ok(rb) => Some(canon(&rb)),
        _ => None,
    }
}

fn fresh_lazy(header: &vcf::Header, line: &str) -> Option<Canon> {
    match lazy_text(header, format!("{line}\n").as_bytes()) {
        R::Ok((_, c)) => Some(c),
        _ => None,
    }
}

pub fn run_multi(c: &Case) -> Obs {
    let header = match header_of(c) {
        Ok(h) => h,
        Err(e) => return Obs::fail("-", "multi-header-unparsable", format!("{e}")),
    };
    let recs: Vec<Canon> = c.args[4].split('^').map(rec_parse).collect();
    let mut lines: Vec<Option<String>> = vec![];
    for r in &recs {
        match write_line(&header, &build(r)) {
            R::Ok(l) => lines.push(Some(l)),
            R::Err => lines.push(None),
            R::Panic => return Obs::fail("Panic", "multi-writer-panic", &c.args[4]),
        }
    }
    let written: Vec<&String> = lines.iter().flatten().collect();
    let mut text = String::new();
    for l in &written {
        text.push_str(l);
        text.push('\n');
    }
    // one RecordBuf for the whole file
    let reused: R<Vec<Option<Canon>>> = g(|| {
        let mut r = vcf::io::Reader::new(text.as_bytes());
        let mut rb = RecordBuf::default();
        let mut out = vec![];
        for _ in 0..written.len() {
            match r.read_record_buf(&header, &mut rb) {
                Ok(0) => break,
                Ok(_) => out.push(Some(canon(&rb))),
                Err(_) => out.push(None),
            }
        }
        Ok(out)
    });
    let iter: R<Vec<Option<Canon>>> = g(|| {
        let mut r = vcf::io::Reader::new(text.as_bytes());
        Ok(r.record_bufs(&header).map(|x| x.ok().map(|rb| canon(&rb))).collect())
    });
    let lazy: R<Vec<Option<Canon>>> = g(|| {
        let mut r = vcf::io::Reader::new(text.as_bytes());
        let mut rec = vcf::Record::default();
        let mut out = vec![];
        for _ in 0..written.len() {
            match r.read_record(&mut rec) {
                Ok(0) => break,
                Ok(_) => out.push(canon_lazy(&header, &rec).ok()),
                Err(_) => out.push(None),
            }
        }
        Ok(out)
    });
    let (R::Ok(reused), R::Ok(iter), R::Ok(lazy)) = (reused, iter, lazy) else {
        return Obs::fail("Panic", "multi-reader-panic", text.replace('\n', "\\n"));
    };
    let show = |o: &Option<Canon>| o.as_ref().map(rec_str).unwrap_or("Err".into());
    let mut obs: Vec<String> = vec![];
    let mut verdict: Result<(), (String, String)> = Ok(());
    let mut j = 0;
    for l in &lines {
        let Some(l) = l else { obs.push("WErr".into()); continue };
        let (re, rl) = (reused.get(j).cloned().flatten(), lazy.get(j).cloned().flatten());
        obs.push(format!("{}|{}|{}", hex(l.as_bytes()), show(&re), show(&rl)));
        if verdict.is_ok() {
            let (fe, fl) = (fresh_eager(&header, l), fresh_lazy(&header, l));
            let it = iter.get(j).cloned().flatten();
            let diff = |a: &Option<Canon>, b: &Option<Canon>| match (a, b) {
                (Some(x), Some(y)) => first_diff(x, y),
                (None, None) => None,
                _ => Some("outcome"),
            };
            if let Some(f) = diff(&re, &fe) {
                verdict = Err((format!("eager-reused-recordbuf-keeps-previous-{f}"), format!("record {j} of {} :: reused {} fresh {}", text.replace('\n', "\\n"), show(&re), show(&fe))));
            } else if let Some(f) = diff(&it, &fe) {
                verdict = Err((format!("record-bufs-iterator-keeps-previous-{f}"), format!("record {j} of {} :: iterator {} fresh {}", text.replace('\n', "\\n"), show(&it), show(&fe))));
            } else if let Some(f) = diff(&rl, &fl) {
                verdict = Err((format!("lazy-reused-record-keeps-previous-{f}"), format!("record {j} of {} :: reused {} fresh {}", text.replace('\n', "\\n"), show(&rl), show(&fl))));
            }
        }
        j += 1;
    }
    Obs::ok(obs.join("^"), written.len() > 1).with_verdict(verdict)
}

pub fn gen_multi(rng: &mut Rng, ver: &str, w: &mut CaseWriter) {
    let infos: Vec<(String, String, String)> = vec![("I0".into(), "1".into(), "I".into()), ("I1".into(), ".".into(), "S".into()), ("I2".into(), "0".into(), "B".into())];
    let formats = vec![
        FDef { key: "GT".into(), num: "1".into(), ty: "S".into() },
        FDef { key: "GQ".into(), num: "1".into(), ty: "I".into() },
        FDef { key: "F2".into(), num: ".".into(), ty: rng.pick(&["I", "S", "C"]).to_string() },
    ];
    let fmts3: Vec<(String, String, String)> = formats.iter().map(|d| (d.key.clone(), d.num.clone(), d.ty.clone())).collect();
    let ns = rng.range(1, 3) as usize;
    let nrec = rng.range(2, 5) as usize;
    let mut recs: Vec<Canon> = vec![];
    for i in 0..nrec {
        // records alternate between "rich" and "poor" in every column, so that anything a reused
        // buffer fails to clear shows up in the next record
        let rich = (i % 2 == 0) ^ rng.chance(1, 5);
        let mut c = Canon {
            chrom: rng.pick(CHROMS_OK).to_string(),
            pos: if rich { rng.range(1, 100000) as usize } else { *rng.pick(&[0usize, 1, 7]) },
            ids: if rich { distinct(rng, 2, IDS_OK) } else { vec![] },
            refb: if rich { "ACGT".into() } else { "N".into() },
            alts: if rich { vec!["<DEL>".into(), "A".into()] } else { vec![] },
            qual: if rich { Some(gen_float(rng, false)) } else { None },
            filters: if rich { distinct(rng, 2, FILTERS_OK) } else if rng.chance(1, 2) { vec!["PASS".into()] } else { vec![] },
            info: vec![],
            keys: vec![],
            samples: vec![],
        };
        if rich {
            c.info.push(("I0".into(), Some(V::Int(rng.range(0, 99) as i32))));
            c.info.push(("I1".into(), Some(V::AS(vec![Some("a".into()), None]))));
            c.info.push(("I2".into(), Some(V::Flag)));
        } else if rng.chance(1, 2) {
            c.info.push(("I2".into(), Some(V::Flag)));
        }
        // FORMAT: all keys / a prefix / none
        let nk = if rich { 3 } else { *rng.pick(&[0usize, 1, 2, 3]) };
        let keep: Vec<FDef> = formats.iter().take(nk).cloned().collect();
        c.keys = keep.iter().map(|d| d.key.clone()).collect();
        c.samples = (0..ns)
            .map(|_| {
                if nk == 0 {
                    return vec![];
                }
                let mode = if rich { 3 } else { rng.below(4) };
                let mut vals = gen_sample_vals(rng, ver, &keep, false, false, false);
                for v in vals.iter_mut() {
                    if has_nonascii_char(v) || matches!(v, Some(V::Str(s)) if s.is_empty()) {
                        *v = None;
                    }
                }
                match mode {
                    0 => vec![],                                    // written "."
                    1 => vec![None],                                // written "."
                    2 => { vals.truncate(1); vals }                 // fewer values
                    _ => vals,
                }
            })
            .collect();
        recs.push(c);
    }
    let mut all: Vec<OV> = vec![];
    for c in &recs {
        if let Some(q) = c.qual {
            all.push(Some(V::Float(q)));
        }
        for r in &c.samples {
            all.extend(r.iter().cloned());
        }
    }
    w.push(
        "multi",
        vec![ver.into(), defs_str(&infos), defs_str(&fmts3), ns.to_string(), recs.iter().map(rec_str).collect::<Vec<_>>().join("^"), ftab(&all)],
    );
}

// -------------------------------------------------------------------------------------------
// lzb: the lazy Record at the level of its buffer and bounds (NV.Vcf.LazyRec): arbitrary BYTES
// (several lines, a last line without LF, fewer than eight columns, CR anywhere, invalid UTF-8,
// empty input) read with read_record into ONE reused Record until Ok(0) or Err.
//   lzb ver infodefs fmtdefs ns hextext ftab
//   obs = per call: Err | Eof | Panic | n|chrom,ids,ref,alts,filters,info,samples (hex of the
//         accessor texts = the slices of the buffer)|record of the forced views or Err ; '^'-joined

fn accessor_texts(rec: &vcf::Record) -> String {
    let ids = rec.ids();
    let alts = rec.alternate_bases();
    let filters = rec.filters();
    let info = rec.info();
    let samples = rec.samples();
    let v: Vec<&str> = vec![
        rec.reference_sequence_name(),
        ids.as_ref(),
        rec.reference_bases(),
        alts.as_ref(),
        filters.as_ref(),
        info.as_ref(),
        samples.as_ref(),
    ];
    v.iter().map(|s| hex(s.as_bytes())).collect::<Vec<_>>().join(",")
}

pub fn run_lzb(c: &Case) -> Obs {
    let header = match header_of(c) {
        Ok(h) => h,
        Err(e) => return Obs::fail("-", "lzb-header-unparsable", format!("{e}")),
    };
    let text = unhex(&c.args[4]);
    let mut reader = vcf::io::Reader::new(&text[..]);
    let mut rec = vcf::Record::default();
    let mut out: Vec<String> = vec![];
    let mut panicked = false;
    let mut consumed = 0usize;
    loop {
        let r = g(|| reader.read_record(&mut rec).map_err(|_| ()));
        match r {
            R::Panic => { out.push("Panic".into()); panicked = true; break; }
            R::Err => { out.push("Err".into()); break; }
            R::Ok(0) => { out.push("Eof".into()); break; }
            R::Ok(n) => {
                consumed += n;
                // every accessor, each behind the panic guard
                let texts = g(|| Ok(accessor_texts(&rec)));
                let view = g(|| canon_lazy(&header, &rec).map_err(|_| ()));
                // the Debug impl forces every accessor once more
                let dbg = g(|| Ok(format!("{rec:?}").len()));
                let t = match texts { R::Ok(t) => t, _ => { out.push("Panic".into()); panicked = true; break; } };
                let v = match view { R::Ok(cn) => rec_str(&cn), R::Err => "Err".into(), R::Panic => { out.push("Panic".into()); panicked = true; break; } };
                if matches!(dbg, R::Panic) { out.push("Panic".into()); panicked = true; break; }
                out.push(format!("{n}|{t}|{v}"));
                if consumed > text.len() {
                    return Obs::fail(out.join("^"), "lzb-read-record-count-exceeds-input", &c.args[4]);
                }
            }
        }
    }
    let obs = out.join("^");
    if panicked {
        return Obs::fail(obs, lazy_panic_tag(&text), &c.args[4]);
    }
    Obs::ok(obs, true)
}

// kind eloop (NV.Vcf.EagerLoop.eager_call_list): arbitrary bytes read with read_record_buf into ONE
// reused RecordBuf until Ok(0), going on after every Err (the reader has consumed the line); one
// result per call.  Oracle: the record_bufs() iterator yields the same sequence.
pub fn run_eloop(c: &Case) -> Obs {
    let header = match header_of(c) {
        Ok(h) => h,
        Err(e) => return Obs::fail("-", "eloop-header-unparsable", format!("{e}")),
    };
    let text = unhex(&c.args[4]);
    let cap = text.len() + 2;
    let reused: R<Vec<Option<Canon>>> = g(|| {
        let mut r = vcf::io::Reader::new(&text[..]);
        let mut rb = RecordBuf::default();
        let mut out = vec![];
        for _ in 0..cap {
            match r.read_record_buf(&header, &mut rb) {
                Ok(0) => break,
                Ok(_) => out.push(Some(canon(&rb))),
                Err(_) => out.push(None),
            }
        }
        Ok(out)
    });
    let iter: R<Vec<Option<Canon>>> = g(|| {
        let mut r = vcf::io::Reader::new(&text[..]);
        Ok(r.record_bufs(&header).take(cap).map(|x| x.ok().map(|rb| canon(&rb))).collect())
    });
    let (R::Ok(reused), R::Ok(iter)) = (reused, iter) else {
        return Obs::fail("Panic", "eloop-reader-panic", &c.args[4]);
    };
    let show = |o: &Option<Canon>| o.as_ref().map(rec_str).unwrap_or("Err".into());
    let obs = reused.iter().map(show).collect::<Vec<_>>().join("^");
    if reused.len() >= cap {
        return Obs::fail(obs, "eloop-reader-does-not-reach-eof", &c.args[4]);
    }
    let it = iter.iter().map(show).collect::<Vec<_>>().join("^");
    let verdict = if it == obs { Ok(()) } else {
        Err(("record-bufs-iterator-differs-from-read-record-buf-loop".to_string(), format!("{} :: loop {obs} iterator {it}", &c.args[4])))
    };
    Obs::ok(format!("{}:{obs}", reused.len()), !reused.is_empty()).with_verdict(verdict)
}

// kind lloop (NV.Vcf.LazyLoop.lazy_call_list): arbitrary bytes read with read_record into ONE
// reused lazy Record until Ok(0), GOING ON after every Err (a failed call leaves the reader behind
// the field that failed, or behind the line for "unexpected EOL" / a samples line that is not
// UTF-8); one result per call, every accessor forced.  Oracle (the proved statement): on an ASCII
// text whose lines all end in LF there is one call per line and every Ok call consumes its line.
pub fn run_lloop(c: &Case) -> Obs {
    let header = match header_of(c) {
        Ok(h) => h,
        Err(e) => return Obs::fail("-", "lloop-header-unparsable", format!("{e}")),
    };
    let text = unhex(&c.args[4]);
    let cap = text.len() + 2;
    let mut reader = vcf::io::Reader::new(&text[..]);
    let mut rec = vcf::Record::default();
    let mut out: Vec<String> = vec![];
    let mut ns: Vec<Option<usize>> = vec![];
    let mut eof = false;
    for _ in 0..cap {
        let r = g(|| reader.read_record(&mut rec).map_err(|_| ()));
        match r {
            R::Panic => return Obs::fail("Panic", lazy_panic_tag(&text), &c.args[4]),
            R::Err => { out.push("Err".into()); ns.push(None); }
            R::Ok(0) => { eof = true; break; }
            R::Ok(n) => {
                let texts = g(|| Ok(accessor_texts(&rec)));
                let view = g(|| canon_lazy(&header, &rec).map_err(|_| ()));
                let t = match texts { R::Ok(t) => t, _ => return Obs::fail("Panic", lazy_panic_tag(&text), &c.args[4]) };
                let v = match view {
                    R::Ok(cn) => rec_str(&cn),
                    R::Err => "Err".into(),
                    R::Panic => return Obs::fail("Panic", lazy_panic_tag(&text), &c.args[4]),
                };
                out.push(format!("{n}|{t}|{v}"));
                ns.push(Some(n));
            }
        }
    }
    let obs = format!("{}:{}", out.len(), out.join("^"));
    if !eof {
        return Obs::fail(obs, "lloop-reader-does-not-reach-eof", &c.args[4]);
    }
    let mut verdict = Ok(());
    let lines: Vec<&[u8]> = text.split_inclusive(|&b| b == b'\n').collect();
    if lines.len() != ns.len() {
        // a call started inside a line: the call before it failed on a field that is not UTF-8
        // and left the rest of its line unread (the eager reader consumes the line)
        verdict = Err(("lazy-read-record-resumes-mid-line-after-invalid-utf8-field".to_string(), format!("{} :: {obs}", &c.args[4])));
    }
    if text.is_ascii() && (text.is_empty() || text.ends_with(b"\n")) {
        let same = lines.len() == ns.len() && lines.iter().zip(&ns).all(|(l, n)| n.map_or(true, |n| n == l.len()));
        if !same {
            verdict = Err(("lazy-loop-frames-ascii-lf-text-unlike-its-lines".to_string(), format!("{} :: {obs}", &c.args[4])));
        }
    }
    Obs::ok(obs, !out.is_empty()).with_verdict(verdict)
}

const LLOOP_FIXED: &[&[u8]] = &[
    b"\xff\tb\n",
    b"sq0\t5\t\xff\tA\t.\t.\t.\t.\nsq0\t5\t.\tA\t.\t.\t.\t.\n",
    b"sq0\t\xc3\t.\tA\t.\t.\t.\t.\tGT\t0/1\tx\ty\tz\tw\tv\n",
    b"sq0\t5\t.\tA\t.\t.\t.\t.\tGT\t\xff\nsq0\t5\t.\tA\t.\t.\t.\t.\n",
    b"sq0\t5\t.\tA\t.\t.\t.\t\xff\nsq0\t5\t.\tA\t.\t.\t.\t.\n",
    b"sq0\t5\nsq0\t5\t.\tA\t.\t.\t.\t.\n",
    b"sq0\t5\r\n\r\nsq0\t5\t.\tA\t.\t.\t.\t.\r\n",
    b"\n\n\n",
    b"sq0\t5\t.\tA\t.\t.\t.\t.\nsq0\t\xff",
    b"\xff",
];

pub fn gen_lloop(rng: &mut Rng, w: &mut CaseWriter, n_mut: usize) {
    let infos = "I0/1/I,END/1/I,SVLEN/./I";
    let fmts = "GT/1/S,F0/1/I,LEN/1/I";
    for t in LLOOP_FIXED {
        w.push("lloop", vec!["4.3".into(), infos.into(), fmts.into(), "2".into(), hex(t), qual_ftab_all(t)]);
    }
    gen_bytes_kind(rng, w, n_mut, "lloop")
}

pub fn qual_ftab_all(text: &[u8]) -> String {
    let mut v: Vec<String> = vec![];
    for raw in text.split(|&b| b == b'\n') {
        for line in [raw, if raw.ends_with(b"\r") { &raw[..raw.len() - 1] } else { raw }] {
            let q = line.split(|&b| b == b'\t').nth(5).unwrap_or(&[]);
            if let Some(f) = std::str::from_utf8(q).ok().and_then(|t| t.parse::<f32>().ok()) {
                let e = format!("{0}:{1}:{0}", f.to_bits(), hex(q));
                if !q.is_empty() && !v.contains(&e) {
                    v.push(e);
                }
            }
        }
    }
    if v.is_empty() { "-".into() } else { v.join(",") }
}

const LZB_FIXED: &[&[u8]] = &[
    b"",
    b"\n",
    b"\r\n",
    b"\t",
    b"sq0",
    b"sq0\t5",
    b"sq0\t5\t.\tA\t.\t.\t.",
    b"sq0\t5\t.\tA\t.\t.\t.\t.",
    b"sq0\t5\t.\tA\t.\t.\t.\t.\r",
    b"sq0\t5\t.\tA\t.\t.\t.\tI0=1\tGT\t0/1",
    b"sq0\t5\t.\tA\t.\t.\t.\tI0=1\tGT\t0/1\r",
    b"sq0\t5\t.\tA\t.\t.\t.\tI0=1\tGT\t0/1\t",
    b"sq0\t5\t.\tA\t.\t.\t.\t.\t\r\n",
    b"sq0\t5\t.\tA\t.\t.\t.\t.\t\n",
    b"sq0\t5\t.\tA\t.\t.\t.\t\r\n",
    b"sq0\t5\t.\tA\t.\t.\tPASS\r\t\n",
    b"sq0\t5\t.\tA\t.\t.\tPASS\r\t\nsq1\t6\t.\tC\t.\t.\t.\t.\n",
    b"sq0\t5\t.\tA\t.\t.\t.\t.\nsq1\t6\t.\tC\t.\t.\t.\t.\n",
    b"sq0\t5\t.\tA\t.\t.\t.\t.\r\nsq1\t6\trs1;rs2\tC\tG,T\t1.5\tq10\tI0=3;END=9\tGT:F0\t0|1:7\t.\r\n",
    b"sq0\t5\t.\tA\t.\t.\t.\t.\n\nsq1\t6\t.\tC\t.\t.\t.\t.\n",
    b"sq0\t5\t.\tA\t.\t.\t.\t.\nsq1\t6\n",
    b"sq0\t5\t.\tA\t.\t.\t.\t.\nsq1\t6",
    b"sq0\t5\t.\tA\t.\t.\t.\t.\tGT\t0/1\nsq1\t6\t.\tC\t.\t.\t.\t.",
    b"sq\xc3\xa90\t5\t\xc3\xa9\tA\t.\t.\t.\tI0=1\n",
    b"sq\xc3\t5\t.\tA\t.\t.\t.\t.\n",
    b"sq0\t5\t.\tA\t.\t.\t.\t\xff\n",
    b"sq0\t5\t.\tA\t.\t.\t.\t.\tGT\t\xc3\n",
    b"sq0\t5\t.\tA\t.\t.\t.\t.\tGT\t\xc3\xa9\n",
    b"sq0\t5\t.\tA\t.\t.\t.\t.\tGT\t0/1\r\r\n",
    b"sq0\t5\t.\tA\t.\t.\t.\tI0=1\r\r\n",
    b"\r\t\r\t\r\t\r\t\r\t\r\t\r\t\r\n",
    b"\t\t\t\t\t\t\t\r\n",
    b"\t\t\t\t\t\t\t\t\r\n",
    b".\t.\t.\t.\t.\t.\t.\t.\t.\n",
    b".\t0\t.\t.\t.\t.\t.\t.\t.\t.\n",
];

pub fn gen_lzb(rng: &mut Rng, w: &mut CaseWriter, n_mut: usize) {
    gen_bytes_kind(rng, w, n_mut, "lzb")
}

// kind eloop: the same byte texts through read_record_buf into ONE RecordBuf, every call kept
pub fn gen_eloop(rng: &mut Rng, w: &mut CaseWriter, n_mut: usize) {
    gen_bytes_kind(rng, w, n_mut, "eloop")
}

fn gen_bytes_kind(rng: &mut Rng, w: &mut CaseWriter, n_mut: usize, kind: &str) {
    let infos = "I0/1/I,END/1/I,SVLEN/./I";
    let fmts = "GT/1/S,F0/1/I,LEN/1/I";
    let mut push = |w: &mut CaseWriter, ver: &str, ns: usize, t: &[u8]| {
        let sv = if matches!(ver, "4.4" | "4.5") { infos.replace("SVLEN/.", "SVLEN/A") } else { infos.to_string() };
        w.push(kind, vec![ver.into(), sv, fmts.into(), ns.to_string(), hex(t), qual_ftab_all(t)]);
    };
    for t in LZB_FIXED {
        push(w, "4.3", 2, t);
        push(w, "4.5", 0, t);
    }
    for t in LTXT_LINES {
        push(w, "4.4", 2, t.as_bytes());
        // the same line as the last line of a file, without its terminator
        let b = t.as_bytes();
        let cut = b.iter().position(|&x| x == b'\n').unwrap_or(b.len());
        push(w, "4.3", 2, &b[..cut]);
    }
    for _ in 0..n_mut {
        // one to three lines, mutated: delete / duplicate / replace / insert separators, CR, LF,
        // bytes that are not UTF-8; sometimes the final LF removed
        let mut t: Vec<u8> = vec![];
        for _ in 0..rng.range(1, 3) {
            if rng.below(3) == 0 {
                t.extend_from_slice(*rng.pick(LZB_FIXED));
            } else {
                t.extend_from_slice(rng.pick(LTXT_LINES).as_bytes());
            }
            if !t.ends_with(b"\n") && rng.below(2) == 0 {
                t.push(b'\n');
            }
        }
        for _ in 0..rng.range(0, 3) {
            if t.is_empty() {
                break;
            }
            let i = rng.below(t.len() as u64) as usize;
            match rng.below(5) {
                0 => { t.remove(i); }
                1 => { let b = t[i]; t.insert(i, b); }
                2 => t[i] = *rng.pick(b"\t;:=,./|.0%\r\n"),
                3 => t.insert(i, *rng.pick(b"\t\t\t;:=,./|.0%\r\r\n\xc3\xa9\xff")),
                _ => { t.truncate(i); }
            }
        }
        let ver = *rng.pick(VERS);
        let ns = *rng.pick(&[0usize, 1, 2, 2, 3]);
        push(w, ver, ns, &t);
    }
}
