//! C12: canonical transcripts of every reader the property quantifies over.
//!
//! `decode_r` handles the readers that take `R: Read`, `decode_b` those that take `R: BufRead`.
//! A transcript is a list of items: headers, every record rendered, virtual positions where the
//! reader has them, and the final `EOF` / `Err:<kind>`.  A top-level call that returns
//! ErrorKind::Interrupted is recorded as `Err:Interrupted` and *retried* (at most a bounded number
//! of times), as a conforming caller would do.

use std::io::{self, BufRead, Read, Seek};

use noodles_bam as bam;
use noodles_bcf as bcf;
use noodles_bed as bed;
use noodles_bgzf as bgzf;
use noodles_cram as cram;
use noodles_csi as csi;
use noodles_fasta as fasta;
use noodles_fastq as fastq;
use noodles_gff as gff;
use noodles_gtf as gtf;
use noodles_sam as sam;
use noodles_tabix as tabix;
use noodles_vcf as vcf;

pub const READ_FORMATS: &[&str] = &[
    "bgzf", "bam", "bamraw", "bcf", "bcfraw", "cram", "vcfgz", "samgz", "bai", "csi", "tabix", "gzi", "crai",
];
pub const BUFREAD_FORMATS: &[&str] = &[
    "sam", "vcf", "fasta", "fastaidx", "fastq", "gff", "gtf", "bed", "fai",
];

pub fn is_read_format(fmt: &str) -> bool {
    READ_FORMATS.contains(&fmt)
}

const MAX_ITEMS: usize = 4000;
const MAX_RETRIES: usize = 100_000;

pub struct T {
    pub items: Vec<String>,
    retries: usize,
}

impl T {
    pub fn new() -> Self {
        T { items: Vec::new(), retries: 0 }
    }
    fn push(&mut self, s: String) {
        self.items.push(s);
    }
    fn err(&mut self, e: &io::Error) {
        self.items.push(format!("Err:{:?}", e.kind()));
    }
    fn full(&self) -> bool {
        self.items.len() >= MAX_ITEMS
    }
}

fn crc(bs: &[u8]) -> u32 {
    let mut c = flate2::Crc::new();
    c.update(bs);
    c.sum()
}

/// Run `f` until it returns something other than Err(Interrupted); every Interrupted result is
/// recorded.  (std's own loops — read_exact, read_to_end, read_until, read_line — retry
/// internally, so an Interrupted that reaches this point was surfaced by noodles code.)
fn retrying<X>(t: &mut T, mut f: impl FnMut() -> io::Result<X>) -> io::Result<X> {
    loop {
        match f() {
            Err(e) if e.kind() == io::ErrorKind::Interrupted && t.retries < MAX_RETRIES => {
                t.retries += 1;
                t.err(&e);
            }
            other => return other,
        }
    }
}

/// whether the loop over records may go on after this error
fn recoverable(e: &io::Error, nerr: &mut usize) -> bool {
    *nerr += 1;
    matches!(e.kind(), io::ErrorKind::InvalidData | io::ErrorKind::InvalidInput) && *nerr <= 3
}

// ---------------------------------------------------------------------------------------------
// R: Read

pub fn decode_r<R: Read>(fmt: &str, mk: &dyn Fn() -> R, t: &mut T) {
    match fmt {
        "bgzf" => dec_bgzf(mk, t),
        "bam" => dec_bam(bam::io::Reader::new(mk()), t, |r| Some(u64::from(r.get_ref().virtual_position()))),
        "bamraw" => dec_bam(bam::io::Reader::from(mk()), t, |_| None),
        "bcf" => dec_bcf(bcf::io::Reader::new(mk()), t, |r| Some(u64::from(r.get_ref().virtual_position()))),
        "bcfraw" => dec_bcf(bcf::io::Reader::from(mk()), t, |_| None),
        "cram" => dec_cram(mk(), t),
        "vcfgz" => dec_vcf(vcf::io::Reader::new(bgzf::io::Reader::new(mk())), t, |r| {
            Some(u64::from(r.get_ref().virtual_position()))
        }),
        "samgz" => dec_sam(sam::io::Reader::new(bgzf::io::Reader::new(mk())), t, |r| {
            Some(u64::from(r.get_ref().virtual_position()))
        }),
        "bai" => {
            let mut r = bam::bai::io::Reader::new(mk());
            match retrying(t, || r.read_index()) {
                Ok(i) => t.push(format!("{i:?}")),
                Err(e) => t.err(&e),
            }
        }
        "csi" => {
            let mut r = csi::io::Reader::new(mk());
            match retrying(t, || r.read_index()) {
                Ok(i) => t.push(format!("{i:?}")),
                Err(e) => t.err(&e),
            }
        }
        "tabix" => {
            let mut r = tabix::io::Reader::new(mk());
            match retrying(t, || r.read_index()) {
                Ok(i) => t.push(format!("{i:?}")),
                Err(e) => t.err(&e),
            }
        }
        "gzi" => {
            let mut r = bgzf::gzi::io::Reader::new(mk());
            match retrying(t, || r.read_index()) {
                Ok(i) => t.push(format!("{i:?}")),
                Err(e) => t.err(&e),
            }
        }
        "crai" => {
            let mut r = cram::crai::io::Reader::new(mk());
            match retrying(t, || r.read_index()) {
                Ok(i) => t.push(format!("{i:?}")),
                Err(e) => t.err(&e),
            }
        }
        _ => panic!("unknown Read format {fmt}"),
    }
}

fn dec_bgzf<R: Read>(mk: &dyn Fn() -> R, t: &mut T) {
    // (a) block by block through fill_buf/consume, with positions
    {
        t.push("mode:blocks".into());
        let mut r = bgzf::io::Reader::new(mk());
        loop {
            let res = retrying(t, || r.fill_buf().map(|b| (b.len(), crc(b))));
            match res {
                Ok((0, _)) => {
                    t.push(format!("EOF pos={} vpos={}", r.position(), u64::from(r.virtual_position())));
                    break;
                }
                Ok((n, c)) => {
                    let v0 = u64::from(r.virtual_position());
                    r.consume(n);
                    t.push(format!(
                        "blk len={n} crc={c:08x} pos={} v0={v0} v1={}",
                        r.position(),
                        u64::from(r.virtual_position())
                    ));
                }
                Err(e) => {
                    t.err(&e);
                    break;
                }
            }
            if t.full() {
                break;
            }
        }
    }
    // (b) read() into a buffer >= 64 KiB (decode-into-caller-buffer path) alternating with small reads
    {
        t.push("mode:read".into());
        let mut r = bgzf::io::Reader::new(mk());
        let mut big = vec![0u8; 70000];
        let mut k = 0usize;
        loop {
            let want = [70000usize, 7, 65536, 1, 300][k % 5];
            k += 1;
            let res = retrying(t, || r.read(&mut big[..want]));
            match res {
                Ok(0) => {
                    t.push(format!("EOF vpos={}", u64::from(r.virtual_position())));
                    break;
                }
                Ok(n) => t.push(format!(
                    "read want={want} got={n} crc={:08x} vpos={}",
                    crc(&big[..n]),
                    u64::from(r.virtual_position())
                )),
                Err(e) => {
                    t.err(&e);
                    break;
                }
            }
            if t.full() {
                break;
            }
        }
    }
    // (c) read_exact with sizes that cross block boundaries (noodles' default_read_exact)
    {
        t.push("mode:read_exact".into());
        let mut r = bgzf::io::Reader::new(mk());
        let mut buf = vec![0u8; 5000];
        let mut k = 0usize;
        loop {
            let want = [1usize, 4, 37, 5000, 2, 1000][k % 6];
            k += 1;
            let res = retrying(t, || r.read_exact(&mut buf[..want]));
            match res {
                Ok(()) => t.push(format!(
                    "x want={want} crc={:08x} vpos={}",
                    crc(&buf[..want]),
                    u64::from(r.virtual_position())
                )),
                Err(e) => {
                    t.err(&e);
                    t.push(format!("vpos={}", u64::from(r.virtual_position())));
                    break;
                }
            }
            if t.full() {
                break;
            }
        }
    }
    // (d) whole stream
    {
        t.push("mode:read_to_end".into());
        let mut r = bgzf::io::Reader::new(mk());
        let mut all = Vec::new();
        match r.read_to_end(&mut all) {
            Ok(n) => t.push(format!("all n={n} crc={:08x} vpos={}", crc(&all), u64::from(r.virtual_position()))),
            Err(e) => {
                t.push(format!("partial n={} crc={:08x}", all.len(), crc(&all)));
                t.err(&e);
            }
        }
    }
}

fn dec_bam<R: Read>(
    mut r: bam::io::Reader<R>,
    t: &mut T,
    vpos: impl Fn(&bam::io::Reader<R>) -> Option<u64>,
) {
    let header = match retrying(t, || r.read_header()) {
        Ok(h) => {
            t.push(format!("H {h:?} v={:?}", vpos(&r)));
            h
        }
        Err(e) => {
            t.err(&e);
            return;
        }
    };
    let mut rec = bam::Record::default();
    let mut nerr = 0;
    loop {
        match retrying(t, || r.read_record(&mut rec)) {
            Ok(0) => {
                t.push(format!("EOF v={:?}", vpos(&r)));
                break;
            }
            Ok(n) => {
                let full = match sam::alignment::RecordBuf::try_from_alignment_record(&header, &rec) {
                    Ok(b) => format!("{b:?}"),
                    Err(e) => format!("conv-Err:{:?}", e.kind()),
                };
                t.push(format!("R n={n} v={:?} {full}", vpos(&r)));
            }
            Err(e) => {
                t.err(&e);
                if !recoverable(&e, &mut nerr) {
                    break;
                }
            }
        }
        if t.full() {
            break;
        }
    }
}

/// vcf::Header's Debug output contains a HashMap (string maps); render it with the VCF writer.
fn vcf_header_text(h: &vcf::Header) -> String {
    let mut w = vcf::io::Writer::new(Vec::new());
    match w.write_header(h) {
        Ok(()) => nv::hex(w.get_ref()),
        Err(e) => format!("unwritable-header:{:?}", e.kind()),
    }
}

fn dec_bcf<R: Read>(
    mut r: bcf::io::Reader<R>,
    t: &mut T,
    vpos: impl Fn(&bcf::io::Reader<R>) -> Option<u64>,
) {
    let header = match retrying(t, || r.read_header()) {
        Ok(h) => {
            t.push(format!("H {} v={:?}", vcf_header_text(&h), vpos(&r)));
            h
        }
        Err(e) => {
            t.err(&e);
            return;
        }
    };
    let mut rec = bcf::Record::default();
    let mut nerr = 0;
    loop {
        match retrying(t, || r.read_record(&mut rec)) {
            Ok(0) => {
                t.push(format!("EOF v={:?}", vpos(&r)));
                break;
            }
            Ok(n) => {
                let full = match vcf::variant::RecordBuf::try_from_variant_record(&header, &rec) {
                    Ok(b) => format!("{b:?}"),
                    Err(e) => format!("conv-Err:{:?}", e.kind()),
                };
                t.push(format!("R n={n} v={:?} {full}", vpos(&r)));
            }
            Err(e) => {
                t.err(&e);
                if !recoverable(&e, &mut nerr) {
                    break;
                }
            }
        }
        if t.full() {
            break;
        }
    }
}

fn dec_cram<R: Read>(src: R, t: &mut T) {
    let mut r = cram::io::Reader::new(src);
    let header = match retrying(t, || r.read_header()) {
        Ok(h) => {
            t.push(format!("H {h:?}"));
            h
        }
        Err(e) => {
            t.err(&e);
            return;
        }
    };
    // container level first (framing), then records through the iterator
    let mut it = r.records(&header);
    let mut nerr = 0;
    loop {
        match it.next() {
            None => {
                t.push("EOF".into());
                break;
            }
            Some(Ok(rec)) => t.push(format!("R {rec:?}")),
            Some(Err(e)) => {
                t.err(&e);
                if e.kind() == io::ErrorKind::Interrupted && nerr < 1000 {
                    nerr += 1;
                    continue;
                }
                break;
            }
        }
        if t.full() {
            break;
        }
    }
}

// ---------------------------------------------------------------------------------------------
// R: BufRead

pub fn decode_b<R: BufRead>(fmt: &str, mk: &dyn Fn() -> R, t: &mut T) {
    match fmt {
        "sam" => dec_sam(sam::io::Reader::new(mk()), t, |_| None),
        "vcf" => dec_vcf(vcf::io::Reader::new(mk()), t, |_| None),
        "fasta" => dec_fasta(mk(), t),
        "fastaidx" => dec_fastaidx(mk(), t),
        "fastq" => dec_fastq(mk(), t),
        "gff" => dec_gff(mk(), t),
        "gtf" => dec_gtf(mk(), t),
        "bed" => dec_bed(mk(), t),
        "fai" => {
            let mut r = fasta::fai::io::Reader::new(mk());
            match retrying(t, || r.read_index()) {
                Ok(i) => t.push(format!("{i:?}")),
                Err(e) => t.err(&e),
            }
        }
        _ => panic!("unknown BufRead format {fmt}"),
    }
}

fn dec_sam<R: BufRead>(mut r: sam::io::Reader<R>, t: &mut T, vpos: impl Fn(&sam::io::Reader<R>) -> Option<u64>) {
    let header = match retrying(t, || r.read_header()) {
        Ok(h) => {
            t.push(format!("H {h:?} v={:?}", vpos(&r)));
            h
        }
        Err(e) => {
            t.err(&e);
            return;
        }
    };
    let mut rec = sam::Record::default();
    let mut nerr = 0;
    loop {
        match retrying(t, || r.read_record(&mut rec)) {
            Ok(0) => {
                t.push(format!("EOF v={:?}", vpos(&r)));
                break;
            }
            Ok(n) => {
                let full = match sam::alignment::RecordBuf::try_from_alignment_record(&header, &rec) {
                    Ok(b) => format!("{b:?}"),
                    Err(e) => format!("conv-Err:{:?} {rec:?}", e.kind()),
                };
                t.push(format!("R n={n} v={:?} {full}", vpos(&r)));
            }
            Err(e) => {
                t.err(&e);
                if !recoverable(&e, &mut nerr) {
                    break;
                }
            }
        }
        if t.full() {
            break;
        }
    }
}

fn dec_vcf<R: BufRead>(mut r: vcf::io::Reader<R>, t: &mut T, vpos: impl Fn(&vcf::io::Reader<R>) -> Option<u64>) {
    let header = match retrying(t, || r.read_header()) {
        Ok(h) => {
            t.push(format!("H {} v={:?}", vcf_header_text(&h), vpos(&r)));
            h
        }
        Err(e) => {
            t.err(&e);
            return;
        }
    };
    let mut rec = vcf::Record::default();
    let mut nerr = 0;
    loop {
        match retrying(t, || r.read_record(&mut rec)) {
            Ok(0) => {
                t.push(format!("EOF v={:?}", vpos(&r)));
                break;
            }
            Ok(n) => {
                let full = match vcf::variant::RecordBuf::try_from_variant_record(&header, &rec) {
                    Ok(b) => format!("{b:?}"),
                    Err(e) => format!("conv-Err:{:?} {rec:?}", e.kind()),
                };
                t.push(format!("R n={n} v={:?} {full}", vpos(&r)));
            }
            Err(e) => {
                t.err(&e);
                if !recoverable(&e, &mut nerr) {
                    break;
                }
            }
        }
        if t.full() {
            break;
        }
    }
}

fn dec_fasta<R: BufRead>(src: R, t: &mut T) {
    let mut r = fasta::io::Reader::new(src);
    let mut def = fasta::record::Definition::default();
    let mut nerr = 0;
    loop {
        match retrying(t, || r.read_definition(&mut def)) {
            Ok(0) => {
                t.push("EOF".into());
                break;
            }
            Ok(n) => t.push(format!("D n={n} {def:?}")),
            Err(e) => {
                t.err(&e);
                if !recoverable(&e, &mut nerr) {
                    break;
                }
                continue;
            }
        }
        let mut seq = Vec::new();
        match retrying(t, || r.read_sequence(&mut seq)) {
            Ok(n) => t.push(format!("S n={n} {}", nv::hex(&seq))),
            Err(e) => {
                t.push(format!("S partial {}", nv::hex(&seq)));
                t.err(&e);
                break;
            }
        }
        if t.full() {
            break;
        }
    }
}

fn dec_fastaidx<R: BufRead>(src: R, t: &mut T) {
    let mut ix = fasta::io::Indexer::new(src);
    loop {
        match ix.index_record() {
            Ok(None) => {
                t.push("EOF".into());
                break;
            }
            Ok(Some(rec)) => t.push(format!("{rec:?}")),
            Err(e) => {
                let e: io::Error = e.into();
                t.push(format!("Err:{:?}:{}", e.kind(), e));
                if e.kind() == io::ErrorKind::Interrupted && t.retries < 1000 {
                    t.retries += 1;
                    continue;
                }
                break;
            }
        }
        if t.full() {
            break;
        }
    }
}

fn dec_fastq<R: BufRead>(src: R, t: &mut T) {
    let mut r = fastq::io::Reader::new(src);
    let mut rec = fastq::Record::default();
    let mut nerr = 0;
    loop {
        match retrying(t, || r.read_record(&mut rec)) {
            Ok(0) => {
                t.push("EOF".into());
                break;
            }
            Ok(n) => t.push(format!("R n={n} {rec:?}")),
            Err(e) => {
                t.err(&e);
                if !recoverable(&e, &mut nerr) {
                    break;
                }
            }
        }
        if t.full() {
            break;
        }
    }
}

fn dec_gff<R: BufRead>(src: R, t: &mut T) {
    let mut r = gff::io::Reader::new(src);
    let mut line = gff::Line::default();
    let mut nerr = 0;
    loop {
        match retrying(t, || r.read_line(&mut line)) {
            Ok(0) => {
                t.push("EOF".into());
                break;
            }
            Ok(n) => {
                let raw: &bstr::BStr = line.as_ref();
                let parsed = match line.as_record() {
                    Some(Ok(rec)) => match gff::feature::RecordBuf::try_from_feature_record(&rec) {
                        Ok(b) => format!("{b:?}"),
                        Err(e) => format!("conv-Err:{:?}", e.kind()),
                    },
                    Some(Err(e)) => format!("rec-Err:{:?}", e.kind()),
                    None => format!("{:?}", line.kind()),
                };
                t.push(format!("L n={n} {} {parsed}", nv::hex(raw)));
            }
            Err(e) => {
                t.err(&e);
                if !recoverable(&e, &mut nerr) {
                    break;
                }
            }
        }
        if t.full() {
            break;
        }
    }
}

fn dec_gtf<R: BufRead>(src: R, t: &mut T) {
    let mut r = gtf::io::Reader::new(src);
    let mut line = gtf::Line::default();
    let mut nerr = 0;
    loop {
        match retrying(t, || r.read_line(&mut line)) {
            Ok(0) => {
                t.push("EOF".into());
                break;
            }
            Ok(n) => {
                let raw: &bstr::BStr = line.as_ref();
                let parsed = match line.as_record() {
                    Some(Ok(rec)) => match gff::feature::RecordBuf::try_from_feature_record(&rec) {
                        Ok(b) => format!("{b:?}"),
                        Err(e) => format!("conv-Err:{:?}", e.kind()),
                    },
                    Some(Err(e)) => format!("rec-Err:{:?}", e.kind()),
                    None => "comment".to_string(),
                };
                t.push(format!("L n={n} {} {parsed}", nv::hex(raw)));
            }
            Err(e) => {
                t.err(&e);
                if !recoverable(&e, &mut nerr) {
                    break;
                }
            }
        }
        if t.full() {
            break;
        }
    }
}

fn dec_bed<R: BufRead>(src: R, t: &mut T) {
    let mut r = bed::io::Reader::<3, _>::new(src);
    let mut rec = bed::Record::<3>::default();
    let mut nerr = 0;
    loop {
        match retrying(t, || r.read_record(&mut rec)) {
            Ok(0) => {
                t.push("EOF".into());
                break;
            }
            Ok(n) => t.push(format!("R n={n} {rec:?}")),
            Err(e) => {
                t.err(&e);
                if !recoverable(&e, &mut nerr) {
                    break;
                }
            }
        }
        if t.full() {
            break;
        }
    }
}

// ---------------------------------------------------------------------------------------------
// R: BufRead + Seek

/// "fastaq": fasta::io::Reader::query (seek + read_sequence_limit) for every record of the index
/// built from the same bytes (the index is computed from the plain data, so only the query path is
/// fed by the adversary).
pub fn decode_bs<R: BufRead + Seek>(fmt: &str, data: &[u8], mk: &dyn Fn() -> R, t: &mut T) {
    assert_eq!(fmt, "fastaq");
    let mut recs = Vec::new();
    let mut ix = fasta::io::Indexer::new(data);
    loop {
        match ix.index_record() {
            Ok(Some(r)) => recs.push(r),
            Ok(None) => break,
            Err(_) => {
                t.push("index-Err".into());
                break;
            }
        }
        if recs.len() > 50 {
            break;
        }
    }
    let index = fasta::fai::Index::from(recs.clone());
    let mut r = fasta::io::Reader::new(mk());
    for rec in &recs {
        let name = String::from_utf8_lossy(rec.name().as_ref()).to_string();
        let len = rec.length();
        let mut regions = vec![name.clone()];
        if len >= 1 {
            regions.push(format!("{name}:1-{len}"));
            regions.push(format!("{name}:{len}-{len}"));
            regions.push(format!("{name}:{}-{}", (len / 3).max(1), (2 * len / 3).max(1)));
            regions.push(format!("{name}:2"));
        }
        for reg in regions {
            let Ok(region) = reg.parse::<noodles_core::Region>() else {
                t.push(format!("Q {reg} unparsable"));
                continue;
            };
            match retrying(t, || r.query(&index, &region)) {
                Ok(rec) => t.push(format!("Q {reg} {}", nv::hex(rec.sequence().as_ref()))),
                Err(e) => {
                    t.push(format!("Q {reg}"));
                    t.err(&e);
                }
            }
        }
        if t.full() {
            break;
        }
    }
}
