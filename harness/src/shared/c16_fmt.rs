//! C16: format-level sync-vs-async differential kinds (implementation-only oracles).
//!
//!   rd <fmt> <file> <mode> <seed> <workers>   same input through the sync and the async reader of
//!                                             <fmt>; transcripts (header, records, end / error
//!                                             kind) must be equal.  fmt = bam | bamlazy | bcf | cram |
//!                                             sam | vcf | vcfgz | fasta | fastq | gff | gfflines | csi | tbi
//!   q  <fmt> <seed> <mode> <sseed> <workers>  indexed region queries (bam + BAI, vcfgz + tabix, bcf + CSI)
//!   wr <fmt> <seed> <mode> <sseed> <workers>  same calls on the sync and the async writer; sink bytes
//!                                             must decode to the same content and be byte-identical
//!                                             (same compression level on both sides)
//!
//! Async sources are `AdvReader`s (scripted Pending / partial transfers), wrapped in
//! `tokio::io::BufReader` with a small seeded capacity for the text formats; async sinks are
//! `AdvWriter`s.

use std::io::{self, BufRead, Cursor, Read};
use std::num::NonZero;
use std::sync::atomic::Ordering;

use futures::TryStreamExt;
use noodles_bam as bam;
use noodles_bcf as bcf;
use noodles_bgzf as bgzf;
use noodles_core::{Position, Region};
use noodles_cram as cram;
use noodles_csi::{
    self as csi,
    binning_index::{
        self, Indexer,
        index::{
            Header,
            reference_sequence::{bin::Chunk, index::BinnedIndex, index::LinearIndex},
        },
    },
};
use noodles_fasta as fasta;
use noodles_fastq as fastq;
use noodles_gff as gff;
use noodles_sam as sam;
use noodles_tabix as tabix;
use noodles_vcf as vcf;
use nv::{Case, CaseWriter, Obs, Outcome, Rng, errkind, guarded, hex};
use tokio::io::AsyncWriteExt;

use crate::c16_adversary::{AdvReader, AdvWriter, Sched, block_on};

type VP = bgzf::VirtualPosition;
type T = Vec<String>;

// ---------------------------------------------------------------------------------------------
// input files (after harness/src/shared/c12_files.rs; own copy so that the two checks stay independent)

const BASES: &[u8] = b"ACGTN";

fn bases(rng: &mut Rng, n: usize) -> String {
    (0..n).map(|_| *rng.pick(BASES) as char).collect()
}

fn rb(rng: &mut Rng, lo: u64, hi: u64) -> String {
    let n = rng.range(lo, hi) as usize;
    bases(rng, n)
}

pub fn sam_text(rng: &mut Rng, max_rec: u64, crlf: bool, sorted: bool) -> Vec<u8> {
    sam_text_ln(rng, max_rec, crlf, sorted, 100000)
}

/// `ln`: length of sq0 (sq<i> is (i+1) times as long); positions stay below min(ln, 40000) - 100
pub fn sam_text_ln(rng: &mut Rng, max_rec: u64, crlf: bool, sorted: bool, ln: u64) -> Vec<u8> {
    let nrec = rng.range(0, max_rec);
    let e = if crlf { "\r\n" } else { "\n" };
    let mut s = String::new();
    s.push_str(&format!("@HD\tVN:1.6\tSO:{}{e}", if sorted { "coordinate" } else { "unsorted" }));
    let nref = rng.range(1, 3);
    for i in 0..nref {
        s.push_str(&format!("@SQ\tSN:sq{i}\tLN:{}{e}", ln * (i + 1)));
    }
    if rng.chance(1, 2) {
        s.push_str(&format!("@RG\tID:rg0\tSM:s{e}"));
    }
    if rng.chance(1, 2) {
        s.push_str(&format!("@PG\tID:pg0\tPN:nv{e}@CO\tc {}{e}", rb(rng, 0, 39)));
    }
    let mut mapped: Vec<(u64, u64, String)> = Vec::new();
    let mut unmapped: Vec<String> = Vec::new();
    for i in 0..nrec {
        let l = rng.range(1, 60) as usize;
        let seq = bases(rng, l);
        let qual: String = (0..l).map(|_| (b'!' + rng.below(40) as u8) as char).collect();
        let tags = match rng.below(4) {
            0 => "".to_string(),
            1 => "\tNH:i:1".to_string(),
            2 => format!("\tNH:i:{}\tZZ:Z:{}", rng.below(70000), rb(rng, 1, 12)),
            _ => "\tXB:B:c,1,-2,3\tXF:f:1.5".to_string(),
        };
        if rng.chance(1, 5) {
            unmapped.push(format!("r{i}\t4\t*\t0\t255\t*\t*\t0\t0\t{seq}\t{qual}{tags}{e}"));
        } else {
            let r = rng.below(nref);
            let pos = match rng.below(4) {
                0 if ln > 17000 => rng.range(16380, 16390),
                1 => rng.range(1, ln.min(40000) - 100),
                _ => rng.range(1, ln.min(2000) - 100),
            };
            let cigar = if l > 4 && rng.chance(1, 3) { format!("2S{}M1D1M", l - 3) } else { format!("{l}M") };
            mapped.push((
                r,
                pos,
                format!(
                    "r{i}\t{}\tsq{r}\t{pos}\t{}\t{cigar}\t*\t0\t0\t{seq}\t{qual}{tags}{e}",
                    if rng.chance(1, 3) { 16 } else { 0 },
                    rng.below(61)
                ),
            ));
        }
    }
    if sorted {
        mapped.sort_by_key(|m| (m.0, m.1));
    }
    for m in mapped {
        s.push_str(&m.2);
    }
    for u in unmapped {
        s.push_str(&u);
    }
    if !sorted && rng.chance(1, 6) && s.ends_with('\n') {
        s.pop();
        if s.ends_with('\r') {
            s.pop();
        }
    }
    s.into_bytes()
}

pub fn parse_sam(text: &[u8]) -> (sam::Header, Vec<sam::alignment::RecordBuf>) {
    let mut r = sam::io::Reader::new(text);
    let h = r.read_header().expect("generated SAM header");
    let recs = r.record_bufs(&h).collect::<Result<Vec<_>, _>>().expect("generated SAM records");
    (h, recs)
}

pub fn vcf_text(rng: &mut Rng, max_rec: u64, crlf: bool) -> Vec<u8> {
    let nrec = rng.range(0, max_rec);
    let e = if crlf { "\r\n" } else { "\n" };
    let mut s = String::new();
    s.push_str(&format!("##fileformat=VCFv4.3{e}"));
    let nref = rng.range(1, 2);
    for i in 0..nref {
        s.push_str(&format!("##contig=<ID=sq{i},length={}>{e}", 100000 * (i + 1)));
    }
    s.push_str(&format!("##INFO=<ID=DP,Number=1,Type=Integer,Description=\"depth {}\">{e}", rb(rng, 0, 29)));
    s.push_str(&format!("##INFO=<ID=AF,Number=A,Type=Float,Description=\"af\">{e}"));
    s.push_str(&format!("##FILTER=<ID=q10,Description=\"q\">{e}"));
    s.push_str(&format!("##FORMAT=<ID=GT,Number=1,Type=String,Description=\"gt\">{e}"));
    s.push_str(&format!("##FORMAT=<ID=GQ,Number=1,Type=Integer,Description=\"gq\">{e}"));
    let nsamp = rng.range(0, 2);
    s.push_str("#CHROM\tPOS\tID\tREF\tALT\tQUAL\tFILTER\tINFO");
    if nsamp > 0 {
        s.push_str("\tFORMAT");
        for i in 0..nsamp {
            s.push_str(&format!("\ts{i}"));
        }
    }
    s.push_str(e);
    for r in 0..nref {
        let mut pos = 1;
        for i in 0..(nrec / nref + r) {
            pos += match rng.below(3) {
                0 => rng.range(0, 3),
                1 => rng.range(1, 100),
                _ => rng.range(1, 9000),
            };
            let rb = rb(rng, 1, 4).replace('N', "A");
            let alt = *rng.pick(&["C", "G,T", "."]);
            let info = match (rng.below(3), alt) {
                (0, _) => ".".to_string(),
                (1, _) => format!("DP={}", rng.below(100000)),
                (_, "C") => format!("DP={};AF=0.5", rng.below(300)),
                _ => format!("DP={}", rng.below(300)),
            };
            s.push_str(&format!(
                "sq{r}\t{pos}\t{}\t{rb}\t{alt}\t{}\t{}\t{info}",
                if rng.chance(1, 2) { ".".to_string() } else { format!("id{i}") },
                if rng.chance(1, 2) { ".".to_string() } else { format!("{}", rng.below(100)) },
                *rng.pick(&[".", "PASS", "q10"])
            ));
            if nsamp > 0 {
                s.push_str("\tGT:GQ");
                for _ in 0..nsamp {
                    s.push_str(&format!("\t{}:{}", *rng.pick(&["0/1", "1|1", "./."]), rng.below(99)));
                }
            }
            s.push_str(e);
        }
    }
    s.into_bytes()
}

pub fn parse_vcf(text: &[u8]) -> (vcf::Header, Vec<vcf::variant::RecordBuf>) {
    let mut r = vcf::io::Reader::new(text);
    let h = r.read_header().expect("generated VCF header");
    let recs = r.record_bufs(&h).collect::<Result<Vec<_>, _>>().expect("generated VCF records");
    (h, recs)
}

pub fn fasta_text(rng: &mut Rng, crlf: bool) -> Vec<u8> {
    let e = if crlf { "\r\n" } else { "\n" };
    let mut s = String::new();
    for i in 0..rng.range(1, 4) {
        s.push_str(&format!(">sq{i}"));
        if rng.chance(1, 2) {
            s.push_str(&format!(" desc {}", rb(rng, 0, 9)));
        }
        s.push_str(e);
        let width = rng.range(1, 20) as usize;
        let len = rng.range(1, 70) as usize;
        let seq = bases(rng, len);
        for line in seq.as_bytes().chunks(width) {
            s.push_str(std::str::from_utf8(line).unwrap());
            s.push_str(e);
        }
        if rng.chance(1, 5) {
            s.push_str(e);
        }
    }
    if rng.chance(1, 4) {
        while s.ends_with('\n') || s.ends_with('\r') {
            s.pop();
        }
    }
    s.into_bytes()
}

pub fn fastq_text(rng: &mut Rng, crlf: bool) -> Vec<u8> {
    let e = if crlf { "\r\n" } else { "\n" };
    let mut s = String::new();
    for i in 0..rng.range(0, 5) {
        let l = rng.range(1, 40) as usize;
        let seq = bases(rng, l);
        let qual: String = (0..l).map(|_| (b'!' + rng.below(60) as u8) as char).collect();
        let desc = if rng.chance(1, 2) { format!(" d{}", rng.below(1000)) } else { String::new() };
        let plus = if rng.chance(1, 3) { format!("+r{i}{desc}") } else { "+".to_string() };
        s.push_str(&format!("@r{i}{desc}{e}{seq}{e}{plus}{e}{qual}{e}"));
    }
    if rng.chance(1, 4) && s.ends_with('\n') {
        s.pop();
        if s.ends_with('\r') {
            s.pop();
        }
    }
    s.into_bytes()
}

pub fn gff_text(rng: &mut Rng, crlf: bool) -> Vec<u8> {
    let e = if crlf { "\r\n" } else { "\n" };
    let mut s = format!("##gff-version 3{e}");
    for i in 0..rng.range(0, 8) {
        match rng.below(7) {
            0 => s.push_str(&format!("#comment {}{e}", rb(rng, 0, 19))),
            1 => s.push_str(e),
            2 => s.push_str(&format!("##sequence-region sq0 1 1000{e}")),
            _ => {
                let st = rng.range(1, 500);
                s.push_str(&format!(
                    "sq{}\tsrc\tgene\t{st}\t{}\t{}\t{}\t{}\tID=g{i};Name=n%3B{}{e}",
                    rng.below(2),
                    st + rng.below(400),
                    *rng.pick(&[".", "1.5", "30"]),
                    *rng.pick(&["+", "-", ".", "?"]),
                    *rng.pick(&[".", "0", "2"]),
                    rb(rng, 0, 29)
                ));
            }
        }
    }
    if rng.chance(1, 6) {
        s.push_str(&format!("##FASTA{e}>sq0{e}ACGT{e}"));
    }
    if rng.chance(1, 4) && s.ends_with('\n') {
        s.pop();
        if s.ends_with('\r') {
            s.pop();
        }
    }
    s.into_bytes()
}

/// reference sequences sq0..sq2 of the CRAM cases (lengths 1500, 3000, 4500)
pub fn repository() -> fasta::Repository {
    let refs: Vec<fasta::Record> = (0..3usize)
        .map(|r| {
            let seq: Vec<u8> = (0..1500 * (r + 1)).map(|i| b"ACGT"[(i * 7 + i / 3 + r) % 4]).collect();
            fasta::Record::new(fasta::record::Definition::new(format!("sq{r}"), None), fasta::record::Sequence::from(seq))
        })
        .collect();
    fasta::Repository::new(refs)
}

fn pos(n: u64) -> Position {
    Position::try_from(n as usize).unwrap()
}

fn build_index<I>(rng: &mut Rng, ms: u8, d: u8, nref: usize, hdr: Option<Header>) -> binning_index::Index<I>
where
    I: binning_index::index::reference_sequence::Index + Default,
{
    let maxp = (1u64 << (ms as u64 + 3 * d as u64)) - 1;
    let mut ix = Indexer::<I>::new(ms, d);
    if let Some(h) = hdr {
        ix = ix.set_header(h);
    }
    let mut off = rng.below(1 << 20);
    for r in 0..nref {
        if rng.chance(1, 5) {
            continue;
        }
        let mut s = rng.range(1, 1000.min(maxp));
        for _ in 0..rng.range(1, 8) {
            s = (s + rng.below(1 + maxp / 8)).min(maxp);
            let sh = rng.below(20);
            let e = (s + rng.below(1 + (maxp >> sh))).min(maxp);
            let a = off;
            off += rng.range(1, 70000);
            ix.add_record(Some((r, pos(s), pos(e), rng.chance(9, 10))), Chunk::new(VP::from(a), VP::from(off))).unwrap();
        }
    }
    for _ in 0..rng.below(3) {
        ix.add_record(None, Chunk::new(VP::from(off), VP::from(off + 1))).unwrap();
    }
    ix.build(nref)
}

pub fn csi_index(rng: &mut Rng) -> csi::Index {
    let nref = rng.range(0, 3) as usize;
    let (ms, d) = *rng.pick(&[(14u8, 5u8), (12, 4), (14, 6)]);
    let hdr = if rng.chance(1, 2) {
        let names: csi::binning_index::index::header::ReferenceSequenceNames =
            (0..nref).map(|i| bstr::BString::from(format!("chr{i}_{}", rb(rng, 0, 5)))).collect();
        Some(csi::binning_index::index::header::Builder::vcf().set_reference_sequence_names(names).build())
    } else {
        None
    };
    build_index::<BinnedIndex>(rng, ms, d, nref, hdr)
}

pub fn tabix_index(rng: &mut Rng) -> tabix::Index {
    let nref = rng.range(0, 3) as usize;
    let names: csi::binning_index::index::header::ReferenceSequenceNames =
        (0..nref).map(|i| bstr::BString::from(format!("chr{i}_{}", rb(rng, 0, 5)))).collect();
    let hdr = csi::binning_index::index::header::Builder::vcf().set_reference_sequence_names(names).build();
    build_index::<LinearIndex>(rng, 14, 5, nref, Some(hdr))
}

fn random_breaks(rng: &mut Rng, len: usize) -> Vec<usize> {
    let n = rng.below(5) as usize;
    let mut v: Vec<usize> = (0..n).map(|_| rng.below(len as u64 + 1) as usize).collect();
    v.sort_unstable();
    v
}

/// one input file of format `fmt`
pub fn make_file(rng: &mut Rng, fmt: &str) -> Vec<u8> {
    use sam::alignment::io::Write as _;
    use vcf::variant::io::Write as _;
    let crlf = rng.chance(1, 5);
    match fmt {
        "bam" | "bamlazy" => {
            let text = sam_text(rng, 12, false, false);
            let (h, recs) = parse_sam(&text);
            let mut w = bam::io::Writer::from(Vec::new());
            w.write_header(&h).unwrap();
            for r in &recs {
                w.write_alignment_record(&h, r).unwrap();
            }
            let raw = w.into_inner();
            let br = random_breaks(rng, raw.len());
            crate::bgzip(&raw, &br, rng.chance(5, 6), 6)
        }
        "cram" => {
            let text = sam_text_ln(rng, 12, false, false, 1500);
            let (h, recs) = parse_sam(&text);
            let mut w = cram::io::writer::Builder::default()
                .set_reference_sequence_repository(repository())
                .build_from_writer(Vec::new());
            w.write_header(&h).unwrap();
            for r in &recs {
                w.write_alignment_record(&h, r).unwrap();
            }
            w.try_finish(&h).unwrap();
            w.get_ref().clone()
        }
        "sam" => sam_text(rng, 12, crlf, false),
        "vcf" => vcf_text(rng, 10, crlf),
        "vcfgz" => {
            let t = vcf_text(rng, 10, false);
            let br = random_breaks(rng, t.len());
            crate::bgzip(&t, &br, rng.chance(5, 6), 6)
        }
        "bcf" => {
            let t = vcf_text(rng, 10, false);
            let (h, recs) = parse_vcf(&t);
            let mut w = bcf::io::Writer::from(Vec::new());
            w.write_header(&h).unwrap();
            for rec in &recs {
                w.write_variant_record(&h, rec).unwrap();
            }
            let raw = w.into_inner();
            let br = random_breaks(rng, raw.len());
            crate::bgzip(&raw, &br, rng.chance(5, 6), 6)
        }
        "fasta" => fasta_text(rng, crlf),
        "fastq" => fastq_text(rng, crlf),
        "gff" | "gfflines" => gff_text(rng, crlf),
        "csi" => {
            let index = csi_index(rng);
            let mut w = csi::io::Writer::new(Vec::new());
            w.write_index(&index).unwrap();
            w.into_inner().finish().unwrap()
        }
        "tbi" => {
            let index = tabix_index(rng);
            let mut w = tabix::io::Writer::new(Vec::new());
            w.write_index(&index).unwrap();
            w.into_inner().finish().unwrap()
        }
        _ => panic!("fmt {fmt}"),
    }
}

/// offsets at which a record starts (and the end of the last one) in an uncompressed BAM / BCF stream
fn record_boundaries(fmt: &str, p: &[u8]) -> Vec<usize> {
    let u32at = |i: usize| -> Option<usize> { p.get(i..i + 4).map(|b| u32::from_le_bytes([b[0], b[1], b[2], b[3]]) as usize) };
    let mut at = if fmt == "bcf" {
        match u32at(5) {
            Some(l) => 9 + l,
            None => return vec![],
        }
    } else {
        // magic, l_text, text, n_ref, (l_name, name, l_ref)*
        let mut at = match u32at(4) {
            Some(l) => 8 + l,
            None => return vec![],
        };
        let n = u32at(at).unwrap_or(0);
        at += 4;
        for _ in 0..n {
            at += 4 + u32at(at).unwrap_or(0) + 4;
        }
        at
    };
    let mut v = Vec::new();
    while at <= p.len() {
        v.push(at);
        let len = if fmt == "bcf" {
            match (u32at(at), u32at(at + 4)) {
                (Some(a), Some(b)) => 8 + a + b,
                _ => break,
            }
        } else {
            match u32at(at) {
                Some(a) => 4 + a,
                None => break,
            }
        };
        at += len;
    }
    v
}

fn is_bgzf_fmt(fmt: &str) -> bool {
    matches!(fmt, "bam" | "bamlazy" | "bcf" | "vcfgz" | "csi" | "tbi")
}

fn is_text_fmt(fmt: &str) -> bool {
    matches!(fmt, "sam" | "vcf" | "fasta" | "fastq" | "gff" | "gfflines")
}

// ---------------------------------------------------------------------------------------------
// transcripts

fn e(err: &io::Error) -> String {
    format!("Err:{}", errkind(err))
}

fn dbg<X: std::fmt::Debug>(x: &X) -> String {
    // a record's Debug text; long ones are folded to a hash (exact compare of the text itself)
    let mut s = format!("{x:?}");
    // hash-map order is not an observation: drop the `indices: {..}` maps of vcf StringMaps (the
    // `entries` vectors next to them carry the same information in a fixed order)
    while let Some(i) = s.find("indices: {") {
        match s[i..].find('}') {
            Some(j) => s.replace_range(i..i + j + 1, "indices: _"),
            None => break,
        }
    }
    if s.len() <= 160 || std::env::var("NV_C16_FULL").is_ok() {
        s
    } else {
        let mut h = 0xcbf29ce484222325u64;
        for b in s.bytes() {
            h = (h ^ b as u64).wrapping_mul(0x100000001b3);
        }
        format!("{}..#{}:{h:016x}", &s[..60], s.len())
    }
}

/// drain a sync iterator of io::Result items into a transcript
fn drain_sync<X: std::fmt::Debug>(t: &mut T, it: impl Iterator<Item = io::Result<X>>) {
    for item in it {
        match item {
            Ok(x) => t.push(dbg(&x)),
            Err(err) => {
                t.push(e(&err));
                return;
            }
        }
    }
    t.push("eof".into());
}

async fn drain_async<X: std::fmt::Debug, S>(t: &mut T, mut s: S)
where
    S: futures::Stream<Item = io::Result<X>> + Unpin,
{
    loop {
        match s.try_next().await {
            Ok(Some(x)) => t.push(dbg(&x)),
            Ok(None) => {
                t.push("eof".into());
                return;
            }
            Err(err) => {
                t.push(e(&err));
                return;
            }
        }
    }
}

fn sync_read(fmt: &str, file: &[u8]) -> T {
    let mut t = T::new();
    match fmt {
        "bam" | "bamlazy" => {
            let mut r = bam::io::Reader::new(file);
            let h = match r.read_header() {
                Ok(h) => h,
                Err(err) => return vec![e(&err)],
            };
            t.push(dbg(&h));
            if fmt == "bam" {
                drain_sync(&mut t, r.record_bufs(&h));
            } else {
                drain_sync(&mut t, r.records().map(|x| x.map(|rec| sam::alignment::RecordBuf::try_from_alignment_record(&h, &rec))));
            }
            if t.last().map(|x| x == "eof").unwrap_or(false) {
                // (after an error the reader's position is unspecified on both sides)
                t.push(format!("vp{}", u64::from(r.get_ref().virtual_position())));
            }
        }
        "bcf" => {
            let mut r = bcf::io::Reader::new(file);
            let h = match r.read_header() {
                Ok(h) => h,
                Err(err) => {
                    if std::env::var_os("VERIF_C16_RDSTAT").is_some() {
                        eprintln!("RDSTAT bcf header error: {err}");
                    }
                    return vec![e(&err)];
                }
            };
            t.push(dbg(&h));
            drain_sync(&mut t, r.records().map(|x| x.map(|rec| vcf::variant::RecordBuf::try_from_variant_record(&h, &rec))));
            if t.last().map(|x| x == "eof").unwrap_or(false) {
                // (after an error the reader's position is unspecified on both sides)
                t.push(format!("vp{}", u64::from(r.get_ref().virtual_position())));
            }
        }
        "cram" => {
            let mut r = cram::io::reader::Builder::default()
                .set_reference_sequence_repository(repository())
                .build_from_reader(file);
            let h = match r.read_header() {
                Ok(h) => h,
                Err(err) => return vec![e(&err)],
            };
            t.push(dbg(&h));
            drain_sync(&mut t, r.records(&h));
        }
        "sam" => {
            let mut r = sam::io::Reader::new(file);
            let h = match r.read_header() {
                Ok(h) => h,
                Err(err) => return vec![e(&err)],
            };
            t.push(dbg(&h));
            drain_sync(&mut t, r.record_bufs(&h));
        }
        "vcf" | "vcfgz" => {
            let inner: Box<dyn BufRead> = if fmt == "vcf" { Box::new(file) } else { Box::new(bgzf::io::Reader::new(file)) };
            let mut r = vcf::io::Reader::new(inner);
            let h = match r.read_header() {
                Ok(h) => h,
                Err(err) => return vec![e(&err)],
            };
            t.push(dbg(&h));
            drain_sync(&mut t, r.record_bufs(&h));
        }
        "fasta" => {
            let mut r = fasta::io::Reader::new(file);
            loop {
                let mut d = fasta::record::Definition::default();
                match r.read_definition(&mut d) {
                    Ok(0) => {
                        t.push("eof".into());
                        break;
                    }
                    Ok(_) => t.push(dbg(&d)),
                    Err(err) => {
                        t.push(e(&err));
                        break;
                    }
                }
                let mut seq = Vec::new();
                match r.read_sequence(&mut seq) {
                    Ok(_) => t.push(format!("seq:{}", nv::hex(&seq))),
                    Err(err) => {
                        t.push(e(&err));
                        break;
                    }
                }
            }
        }
        "fastq" => {
            let mut r = fastq::io::Reader::new(file);
            drain_sync(&mut t, r.records());
        }
        "gff" => {
            let mut r = gff::io::Reader::new(file);
            drain_sync(&mut t, r.record_bufs());
        }
        "gfflines" => {
            let mut r = gff::io::Reader::new(file);
            drain_sync(&mut t, r.line_bufs());
        }
        "csi" => match csi::io::Reader::new(file).read_index() {
            Ok(i) => t.push(dbg(&i)),
            Err(err) => t.push(e(&err)),
        },
        "tbi" => match tabix::io::Reader::new(file).read_index() {
            Ok(i) => t.push(dbg(&i)),
            Err(err) => t.push(e(&err)),
        },
        _ => panic!("fmt {fmt}"),
    }
    t
}

fn bgzf_async(src: AdvReader, workers: usize) -> bgzf::r#async::io::Reader<AdvReader> {
    bgzf::r#async::io::reader::Builder::default()
        .set_worker_count(NonZero::new(workers.max(1)).unwrap())
        .build_from_reader(src)
}

fn buf_cap(seed: u64) -> usize {
    [1usize, 2, 3, 7, 16, 64, 8192][(seed % 7) as usize]
}

async fn async_read(fmt: &str, src: AdvReader, workers: usize, seed: u64) -> T {
    let mut t = T::new();
    match fmt {
        "bam" | "bamlazy" => {
            let mut r = bam::r#async::io::Reader::from(bgzf_async(src, workers));
            let h = match r.read_header().await {
                Ok(h) => h,
                Err(err) => return vec![e(&err)],
            };
            t.push(dbg(&h));
            if fmt == "bam" {
                drain_async(&mut t, r.record_bufs(&h)).await;
            } else {
                let s = r.records().map_ok(|rec| sam::alignment::RecordBuf::try_from_alignment_record(&h, &rec));
                drain_async(&mut t, Box::pin(s)).await;
            }
            if t.last().map(|x| x == "eof").unwrap_or(false) {
                // (after an error the reader's position is unspecified on both sides)
                t.push(format!("vp{}", u64::from(r.get_ref().virtual_position())));
            }
        }
        "bcf" => {
            let mut r = bcf::r#async::io::Reader::from(bgzf_async(src, workers));
            let h = match r.read_header().await {
                Ok(h) => h,
                Err(err) => return vec![e(&err)],
            };
            t.push(dbg(&h));
            {
                let s = r.records().map_ok(|rec| vcf::variant::RecordBuf::try_from_variant_record(&h, &rec));
                drain_async(&mut t, Box::pin(s)).await;
            }
            if t.last().map(|x| x == "eof").unwrap_or(false) {
                // (after an error the reader's position is unspecified on both sides)
                t.push(format!("vp{}", u64::from(r.get_ref().virtual_position())));
            }
        }
        "cram" => {
            let mut r = cram::r#async::io::reader::Builder::default()
                .set_reference_sequence_repository(repository())
                .build_from_reader(src);
            let h = match r.read_header().await {
                Ok(h) => h,
                Err(err) => return vec![e(&err)],
            };
            t.push(dbg(&h));
            drain_async(&mut t, Box::pin(r.records(&h))).await;
        }
        "sam" => {
            let mut r = sam::r#async::io::Reader::new(tokio::io::BufReader::with_capacity(buf_cap(seed), src));
            let h = match r.read_header().await {
                Ok(h) => h,
                Err(err) => return vec![e(&err)],
            };
            t.push(dbg(&h));
            drain_async(&mut t, Box::pin(r.record_bufs(&h))).await;
        }
        "vcf" => {
            let mut r = vcf::r#async::io::Reader::new(tokio::io::BufReader::with_capacity(buf_cap(seed), src));
            let h = match r.read_header().await {
                Ok(h) => h,
                Err(err) => return vec![e(&err)],
            };
            t.push(dbg(&h));
            drain_async(&mut t, Box::pin(r.record_bufs(&h))).await;
        }
        "vcfgz" => {
            let mut r = vcf::r#async::io::Reader::new(bgzf_async(src, workers));
            let h = match r.read_header().await {
                Ok(h) => h,
                Err(err) => return vec![e(&err)],
            };
            t.push(dbg(&h));
            drain_async(&mut t, Box::pin(r.record_bufs(&h))).await;
        }
        "fasta" => {
            let mut r = fasta::r#async::io::Reader::new(tokio::io::BufReader::with_capacity(buf_cap(seed), src));
            loop {
                let mut d = fasta::record::Definition::default();
                match r.read_definition(&mut d).await {
                    Ok(0) => {
                        t.push("eof".into());
                        break;
                    }
                    Ok(_) => t.push(dbg(&d)),
                    Err(err) => {
                        t.push(e(&err));
                        break;
                    }
                }
                let mut seq = Vec::new();
                match r.read_sequence(&mut seq).await {
                    Ok(_) => t.push(format!("seq:{}", nv::hex(&seq))),
                    Err(err) => {
                        t.push(e(&err));
                        break;
                    }
                }
            }
        }
        "fastq" => {
            let mut r = fastq::r#async::io::Reader::new(tokio::io::BufReader::with_capacity(buf_cap(seed), src));
            drain_async(&mut t, Box::pin(r.records())).await;
        }
        "gff" => {
            let mut r = gff::r#async::io::Reader::new(tokio::io::BufReader::with_capacity(buf_cap(seed), src));
            drain_async(&mut t, Box::pin(r.record_bufs())).await;
        }
        "gfflines" => {
            let mut r = gff::r#async::io::Reader::new(tokio::io::BufReader::with_capacity(buf_cap(seed), src));
            drain_async(&mut t, Box::pin(r.line_bufs())).await;
        }
        "csi" => match csi::r#async::io::Reader::new(src).read_index().await {
            Ok(i) => t.push(dbg(&i)),
            Err(err) => t.push(e(&err)),
        },
        "tbi" => match tabix::r#async::io::Reader::new(src).read_index().await {
            Ok(i) => t.push(dbg(&i)),
            Err(err) => t.push(e(&err)),
        },
        _ => panic!("fmt {fmt}"),
    }
    t
}

/// compare two transcripts; Err((class, detail)) with class in reader | error
fn compare(s: &T, a: &T) -> Result<(), (&'static str, String)> {
    if s == a {
        return Ok(());
    }
    let i = s.iter().zip(a.iter()).position(|(x, y)| x != y).unwrap_or(s.len().min(a.len()));
    let (x, y) = (s.get(i).cloned().unwrap_or_default(), a.get(i).cloned().unwrap_or_default());
    let class = if x.starts_with("Err:") || y.starts_with("Err:") || x == "eof" || y == "eof" { "error" } else { "reader" };
    Err((class, format!("item#{i} sync={x} async={y}")))
}

/// length of an ITF8 / LTF8 value from its first byte
pub fn tf8_len(b: u8, long: bool) -> usize {
    let n = b.leading_ones() as usize;
    if long { n.min(8) + 1 } else { n.min(4) + 1 }
}

/// (offset of the first block of the header container, container length) of a CRAM 3.x file
pub fn cram_header_container_body(f: &[u8]) -> Option<(usize, usize)> {
    let mut at = 26;
    let len = i32::from_le_bytes(f.get(at..at + 4)?.try_into().ok()?);
    at += 4;
    for long in [false, false, false, false, true, true, false] {
        at += tf8_len(*f.get(at)?, long);
    }
    let n = *f.get(at)? as usize; // landmark count (< 128 here)
    if n >= 128 || len < 0 {
        return None;
    }
    at += 1;
    for _ in 0..n {
        at += tf8_len(*f.get(at)?, false);
    }
    at += 4;
    Some((at, len as usize))
}

/// the compression method byte of the first block of the header container
pub fn cram_header_block_method(f: &[u8]) -> Option<u8> {
    let (at, len) = cram_header_container_body(f)?;
    if len == 0 { None } else { f.get(at).copied() }
}

fn fmt_family(fmt: &str) -> &str {
    match fmt {
        "bamlazy" => "bam",
        "vcfgz" => "vcf",
        "gfflines" => "gff",
        "tbi" => "tabix",
        f => f,
    }
}

fn run_rd(c: &Case) -> Obs {
    let fmt = c.args[0].as_str();
    let file = c.b(1);
    let (mode, seed, workers) = (c.u(2) as u8, c.u(3), c.u(4) as usize);
    let fam = fmt_family(fmt);
    let s = match guarded(std::panic::AssertUnwindSafe(|| sync_read(fmt, &file))) {
        Outcome::Done(t) => t,
        Outcome::Panicked(_) => vec!["Panic".into()],
    };
    let sched = Sched::new(mode, seed);
    let tripped = sched.tripped.clone();
    let src = AdvReader::new(file.clone(), sched);
    let a = match guarded(std::panic::AssertUnwindSafe(|| block_on(async_read(fmt, src, workers, seed)))) {
        Outcome::Done(t) => t,
        Outcome::Panicked(_) => vec!["Panic".into()],
    };
    if tripped.load(Ordering::SeqCst) {
        return Obs::fail("-", &format!("async-{fam}-hang"), format!("poll limit reached file={}", crate::short_hex(&file)));
    }
    if std::env::var_os("VERIF_C16_RDSTAT").is_some() {
        // development aid: which end each transcript reached (one line per case on stderr)
        eprintln!("RDSTAT {fmt} len={} last={}", s.len(), s.last().map(|x| x.chars().take(40).collect::<String>()).unwrap_or_default());
    }
    let nontrivial = s.len() >= 3 || (matches!(fmt, "csi" | "tbi") && !s[0].starts_with("Err"));
    match compare(&s, &a) {
        Ok(()) => Obs::ok("-", nontrivial),
        Err((class, detail)) => {
            // a BGZF-level malformation of one of the known framing classes explains the difference
            if is_bgzf_fmt(fmt) {
                let bs = crate::boundaries(&file);
                if *bs.last().unwrap() != file.len() {
                    let tag = crate::classify_frame_diff(&file);
                    if tag != "async-bgzf-reader-differs" {
                        return Obs::fail("-", tag, format!("fmt={fmt} {detail}"));
                    }
                }
            }
            // BCF: the stream ends inside the header text (fewer than l_text bytes follow the l_text field):
            // the sync header reader reports UnexpectedEof (/repo b36f6c8), the async one parses what is there
            if fmt == "bcf" {
                if let Ok(p) = bgzf_decode(&file) {
                    if p.len() >= 9 && &p[..3] == b"BCF" {
                        let l_text = u32::from_le_bytes([p[5], p[6], p[7], p[8]]) as usize;
                        if p.len() - 9 < l_text {
                            return Obs::fail("-", "async-bcf-header-text-shorter-than-l-text", format!("{detail} file={}", crate::short_hex(&file)));
                        }
                    }
                }
            }
            // CRAM: the header container's block says gzip (method 1) but its data is not a well-formed gzip
            // stream: flate2's GzDecoder (sync) reports InvalidInput, async_compression's GzipDecoder InvalidData
            if fmt == "cram"
                && cram_header_block_method(&file) == Some(1)
                && s.len() == 1
                && a.len() == 1
                && s[0] == "Err:InvalidInput"
                && a[0] == "Err:InvalidData"
            {
                return Obs::fail("-", "async-cram-header-gzip-block-malformed-error-kind", format!("{detail} file={}", crate::short_hex(&file)));
            }
            // FASTA: a CR at the beginning of a sequence line (followed by a byte other than LF) is kept by
            // the async reader and skipped by the sync one
            if fmt == "fasta" && (0..file.len()).any(|i| (i == 0 || file[i - 1] == b'\n') && file[i] == b'\r' && i + 1 < file.len() && file[i + 1] != b'\n') {
                return Obs::fail("-", "async-fasta-bol-cr-kept", format!("cap={} {detail} file={}", buf_cap(seed), crate::short_hex(&file)));
            }
            // FASTA: a CR LF pair split over two fills of the AsyncBufRead keeps the CR in the sequence
            if fmt == "fasta" && file.contains(&b'\r') {
                let strip = |t: &T| -> T { t.iter().map(|x| if x.starts_with("seq:") { x.replace("0d", "") } else { x.clone() }).collect() };
                let a_has_cr = a.iter().any(|x| x.starts_with("seq:") && x[4..].as_bytes().chunks(2).any(|c| c == b"0d"));
                if a_has_cr && strip(&s) == strip(&a) {
                    return Obs::fail("-", "async-fasta-crlf-split-keeps-cr", format!("cap={} {detail} file={}", buf_cap(seed), crate::short_hex(&file)));
                }
            }
            // FASTA: '>' in the middle of a sequence line ends the sequence when a fill happens to start there
            if fmt == "fasta" && file.windows(2).any(|w| w[1] == b'>' && w[0] != b'\n') {
                return Obs::fail("-", "async-fasta-definition-prefix-mid-line-at-fill-start", format!("cap={} {detail} file={}", buf_cap(seed), crate::short_hex(&file)));
            }
            // CSI: the sync reader folds every failure (also a short read) into InvalidData
            if matches!(fmt, "csi" | "tbi") && s.last().map(|x| x == "Err:InvalidData").unwrap_or(false) && a.last().map(|x| x == "Err:UnexpectedEof").unwrap_or(false) {
                return Obs::fail("-", &format!("async-{fam}-short-input-error-kind"), format!("{detail} file={}", crate::short_hex(&file)));
            }
            Obs::fail("-", &format!("async-{fam}-{class}-differs"), format!("fmt={fmt} {detail} file={}", crate::short_hex(&file)))
        }
    }
}

// ---------------------------------------------------------------------------------------------
// queries

fn bam_index(file: &[u8]) -> io::Result<bam::bai::Index> {
    use sam::alignment::Record as _;
    let mut r = bam::io::Reader::new(file);
    let h = r.read_header()?;
    let mut rec = bam::Record::default();
    let mut ix = Indexer::<LinearIndex>::default();
    let mut start = r.get_ref().virtual_position();
    while r.read_record(&mut rec)? != 0 {
        let end = r.get_ref().virtual_position();
        let ctx = match (rec.reference_sequence_id().transpose()?, rec.alignment_start().transpose()?, rec.alignment_end().transpose()?) {
            (Some(id), Some(s), Some(e)) => Some((id, s, e, !rec.flags().is_unmapped())),
            _ => None,
        };
        ix.add_record(ctx, Chunk::new(start, end))?;
        start = end;
    }
    Ok(ix.build(h.reference_sequences().len()))
}

fn gen_regions(rng: &mut Rng, nref: u64) -> Vec<Region> {
    (0..6)
        .map(|_| {
            let r = rng.below(nref + 1);
            let name = format!("sq{r}"); // sq<nref> does not exist: error path
            match rng.below(4) {
                0 => name.parse().unwrap(),
                _ => {
                    let s = match rng.below(3) {
                        0 => rng.range(16380, 16390),
                        1 => rng.range(1, 2000),
                        _ => rng.range(1, 40000),
                    };
                    let e = s + match rng.below(3) {
                        0 => 0,
                        1 => rng.below(100),
                        _ => rng.below(20000),
                    };
                    format!("{name}:{s}-{e}").parse().unwrap()
                }
            }
        })
        .collect()
}

fn run_q(c: &Case) -> Obs {
    use sam::alignment::io::Write as _;
    let fmt = c.args[0].as_str();
    let (seed, mode, sseed, workers) = (c.u(1), c.u(2) as u8, c.u(3), c.u(4) as usize);
    // shared = 1: all regions are queried one after the other on ONE reader; 0: a fresh reader per region
    let shared = c.u(5) == 1;
    let mut rng = Rng::new(seed);
    let sched = Sched::new(mode, sseed);
    let tripped = sched.tripped.clone();
    let group = |regions: &[Region]| -> Vec<Vec<Region>> {
        if shared { vec![regions.to_vec()] } else { regions.iter().map(|r| vec![r.clone()]).collect() }
    };
    // seek targets (chunk starts) of the successive queries, to recognise the known class
    let mut targets: Vec<u64> = Vec::new();
    let (s, a): (T, T) = match fmt {
        "bam" => {
            let text = sam_text(&mut rng, 40, false, true);
            let (h, recs) = parse_sam(&text);
            let mut w = bam::io::Writer::from(Vec::new());
            w.write_header(&h).unwrap();
            for r in &recs {
                w.write_alignment_record(&h, r).unwrap();
            }
            let raw = w.into_inner();
            let br = random_breaks(&mut rng, raw.len());
            let file = crate::bgzip(&raw, &br, rng.chance(5, 6), 6);
            let index = bam_index(&file).expect("index of generated BAM");
            let regions = gen_regions(&mut rng, h.reference_sequences().len() as u64);
            let unmapped_too = shared && rng.chance(1, 2);
            for region in &regions {
                use binning_index::BinningIndex as _;
                if let Some(id) = h.reference_sequences().get_index_of(region.name()) {
                    if let Ok(cs) = index.query(id, region.interval()) {
                        targets.extend(cs.iter().map(|c| u64::from(c.start())));
                    }
                }
            }
            let mut s = T::new();
            for g in group(&regions) {
                let mut r = bam::io::Reader::new(Cursor::new(file.clone()));
                let h = r.read_header().unwrap();
                for region in &g {
                    s.push(format!("q {region}"));
                    match r.query(&h, &index, region) {
                        Ok(q) => drain_sync(&mut s, q.records().map(|x| x.map(|rec| sam::alignment::RecordBuf::try_from_alignment_record(&h, &rec)))),
                        Err(err) => s.push(e(&err)),
                    }
                }
                if unmapped_too {
                    s.push("unmapped".into());
                    match r.query_unmapped(&index) {
                        Ok(q) => drain_sync(&mut s, q.map(|x| x.map(|rec| sam::alignment::RecordBuf::try_from_alignment_record(&h, &rec)))),
                        Err(err) => s.push(e(&err)),
                    }
                }
            }
            let a = block_on(async {
                let mut a = T::new();
                for (gi, g) in group(&regions).into_iter().enumerate() {
                    let src = AdvReader::new(file.clone(), sched.fork(gi as u64));
                    let mut r = bam::r#async::io::Reader::from(bgzf_async(src, workers));
                    let h = r.read_header().await.unwrap();
                    for region in &g {
                        a.push(format!("q {region}"));
                        match r.query(&h, &index, region) {
                            Ok(q) => {
                                let st = q.records().map_ok(|rec| sam::alignment::RecordBuf::try_from_alignment_record(&h, &rec));
                                drain_async(&mut a, Box::pin(st)).await
                            }
                            Err(err) => a.push(e(&err)),
                        }
                    }
                    if unmapped_too {
                        a.push("unmapped".into());
                        match r.query_unmapped(&index).await {
                            Ok(q) => {
                                let st = q.map_ok(|rec| sam::alignment::RecordBuf::try_from_alignment_record(&h, &rec));
                                drain_async(&mut a, Box::pin(st)).await
                            }
                            Err(err) => a.push(e(&err)),
                        }
                    }
                }
                a
            });
            (s, a)
        }
        "vcfgz" => {
            let t = vcf_text(&mut rng, 30, false);
            let br = random_breaks(&mut rng, t.len());
            let file = crate::bgzip(&t, &br, rng.chance(5, 6), 6);
            // tabix index through the sync reader and the tabix indexer
            let index = {
                let mut r = vcf::io::Reader::new(bgzf::io::Reader::new(&file[..]));
                let h = r.read_header().unwrap();
                let mut ix = tabix::index::Indexer::default();
                ix.set_header(csi::binning_index::index::header::Builder::vcf().build());
                let mut start = r.get_ref().virtual_position();
                let mut rec = vcf::Record::default();
                while r.read_record(&mut rec).unwrap() != 0 {
                    use vcf::variant::Record as _;
                    let end = r.get_ref().virtual_position();
                    let name = rec.reference_sequence_name().to_string();
                    let st = rec.variant_start().unwrap().unwrap();
                    let en = rec.variant_end(&h).unwrap();
                    ix.add_record(&name, st, en, Chunk::new(start, end)).unwrap();
                    start = end;
                }
                ix.build()
            };
            let regions = gen_regions(&mut rng, 2);
            for region in &regions {
                use binning_index::BinningIndex as _;
                let id = index.header().and_then(|hd| hd.reference_sequence_names().get_index_of(region.name()));
                if let Some(id) = id {
                    if let Ok(cs) = index.query(id, region.interval()) {
                        targets.extend(cs.iter().map(|c| u64::from(c.start())));
                    }
                }
            }
            let mut s = T::new();
            for g in group(&regions) {
                let mut r = vcf::io::Reader::new(bgzf::io::Reader::new(Cursor::new(file.clone())));
                let h = r.read_header().unwrap();
                for region in &g {
                    s.push(format!("q {region}"));
                    match r.query(&h, &index, region) {
                        Ok(q) => drain_sync(&mut s, q.records().map(|x| x.map(|rec| vcf::variant::RecordBuf::try_from_variant_record(&h, &rec)))),
                        Err(err) => s.push(e(&err)),
                    }
                }
            }
            let a = block_on(async {
                let mut a = T::new();
                for (gi, g) in group(&regions).into_iter().enumerate() {
                    let src = AdvReader::new(file.clone(), sched.fork(gi as u64));
                    let mut r = vcf::r#async::io::Reader::new(bgzf_async(src, workers));
                    let h = r.read_header().await.unwrap();
                    for region in &g {
                        a.push(format!("q {region}"));
                        match r.query(&h, &index, region) {
                            Ok(q) => {
                                let st = q.records().map_ok(|rec| vcf::variant::RecordBuf::try_from_variant_record(&h, &rec));
                                drain_async(&mut a, Box::pin(st)).await
                            }
                            Err(err) => a.push(e(&err)),
                        }
                    }
                }
                a
            });
            (s, a)
        }
        _ => return Obs::fail("-", "harness-unknown-kind", fmt),
    };
    let fam = fmt_family(fmt);
    if tripped.load(Ordering::SeqCst) {
        return Obs::fail("-", &format!("async-{fam}-hang"), format!("query poll limit reached seed={seed}"));
    }
    let nontrivial = s.iter().filter(|x| !x.starts_with("q ") && *x != "eof" && !x.starts_with("Err")).count() > 0;
    match compare(&s, &a) {
        Ok(()) => Obs::ok("-", nontrivial),
        Err((_, detail)) => {
            // known class: on one reader, a poll_seek whose target equals the previous poll_seek's
            // target is skipped by bgzf::async::io::Reader::poll_seek (state Done(p) with p == pos)
            let repeated = shared && targets.windows(2).any(|w| w[0] == w[1]);
            if repeated {
                return Obs::fail("-", "async-bgzf-poll-seek-repeated-target-skipped", format!("fmt={fmt} seed={seed} targets={targets:?} {detail}"));
            }
            Obs::fail("-", &format!("async-{fam}-query-differs"), format!("seed={seed} shared={shared} {detail}"))
        }
    }
}

// ---------------------------------------------------------------------------------------------
// writers

fn bgzf_decode(b: &[u8]) -> Result<Vec<u8>, String> {
    let mut r = bgzf::io::Reader::new(b);
    let mut all = Vec::new();
    let mut buf = vec![0u8; 8192];
    loop {
        match r.read(&mut buf) {
            Ok(0) => return Ok(all),
            Ok(k) => all.extend_from_slice(&buf[..k]),
            Err(err) => return Err(errkind(&err)),
        }
    }
}

fn run_wr(c: &Case) -> Obs {
    use sam::alignment::io::Write as _;
    use vcf::variant::io::Write as _;
    let fmt = c.args[0].as_str();
    let (seed, mode, sseed, workers) = (c.u(1), c.u(2) as u8, c.u(3), c.u(4) as usize);
    let fam = fmt_family(fmt);
    let mut rng = Rng::new(seed);
    let sched = Sched::new(mode, sseed);
    let tripped = sched.tripped.clone();
    let (sink, log) = AdvWriter::new(sched);
    let bgzf_sink = |sink: AdvWriter| {
        bgzf::r#async::io::writer::Builder::default()
            .set_worker_count(NonZero::new(workers.max(1)).unwrap())
            .build_from_writer(sink)
    };
    // (sync bytes, async result, is the payload bgzf-compressed, nontrivial)
    let (sync_out, ares, compressed, nontrivial): (Vec<u8>, io::Result<()>, bool, bool) = match fmt {
        "bam" => {
            let (h, recs) = parse_sam(&sam_text(&mut rng, 30, false, false));
            let mut w = bam::io::Writer::new(Vec::new());
            w.write_header(&h).unwrap();
            for r in &recs {
                w.write_alignment_record(&h, r).unwrap();
            }
            w.try_finish().unwrap();
            let s = w.get_ref().get_ref().clone();
            let a = block_on(async {
                let mut w = bam::r#async::io::Writer::from(bgzf_sink(sink));
                w.write_header(&h).await?;
                for r in &recs {
                    w.write_alignment_record(&h, r).await?;
                }
                w.shutdown().await
            });
            (s, a, true, !recs.is_empty())
        }
        "bcf" => {
            let (h, recs) = parse_vcf(&vcf_text(&mut rng, 20, false));
            let mut w = bcf::io::Writer::new(Vec::new());
            w.write_header(&h).unwrap();
            for r in &recs {
                w.write_variant_record(&h, r).unwrap();
            }
            w.try_finish().unwrap();
            let s = w.get_ref().get_ref().clone();
            let a = block_on(async {
                let mut w = bcf::r#async::io::Writer::from(bgzf_sink(sink));
                w.write_header(&h).await?;
                for r in &recs {
                    w.write_variant_record(&h, r).await?;
                }
                w.get_mut().shutdown().await
            });
            (s, a, true, !recs.is_empty())
        }
        "sam" => {
            let (h, recs) = parse_sam(&sam_text(&mut rng, 30, false, false));
            let mut w = sam::io::Writer::new(Vec::new());
            w.write_header(&h).unwrap();
            for r in &recs {
                w.write_alignment_record(&h, r).unwrap();
            }
            let s = w.get_ref().clone();
            let a = block_on(async {
                let mut w = sam::r#async::io::Writer::new(sink);
                w.write_header(&h).await?;
                for r in &recs {
                    w.write_alignment_record(&h, r).await?;
                }
                w.get_mut().shutdown().await
            });
            (s, a, false, !recs.is_empty())
        }
        "vcf" | "vcfgz" => {
            let (h, recs) = parse_vcf(&vcf_text(&mut rng, 20, false));
            if fmt == "vcf" {
                let mut w = vcf::io::Writer::new(Vec::new());
                w.write_header(&h).unwrap();
                for r in &recs {
                    w.write_variant_record(&h, r).unwrap();
                }
                let s = w.get_ref().clone();
                let a = block_on(async {
                    let mut w = vcf::r#async::io::Writer::new(sink);
                    w.write_header(&h).await?;
                    for r in &recs {
                        w.write_variant_record(&h, r).await?;
                    }
                    w.shutdown().await
                });
                (s, a, false, !recs.is_empty())
            } else {
                let mut w = vcf::io::Writer::new(bgzf::io::Writer::new(Vec::new()));
                w.write_header(&h).unwrap();
                for r in &recs {
                    w.write_variant_record(&h, r).unwrap();
                }
                w.get_mut().try_finish().unwrap();
                let s = w.get_ref().get_ref().clone();
                let a = block_on(async {
                    let mut w = vcf::r#async::io::Writer::new(bgzf_sink(sink));
                    w.write_header(&h).await?;
                    for r in &recs {
                        w.write_variant_record(&h, r).await?;
                    }
                    w.shutdown().await
                });
                (s, a, true, !recs.is_empty())
            }
        }
        "fasta" => {
            let text = fasta_text(&mut rng, false);
            let recs: Vec<fasta::Record> = fasta::io::Reader::new(&text[..]).records().collect::<Result<_, _>>().unwrap();
            let mut w = fasta::io::Writer::new(Vec::new());
            for r in &recs {
                w.write_record(r).unwrap();
            }
            let s = w.get_ref().clone();
            let a = block_on(async {
                let mut w = fasta::r#async::io::Writer::new(sink);
                for r in &recs {
                    w.write_record(r).await?;
                }
                w.get_mut().shutdown().await
            });
            (s, a, false, !recs.is_empty())
        }
        "fastq" => {
            let text = fastq_text(&mut rng, false);
            let recs: Vec<fastq::Record> = fastq::io::Reader::new(&text[..]).records().collect::<Result<_, _>>().unwrap();
            let mut w = fastq::io::Writer::new(Vec::new());
            for r in &recs {
                w.write_record(r).unwrap();
            }
            let s = w.get_ref().clone();
            let a = block_on(async {
                let mut w = fastq::r#async::io::Writer::new(sink);
                for r in &recs {
                    w.write_record(r).await?;
                }
                w.get_mut().shutdown().await
            });
            (s, a, false, !recs.is_empty())
        }
        "csi" => {
            let index = csi_index(&mut rng);
            let mut w = csi::io::Writer::new(Vec::new());
            w.write_index(&index).unwrap();
            let s = w.into_inner().finish().unwrap();
            let a = block_on(async {
                let mut w = csi::r#async::io::Writer::new(sink);
                w.write_index(&index).await?;
                w.shutdown().await
            });
            (s, a, true, !index.reference_sequences().is_empty())
        }
        "tbi" => {
            let index = tabix_index(&mut rng);
            let mut w = tabix::io::Writer::new(Vec::new());
            w.write_index(&index).unwrap();
            let s = w.into_inner().finish().unwrap();
            let a = block_on(async {
                let mut w = tabix::r#async::io::Writer::new(sink);
                w.write_index(&index).await?;
                w.shutdown().await
            });
            (s, a, true, !index.reference_sequences().is_empty())
        }
        "cram" => {
            let (h, recs) = parse_sam(&sam_text_ln(&mut rng, 30, false, false, 1500));
            // the CRAM record conversion can panic on some records (a sync-side defect, C07); a panic
            // is an observation that both writers must share
            let sres = guarded(std::panic::AssertUnwindSafe(|| {
                let mut w = cram::io::writer::Builder::default()
                    .set_reference_sequence_repository(repository())
                    .build_from_writer(Vec::new());
                w.write_header(&h).unwrap();
                for r in &recs {
                    w.write_alignment_record(&h, r).unwrap();
                }
                w.try_finish(&h).unwrap();
                w.get_ref().clone()
            }));
            let ares = guarded(std::panic::AssertUnwindSafe(|| {
                block_on(async {
                    let mut w = cram::r#async::io::writer::Builder::default()
                        .set_reference_sequence_repository(repository())
                        .build_from_writer(sink);
                    w.write_header(&h).await?;
                    for r in &recs {
                        w.write_alignment_record(&h, r).await?;
                    }
                    w.shutdown(&h).await
                })
            }));
            match (sres, ares) {
                (Outcome::Done(s), Outcome::Done(a)) => (s, a, false, !recs.is_empty()),
                (Outcome::Panicked(_), Outcome::Panicked(_)) => return Obs { obs: "-".into(), verdict: "skip".into(), nontrivial: false },
                (Outcome::Panicked(m), _) => return Obs::fail("-", "async-cram-panic-differs", format!("seed={seed} only the sync writer panicked: {m}")),
                (_, Outcome::Panicked(m)) => return Obs::fail("-", "async-cram-panic-differs", format!("seed={seed} only the async writer panicked: {m}")),
            }
        }
        _ => return Obs::fail("-", "harness-unknown-kind", fmt),
    };
    if tripped.load(Ordering::SeqCst) {
        return Obs::fail("-", &format!("async-{fam}-hang"), format!("writer poll limit reached seed={seed}"));
    }
    if let Err(err) = ares {
        return Obs::fail("-", &format!("async-{fam}-writer-differs"), format!("async writer failed ({}) where the sync writer succeeded; seed={seed}", errkind(&err)));
    }
    let async_out = log.lock().unwrap().bytes.clone();
    if sync_out == async_out {
        return Obs::ok("-", nontrivial);
    }
    // CSI: (1) the async writer never writes the n_ref field; (2) it stores each bin's own loffset
    // where the sync writer stores the minimum over the bin and its chain of present ancestors
    if fmt == "csi" {
        use binning_index::{BinningIndex as _, ReferenceSequence as _};
        if let (Ok(ps), Ok(pa)) = (bgzf_decode(&sync_out), bgzf_decode(&async_out)) {
            let off = if ps.len() >= 16 { 16 + i32::from_le_bytes([ps[12], ps[13], ps[14], ps[15]]).max(0) as usize } else { usize::MAX };
            if off != usize::MAX && ps.len() == pa.len() + 4 && pa.len() >= off && ps[..off] == pa[..off] {
                // put the missing field back and look at what else differs
                let mut repaired = pa[..off].to_vec();
                repaired.extend_from_slice(&ps[off..off + 4]);
                repaired.extend_from_slice(&pa[off..]);
                if repaired == ps {
                    return Obs::fail("-", "async-csi-writer-omits-n-ref", format!("seed={seed} async payload = sync payload without the 4-byte n_ref at offset {off}"));
                }
                let (x, y) = (csi::io::Reader::new(&sync_out[..]).read_index(), csi::io::Reader::new(&crate::bgzip(&repaired, &[], true, 6)[..]).read_index());
                if let (Ok(x), Ok(y)) = (x, y) {
                    let same_but_loffsets = x.min_shift() == y.min_shift()
                        && x.depth() == y.depth()
                        && x.header() == y.header()
                        && x.unplaced_unmapped_record_count() == y.unplaced_unmapped_record_count()
                        && x.reference_sequences().len() == y.reference_sequences().len()
                        && x.reference_sequences().iter().zip(y.reference_sequences()).all(|(p, q)| p.bins() == q.bins() && p.metadata() == q.metadata());
                    if same_but_loffsets {
                        return Obs::fail("-", "async-csi-writer-omits-n-ref-and-bin-loffset-differs", format!("seed={seed} n_ref missing at offset {off}; with it restored only the per-bin loffsets differ (sync: ancestor-chain minimum, async: the bin's own)"));
                    }
                }
            }
        }
    }
    // CRAM: the writer's output is not a function of its input (hash-map iteration order in the
    // compression header), so bytes are compared only when two sync runs agree with each other
    if fmt == "cram" {
        let same = sync_read("cram", &sync_out) == sync_read("cram", &async_out);
        return if same { Obs::ok("-", nontrivial) } else { Obs::fail("-", "async-cram-writer-differs", format!("seed={seed} decoded records differ")) };
    }
    // not byte-identical: do they at least decode to the same content?
    let same_content = if compressed {
        bgzf_decode(&sync_out) == bgzf_decode(&async_out)
    } else if fmt == "cram" {
        sync_read("cram", &sync_out) == sync_read("cram", &async_out)
    } else {
        false
    };
    let at = sync_out.iter().zip(async_out.iter()).position(|(x, y)| x != y).unwrap_or(sync_out.len().min(async_out.len()));
    let tag = if same_content { format!("async-{fam}-writer-bytes-differ") } else { format!("async-{fam}-writer-differs") };
    Obs::fail(
        "-",
        &tag,
        format!("seed={seed} first difference at byte {at}: sync_len={} async_len={} sync={} async={}", sync_out.len(), async_out.len(),
            hex(&sync_out[at.saturating_sub(4)..(at + 12).min(sync_out.len())]), hex(&async_out[at.saturating_sub(4)..(at + 12).min(async_out.len())])),
    )
}

// ---------------------------------------------------------------------------------------------

const RD_FMTS: &[&str] = &["bam", "bamlazy", "bcf", "cram", "sam", "vcf", "vcfgz", "fasta", "fastq", "gff", "gfflines", "csi", "tbi"];
const WR_FMTS: &[&str] = &["bam", "bcf", "sam", "vcf", "vcfgz", "fasta", "fastq", "csi", "tbi", "cram"];

pub fn generate(rng: &mut Rng, tier: &str, w: &mut CaseWriter) {
    let thorough = tier == "thorough";
    let per_fmt = if thorough { 160 } else { 14 };
    for fmt in RD_FMTS {
        for i in 0..per_fmt {
            let mut f = make_file(rng, fmt);
            // 60% valid; the rest: truncations (random, near the end), trailing bytes, a flipped bit
            // (flips only where a corrupt length field cannot ask for a huge allocation)
            match i % 10 {
                0..=5 => {}
                6 => {
                    let k = rng.below(f.len() as u64 + 1) as usize;
                    f.truncate(k);
                }
                7 => {
                    let k = f.len().saturating_sub(rng.range(1, 40) as usize);
                    f.truncate(k);
                }
                8 => {
                    let n = rng.range(1, 30) as usize;
                    f.extend(rng.bytes(n));
                }
                _ => {
                    if (is_text_fmt(fmt) || is_bgzf_fmt(fmt)) && !f.is_empty() {
                        let at = rng.below(f.len() as u64) as usize;
                        f[at] ^= 1 << rng.below(8);
                    }
                }
            }
            w.push("rd", vec![fmt.to_string(), hex(&f), rng.below(6).to_string(), rng.next().to_string(), rng.range(1, 8).to_string()]);
        }
    }
    // every truncation point of one small file per format; for the BGZF-wrapped formats the cut is
    // made in the uncompressed payload and the prefix is compressed again (the BGZF layer stays well
    // formed, so the format-level error paths are compared; BGZF-level cuts are the `frame` kind)
    for fmt in RD_FMTS {
        let f = loop {
            let f = make_file(rng, fmt);
            if f.len() <= (if thorough { 1500 } else { 500 }) {
                break f;
            }
        };
        let payload = if is_bgzf_fmt(fmt) { bgzf_decode(&f).unwrap() } else { f.clone() };
        let step = (if thorough { 1 } else { 3 }).max(payload.len() / (if thorough { 1500 } else { 200 }));
        for k in (0..payload.len()).step_by(step) {
            let cut = if is_bgzf_fmt(fmt) {
                let br = if k % 2 == 0 { vec![] } else { vec![k / 2] };
                crate::bgzip(&payload[..k], &br, k % 5 != 0, 6)
            } else {
                payload[..k].to_vec()
            };
            w.push("rd", vec![fmt.to_string(), hex(&cut), [1u8, 5, 2][k % 3].to_string(), rng.next().to_string(), "2".into()]);
        }
    }
    // BAM / BCF: cuts 0..5 bytes after every record boundary of the uncompressed stream (the
    // length-prefix paths: clean end vs UnexpectedEof), BGZF layer intact
    for fmt in ["bam", "bamlazy", "bcf"] {
        for _ in 0..(if thorough { 12 } else { 2 }) {
            let f = make_file(rng, fmt);
            let payload = bgzf_decode(&f).unwrap();
            let bounds = record_boundaries(fmt, &payload);
            for (bi, &b) in bounds.iter().enumerate() {
                if !thorough && bi > 3 && bi + 2 < bounds.len() {
                    continue;
                }
                for d in 0..6usize {
                    let k = (b + d).min(payload.len());
                    let cut = crate::bgzip(&payload[..k], &[], d % 2 == 0, 6);
                    w.push("rd", vec![fmt.to_string(), hex(&cut), [0u8, 1, 5][d % 3].to_string(), rng.next().to_string(), "3".into()]);
                }
            }
        }
    }
    for i in 0..(if thorough { 60 } else { 6 }) {
        let f = fasta_text(rng, i % 2 == 0);
        w.push("rd", vec!["fasta".to_string(), hex(&f), [1u8, 2, 5][i % 3].to_string(), (rng.next() / 7 * 7 + (i as u64 % 4)).to_string(), "1".into()]);
    }
    let nq = if thorough { 400 } else { 30 };
    for i in 0..nq {
        let fmt = ["bam", "vcfgz"][i % 2];
        let shared = if i % 4 == 3 { 1 } else { 0 };
        w.push("q", vec![fmt.to_string(), rng.next().to_string(), rng.below(6).to_string(), rng.next().to_string(), rng.range(1, 8).to_string(), shared.to_string()]);
    }
    let nw = if thorough { 100 } else { 8 };
    for fmt in WR_FMTS {
        for _ in 0..nw {
            w.push("wr", vec![fmt.to_string(), rng.next().to_string(), rng.below(6).to_string(), rng.next().to_string(), rng.range(1, 8).to_string()]);
        }
    }
}

pub fn run(c: &Case) -> Option<Obs> {
    match c.kind.as_str() {
        "rd" => Some(run_rd(c)),
        "q" => Some(run_q(c)),
        "wr" => Some(run_wr(c)),
        _ => None,
    }
}
