//! C16: the async index writers hand the sink exactly the bytes of the sync index writers.
//!
//! Modelled kinds (obs compared with the extracted Coq model NV.Async.IndexWrite, whose input
//! types are C17's index values NV.Index.Layout / NV.Index.CsiLayout):
//!   wgzi <entries> <mode> <sseed>                        gzi    (noodles_bgzf::gzi)
//!   wbai <unplaced> <refs> <mode> <sseed>                BAI    (noodles_bam::bai)
//!   wcsi <ms> <depth> <hdr> <refs> <unplaced> <mode> <sseed>   CSI    (noodles_csi)
//!   wtbi <hdr> <refs> <unplaced> <mode> <sseed>          tabix  (noodles_tabix)
//! The index is carried in C17's text encoding (harness/src/shared/c17_layout.rs and
//! ocaml/c17_driver.ml; its helpers are private there, so the few parsers are repeated here):
//!   hdr   = `-` | fmt:seq:beg:end:meta:skip:names   fmt in g b s v; end `-`|n; names hex,hex (`.` empty name, `_` none)
//!   chunks= a:b,a:b | `_`        bins = id=chunks;id=chunks | `_`      meta = a:b:c:d | `-`
//!   csi ref = bins|loffs|meta    loffs = id:v,id:v | `_`
//!   BAI / tabix ref = bins|meta|intervals
//!   refs joined by `/` (`_` none); unplaced `-` | n;  gzi entries = chunks
//! Each case builds the real Index value through the public builders and writes it
//!   (s) with the real SYNC writer into a Vec<u8>,
//!   (a) with the real ASYNC writer over an always-ready recording sink (every poll_write accepts the
//!       whole buffer, so the log of accepted lengths IS the list of tokio write calls), and
//!   (b) with the real ASYNC writer over the scripted sink `Sched::new(mode, sseed)` (partial
//!       writes + Pending).
//! For CSI / tabix the writers wrap the sink in a BGZF writer: both outputs are inflated and the call
//! lengths cannot be observed at the sink (compression in between), so only bytes + status are
//! compared for them.
//!   obs (gzi, BAI)   calls=<lengths of the async write calls> bytes=<hex> end=<ok|Err:kind|Panic> sync=<hex> ok
//!   obs (CSI, tabix) bytes=<hex of the inflated payload> end=<...> sync=<hex> ok
//!   when the sync writer fails: `sync=- Err:<kind>` / `sync=- Panic`; `bytes=` are the bytes the async
//!   writer handed over before it failed (`-` after a panic of a BGZF-wrapped writer: the staged
//!   block is lost with the writer).
//! The model reproduces all of it from the index alone: calls / bytes / end from async_X (the list of
//! buffers of the async writer), sync from C17's w_X / X_status.
//! verdict: ok iff the async writer ends like the sync one (same error kind) over both sinks and hands
//! over the same bytes (complete when Ok; also the bytes written before a failure);
//! nontrivial = at least one reference sequence / one gzi entry.

use std::io::Read;
use std::sync::atomic::Ordering;

use indexmap::IndexMap;
use noodles_bam::bai;
use noodles_bgzf::{self as bgzf, VirtualPosition as VP, gzi};
use noodles_csi::{
    self as csi,
    binning_index::{
        self,
        index::{
            Header, ReferenceSequence,
            header::{Builder as HB, Format, format::CoordinateSystem},
            reference_sequence::{Bin, Metadata, bin::Chunk, index::BinnedIndex, index::LinearIndex},
        },
    },
};
use noodles_tabix as tabix;
use nv::{Case, CaseWriter, Obs, Outcome, Rng, errkind, guarded, hex};
use tokio::io::AsyncWriteExt;

use crate::c16_adversary::{AdvWriter, Sched, block_on};

// ------------------------------------------------------------------------------------------
// text -> values (C17's encoding)

fn opt<T>(s: &str, f: impl Fn(&str) -> T) -> Option<T> {
    if s == "-" { None } else { Some(f(s)) }
}
fn list<T>(sep: char, s: &str, f: impl Fn(&str) -> T) -> Vec<T> {
    if s == "_" { vec![] } else { s.split(sep).map(f).collect() }
}
fn fmt_list<T>(sep: &str, l: &[T], f: impl Fn(&T) -> String) -> String {
    if l.is_empty() { "_".into() } else { l.iter().map(f).collect::<Vec<_>>().join(sep) }
}
fn u(s: &str) -> u64 {
    s.parse().unwrap()
}
fn pairs(s: &str) -> Vec<(u64, u64)> {
    list(',', s, |p| {
        let (a, b) = p.split_once(':').unwrap();
        (u(a), u(b))
    })
}
fn fmt_pairs(cs: &[(u64, u64)]) -> String {
    fmt_list(",", cs, |(a, b)| format!("{a}:{b}"))
}

fn parse_hdr(s: &str) -> Option<Header> {
    opt(s, |s| {
        let f: Vec<&str> = s.split(':').collect();
        let fmt = match f[0] {
            "g" => Format::Generic(CoordinateSystem::Gff),
            "b" => Format::Generic(CoordinateSystem::Bed),
            "s" => Format::Sam,
            _ => Format::Vcf,
        };
        let names: Vec<Vec<u8>> = list(',', f[6], |n| if n == "." { vec![] } else { nv::unhex(n) });
        HB::default()
            .set_format(fmt)
            .set_reference_sequence_name_index(u(f[1]) as usize)
            .set_start_position_index(u(f[2]) as usize)
            .set_end_position_index(opt(f[3], |e| u(e) as usize))
            .set_line_comment_prefix(u(f[4]) as u8)
            .set_line_skip_count(u(f[5]) as u32)
            .set_reference_sequence_names(names.into_iter().map(|n| n.into()).collect())
            .build()
    })
}
fn parse_meta(s: &str) -> Option<Metadata> {
    opt(s, |m| {
        let m: Vec<u64> = m.split(':').map(u).collect();
        Metadata::new(VP::from(m[0]), VP::from(m[1]), m[2], m[3])
    })
}
fn parse_bins(s: &str) -> IndexMap<usize, Bin> {
    list(';', s, |b| {
        let (id, cs) = b.split_once('=').unwrap();
        let cs: Vec<Chunk> = pairs(cs).iter().map(|&(a, b)| Chunk::new(VP::from(a), VP::from(b))).collect();
        (u(id) as usize, Bin::new(cs))
    })
    .into_iter()
    .collect()
}
fn parse_cref(s: &str) -> ReferenceSequence<BinnedIndex> {
    let f: Vec<&str> = s.split('|').collect();
    let loffs: BinnedIndex = pairs(f[1]).into_iter().map(|(id, v)| (id as usize, VP::from(v))).collect();
    ReferenceSequence::new(parse_bins(f[0]), loffs, parse_meta(f[2]))
}
fn parse_tref(s: &str) -> ReferenceSequence<LinearIndex> {
    let f: Vec<&str> = s.split('|').collect();
    let ivs: LinearIndex = list(',', f[2], |x| VP::from(u(x)));
    ReferenceSequence::new(parse_bins(f[0]), ivs, parse_meta(f[1]))
}

fn lin_index(hdr: &str, refs: &str, unplaced: &str) -> binning_index::Index<LinearIndex> {
    let mut b = binning_index::Index::<LinearIndex>::builder().set_reference_sequences(list('/', refs, parse_tref));
    if let Some(h) = parse_hdr(hdr) {
        b = b.set_header(h);
    }
    if let Some(n) = opt(unplaced, u) {
        b = b.set_unplaced_unmapped_record_count(n);
    }
    b.build()
}

// ------------------------------------------------------------------------------------------
// running

/// how a writer ended, and the bytes it handed over (None: unknown, lost in a panic)
struct Run {
    end: String,
    bytes: Option<Vec<u8>>,
    calls: Vec<usize>,
}

fn end_of(r: &std::io::Result<()>) -> String {
    match r {
        Ok(()) => "ok".into(),
        Err(e) => format!("Err:{}", errkind(e)),
    }
}

fn inflate(file: &[u8]) -> Result<Vec<u8>, String> {
    let mut out = Vec::new();
    bgzf::io::Reader::new(file).read_to_end(&mut out).map_err(|e| errkind(&e))?;
    Ok(out)
}

#[derive(Clone)]
enum Ix {
    Gzi(gzi::Index),
    Bai(bai::Index),
    Csi(csi::Index),
    Tbi(tabix::Index),
}

impl Ix {
    fn name(&self) -> &'static str {
        match self {
            Ix::Gzi(_) => "gzi",
            Ix::Bai(_) => "bai",
            Ix::Csi(_) => "csi",
            Ix::Tbi(_) => "tabix",
        }
    }
    fn bgzf(&self) -> bool {
        matches!(self, Ix::Csi(_) | Ix::Tbi(_))
    }
}

/// the real sync writer into a Vec (BGZF-wrapped writers: finished, then inflated)
fn write_sync(ix: &Ix) -> Result<Run, String> {
    let ix = ix.clone();
    let r = guarded(std::panic::AssertUnwindSafe(move || -> Result<(String, Vec<u8>), String> {
        match &ix {
            Ix::Gzi(i) => {
                let mut buf = Vec::new();
                let r = gzi::io::Writer::new(&mut buf).write_index(i);
                Ok((end_of(&r), buf))
            }
            Ix::Bai(i) => {
                let mut buf = Vec::new();
                let r = bai::io::Writer::new(&mut buf).write_index(i);
                Ok((end_of(&r), buf))
            }
            Ix::Csi(i) => {
                let mut w = csi::io::Writer::new(Vec::new());
                let r = w.write_index(i);
                let file = w.into_inner().finish().map_err(|e| format!("finish {}", errkind(&e)))?;
                Ok((end_of(&r), inflate(&file)?))
            }
            Ix::Tbi(i) => {
                let mut w = tabix::io::Writer::new(Vec::new());
                let r = w.write_index(i);
                let file = w.into_inner().finish().map_err(|e| format!("finish {}", errkind(&e)))?;
                Ok((end_of(&r), inflate(&file)?))
            }
        }
    }));
    match r {
        Outcome::Panicked(_) => Ok(Run { end: "Panic".into(), bytes: None, calls: vec![] }),
        Outcome::Done(Ok((end, bytes))) => Ok(Run { end, bytes: Some(bytes), calls: vec![] }),
        Outcome::Done(Err(e)) => Err(e),
    }
}

/// the real async writer over an AdvWriter driven by `sched`; Err = the harness-level failure
/// (tag suffix, detail): hang, shutdown error, output that is not BGZF
fn write_async(ix: &Ix, sched: Sched) -> Result<Run, (String, String)> {
    let tripped = sched.tripped.clone();
    let (sink, log) = AdvWriter::new(sched);
    let ix2 = ix.clone();
    let r = guarded(std::panic::AssertUnwindSafe(move || {
        block_on(async move {
            // (write_index result, shutdown result)
            match &ix2 {
                Ix::Gzi(i) => {
                    let mut w = gzi::r#async::io::Writer::new(sink);
                    let r = w.write_index(i).await;
                    let s = w.get_mut().shutdown().await;
                    (r, s)
                }
                Ix::Bai(i) => {
                    let mut w = bai::r#async::io::Writer::new(sink);
                    let r = w.write_index(i).await;
                    let s = w.shutdown().await;
                    (r, s)
                }
                Ix::Csi(i) => {
                    let mut w = csi::r#async::io::Writer::new(sink);
                    let r = w.write_index(i).await;
                    let s = w.shutdown().await;
                    (r, s)
                }
                Ix::Tbi(i) => {
                    let mut w = tabix::r#async::io::Writer::new(sink);
                    let r = w.write_index(i).await;
                    let s = w.shutdown().await;
                    (r, s)
                }
            }
        })
    }));
    if tripped.load(Ordering::SeqCst) {
        return Err(("hang".into(), "poll limit reached".into()));
    }
    let l = log.lock().unwrap();
    match r {
        Outcome::Panicked(_) => {
            // a plain sink has what was written before the panic; a BGZF writer's staged block is gone
            let bytes = if ix.bgzf() { None } else { Some(l.bytes.clone()) };
            Ok(Run { end: "Panic".into(), bytes, calls: l.transfers.clone() })
        }
        Outcome::Done((r, s)) => {
            if let Err(e) = s {
                return Err(("shutdown-error".into(), errkind(&e)));
            }
            let bytes = if ix.bgzf() {
                inflate(&l.bytes).map_err(|e| ("output-not-bgzf".to_string(), e))?
            } else {
                l.bytes.clone()
            };
            Ok(Run { end: end_of(&r), bytes: Some(bytes), calls: l.transfers.clone() })
        }
    }
}

fn fmt_bytes(b: &Option<Vec<u8>>) -> String {
    match b {
        Some(b) => hex(b),
        None => "-".into(),
    }
}
fn fmt_calls(c: &[usize]) -> String {
    fmt_list(",", c, |n| n.to_string())
}

fn run_ix(c: &Case, ix: Ix, nontrivial: bool, mode: u8, sseed: u64) -> Obs {
    let x = ix.name();
    let sync = match write_sync(&ix) {
        Ok(r) => r,
        Err(e) => return Obs::fail("-", &format!("sync-{x}-writer-output-unusable"), format!("{e} {}", c.line())),
    };
    let ready = match write_async(&ix, Sched::new(0, 0)) {
        Ok(r) => r,
        Err((t, d)) => return Obs::fail("-", &format!("async-{x}-writer-{t}"), format!("ready sink: {d} {}", c.line())),
    };
    let sync_obs = if sync.end == "ok" { format!("sync={} ok", fmt_bytes(&sync.bytes)) } else { format!("sync=- {}", sync.end) };
    let obs = if ix.bgzf() {
        format!("bytes={} end={} {sync_obs}", fmt_bytes(&ready.bytes), ready.end)
    } else {
        format!("calls={} bytes={} end={} {sync_obs}", fmt_calls(&ready.calls), fmt_bytes(&ready.bytes), ready.end)
    };
    let scripted = match write_async(&ix, Sched::new(mode, sseed)) {
        Ok(r) => r,
        Err((t, d)) => return Obs::fail(obs, &format!("async-{x}-writer-{t}"), format!("scripted sink mode {mode}: {d} {}", c.line())),
    };
    for (what, a) in [("ready", &ready), ("scripted", &scripted)] {
        if a.end != sync.end {
            return Obs::fail(
                obs,
                &format!("async-{x}-writer-error-kind-differs"),
                format!("{what} sink: async {} sync {} {}", a.end, sync.end, c.line()),
            );
        }
        // a panic of a BGZF-wrapped writer loses the staged block on both sides: nothing to compare
        if let (Some(ab), Some(sb)) = (&a.bytes, &sync.bytes)
            && ab != sb
        {
            let tag = if sync.end == "ok" { format!("async-{x}-writer-bytes-differ") } else { format!("async-{x}-writer-bytes-before-error-differ") };
            return Obs::fail(obs, &tag, format!("{what} sink: async {} sync {} {}", hex(ab), hex(sb), c.line()));
        }
    }
    Obs::ok(obs, nontrivial)
}

pub fn run(c: &Case) -> Option<Obs> {
    let n = c.args.len();
    let tail = |c: &Case| (c.u(n - 2) as u8, c.u(n - 1));
    Some(match c.kind.as_str() {
        "wgzi" => {
            let cs = pairs(&c.args[0]);
            let (mode, sseed) = tail(c);
            run_ix(c, Ix::Gzi(gzi::Index::from(cs.clone())), !cs.is_empty(), mode, sseed)
        }
        "wbai" => {
            let index: bai::Index = lin_index("-", &c.args[1], &c.args[0]);
            let (mode, sseed) = tail(c);
            run_ix(c, Ix::Bai(index), c.args[1] != "_", mode, sseed)
        }
        "wcsi" => {
            let mut b = binning_index::Index::<BinnedIndex>::builder()
                .set_min_shift(c.u(0) as u8)
                .set_depth(c.u(1) as u8)
                .set_reference_sequences(list('/', &c.args[3], parse_cref));
            if let Some(h) = parse_hdr(&c.args[2]) {
                b = b.set_header(h);
            }
            if let Some(k) = opt(&c.args[4], u) {
                b = b.set_unplaced_unmapped_record_count(k);
            }
            let index: csi::Index = b.build();
            let (mode, sseed) = tail(c);
            run_ix(c, Ix::Csi(index), c.args[3] != "_", mode, sseed)
        }
        "wtbi" => {
            let index: tabix::Index = lin_index(&c.args[0], &c.args[1], &c.args[2]);
            let (mode, sseed) = tail(c);
            run_ix(c, Ix::Tbi(index), c.args[1] != "_", mode, sseed)
        }
        _ => return None,
    })
}

// ------------------------------------------------------------------------------------------
// generation (the value distributions of C17's generators, plus bin ids that are not u32 for BAI)

fn gen_u64(rng: &mut Rng) -> u64 {
    match rng.below(5) {
        0 => rng.below(100),
        1 => rng.below(1 << 32),
        2 => u64::MAX - rng.below(3),
        3 => 1u64 << rng.below(64),
        _ => rng.next(),
    }
}

fn gen_name(rng: &mut Rng, i: usize, allow_nul: bool) -> Vec<u8> {
    let k = rng.range(0, 6) as usize;
    let mut n: Vec<u8> = rng.bytes(k).into_iter().filter(|&b| allow_nul || b != 0).collect();
    if !rng.chance(1, 8) {
        n.extend_from_slice(format!("r{i}").as_bytes());
    }
    n
}

/// header text; `valid` = the writer must accept it
fn gen_hdr_text(rng: &mut Rng, valid: bool) -> String {
    let fmt = *rng.pick(&["g", "b", "s", "v"]);
    let generic = fmt == "g" || fmt == "b";
    let col = |rng: &mut Rng| -> u64 {
        if valid || rng.chance(3, 4) {
            match rng.below(4) {
                0 => rng.below(12),
                1 => (i32::MAX as u64) - 1 - rng.below(2),
                _ => rng.below(6),
            }
        } else {
            *rng.pick(&[u64::MAX, i32::MAX as u64, i32::MAX as u64 + 1, u64::MAX - 1, 1 << 40])
        }
    };
    let seq = col(rng);
    let beg = col(rng);
    let end = if generic {
        match rng.below(4) {
            0 => "-".to_string(),
            1 => beg.to_string(),
            _ => col(rng).to_string(),
        }
    } else if !valid && rng.chance(1, 3) {
        col(rng).to_string() // SAM / VCF with an end column: InvalidInput
    } else {
        "-".into()
    };
    let meta = *rng.pick(&[b'#', b'@', b'>', 0x00, 0x01, 0xff, b' ']);
    let skip: u64 = if valid || rng.chance(3, 4) {
        *rng.pick(&[0u64, 1, 2, 100, i32::MAX as u64])
    } else {
        *rng.pick(&[i32::MAX as u64 + 1, u32::MAX as u64])
    };
    let nn = rng.range(0, 4) as usize;
    let mut names: Vec<Vec<u8>> = Vec::new();
    for i in 0..nn {
        let nul = !valid && rng.chance(1, 3);
        let n = gen_name(rng, i, nul);
        if !names.contains(&n) {
            names.push(n);
        }
    }
    let names = fmt_list(",", &names, |n| if n.is_empty() { ".".into() } else { hex(n) });
    format!("{fmt}:{seq}:{beg}:{end}:{meta}:{skip}:{names}")
}

fn max_id(d: u64) -> u64 {
    ((1u64 << ((d + 1) * 3)) - 1) / 7
}

/// bin ids with ancestor chains (so the stored chain minimum differs from the own loffset)
fn gen_ids(rng: &mut Rng, d: u64, valid: bool) -> Vec<u64> {
    let lim = max_id(d.min(10));
    let mut ids: Vec<u64> = Vec::new();
    for _ in 0..rng.range(0, 4) {
        let mut id = match rng.below(4) {
            0 => rng.below(lim.min(10)),
            1 => lim - 1 - rng.below(lim.min(3)),
            _ => rng.below(lim),
        };
        if !valid && rng.chance(1, 8) {
            id = *rng.pick(&[lim + 1, lim, u32::MAX as u64, u32::MAX as u64 + 1, 1 << 40]);
        }
        loop {
            if !ids.contains(&id) {
                ids.push(id);
            }
            if id == 0 || id > lim || rng.chance(1, 3) {
                break;
            }
            id = (id - 1) / 8;
        }
    }
    for i in (1..ids.len()).rev() {
        let j = rng.below(i as u64 + 1) as usize;
        ids.swap(i, j);
    }
    ids
}

fn gen_chunks(rng: &mut Rng) -> Vec<(u64, u64)> {
    (0..rng.range(0, 3)).map(|_| (gen_u64(rng), gen_u64(rng))).collect()
}
fn gen_meta_text(rng: &mut Rng) -> String {
    if rng.chance(1, 2) {
        format!("{}:{}:{}:{}", gen_u64(rng), gen_u64(rng), gen_u64(rng), gen_u64(rng))
    } else {
        "-".into()
    }
}
fn gen_unplaced(rng: &mut Rng) -> String {
    if rng.chance(1, 2) { gen_u64(rng).to_string() } else { "-".into() }
}
fn gen_sched(rng: &mut Rng) -> Vec<String> {
    vec![rng.below(6).to_string(), rng.next().to_string()]
}
fn join_refs(refs: Vec<String>) -> String {
    if refs.is_empty() { "_".into() } else { refs.join("/") }
}

/// BAI / tabix reference sequence
fn gen_tref_text(rng: &mut Rng, valid: bool) -> String {
    let mut ids = gen_ids(rng, 5, true);
    if !valid && rng.chance(1, 3) {
        let x = *rng.pick(&[37450u64, u32::MAX as u64, u32::MAX as u64 + 1, 40000, 1 << 40]);
        if !ids.contains(&x) {
            let at = rng.below(ids.len() as u64 + 1) as usize;
            ids.insert(at, x);
        }
    }
    let bins: Vec<String> = ids.iter().map(|id| format!("{id}={}", fmt_pairs(&gen_chunks(rng)))).collect();
    let ivs: Vec<String> = (0..rng.range(0, 5)).map(|_| gen_u64(rng).to_string()).collect();
    format!(
        "{}|{}|{}",
        if bins.is_empty() { "_".into() } else { bins.join(";") },
        gen_meta_text(rng),
        if ivs.is_empty() { "_".into() } else { ivs.join(",") }
    )
}

fn gen_wgzi(rng: &mut Rng, w: &mut CaseWriter) {
    let k = rng.range(0, 8) as usize;
    let big = rng.chance(1, 4);
    let cs: Vec<(u64, u64)> =
        (0..k).map(|_| if big { (gen_u64(rng), gen_u64(rng)) } else { (rng.below(1 << 20), rng.below(1 << 24)) }).collect();
    let mut a = vec![fmt_pairs(&cs)];
    a.extend(gen_sched(rng));
    w.push("wgzi", a);
}

fn gen_wbai(rng: &mut Rng, w: &mut CaseWriter) {
    let valid = rng.chance(3, 4);
    let refs: Vec<String> = (0..rng.range(0, 3)).map(|_| gen_tref_text(rng, valid)).collect();
    let mut a = vec![gen_unplaced(rng), join_refs(refs)];
    a.extend(gen_sched(rng));
    w.push("wbai", a);
}

fn gen_wtbi(rng: &mut Rng, w: &mut CaseWriter) {
    let valid = rng.chance(3, 4);
    let hdr = if !valid && rng.chance(1, 8) { "-".into() } else { gen_hdr_text(rng, valid) };
    let refs: Vec<String> = (0..rng.range(0, 3)).map(|_| gen_tref_text(rng, valid)).collect();
    let mut a = vec![hdr, join_refs(refs), gen_unplaced(rng)];
    a.extend(gen_sched(rng));
    w.push("wtbi", a);
}

fn gen_wcsi(rng: &mut Rng, w: &mut CaseWriter) {
    let valid = rng.chance(3, 4);
    let (ms, d): (u64, u64) = if valid || rng.chance(1, 2) {
        *rng.pick(&[(14, 5), (14, 5), (12, 4), (14, 6), (3, 2), (16, 3), (1, 0), (33, 10), (4, 10), (63, 0), (20, 7)])
    } else {
        *rng.pick(&[(0, 5), (14, 11), (14, 21), (40, 8), (64, 0), (255, 255), (255, 1)])
    };
    let hdr = if rng.chance(1, 3) { "-".into() } else { gen_hdr_text(rng, valid) };
    let refs: Vec<String> = (0..rng.range(0, 3))
        .map(|_| {
            let ids = gen_ids(rng, d, valid);
            let bins: Vec<String> = ids.iter().map(|id| format!("{id}={}", fmt_pairs(&gen_chunks(rng)))).collect();
            // loffsets: the keys of the bins (as the indexer builds them); otherwise also with keys
            // missing or added (the writers then use 0 / the chain as they find it)
            let mut keys = ids.clone();
            if !valid {
                keys.retain(|_| !rng.chance(1, 4));
                if rng.chance(1, 3) {
                    let k = rng.below(max_id(d.min(10)));
                    if !keys.contains(&k) {
                        keys.push(k);
                    }
                }
            }
            let base = gen_u64(rng) >> 8;
            let loffs: Vec<(u64, u64)> =
                keys.iter().map(|&k| (k, if rng.chance(1, 6) { gen_u64(rng) } else { base + rng.below(50) })).collect();
            let meta = gen_meta_text(rng);
            format!("{}|{}|{}", if bins.is_empty() { "_".into() } else { bins.join(";") }, fmt_pairs(&loffs), meta)
        })
        .collect();
    let mut a = vec![ms.to_string(), d.to_string(), hdr, join_refs(refs), gen_unplaced(rng)];
    a.extend(gen_sched(rng));
    w.push("wcsi", a);
}

pub fn generate(rng: &mut Rng, tier: &str, w: &mut CaseWriter) {
    let n = if tier == "thorough" { 2400 } else { 120 };
    for _ in 0..n {
        gen_wgzi(rng, w);
        gen_wbai(rng, w);
        gen_wcsi(rng, w);
        gen_wtbi(rng, w);
    }
}
