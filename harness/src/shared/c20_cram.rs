//! C20, conversions through CRAM (implementation-only oracle, no Coq model): kind `crx`.
//!
//!   crx seed nrec cls        a generated data set (everything derives from `Rng::new(seed)`, nrec, cls)
//!   crx t hextext refs       an explicitly given data set: SAM text, references `name:SEQ,name:SEQ` (`_` = none)
//!
//! For each data set: SAM -> CRAM, BAM -> CRAM, CRAM -> SAM, CRAM -> BAM, CRAM -> CRAM, each one the
//! generic autodetecting reader (`noodles_util::alignment::io::reader::Builder`) piped record by
//! record into the generic writer (`...::writer::Builder`).  Every target is read back with the
//! autodetecting generic reader AND with the format's own reader and compared record for record
//! with the source at the SAM data-model level (`align::canon_line`: the SAM line, floats as bit
//! patterns), modulo only:
//!   * CRAM does not store the mapping quality of a read flagged unmapped (as in c20_align.rs);
//!   * CRAM adds M5/UR to @SQ (as in c20_align.rs);
//!   * CRAM has no `=` / `X` CIGAR operations: they come back as `M` (adjacent ones merged);
//!     applied only to records whose CIGAR holds `=` or `X`;
//!   * the bases of a mapped read that agree with the reference are not stored, so their letter
//!     case is that of the reference ("No assumptions can be made on the letter cases", SAM 1.4
//!     SEQ): SEQ is compared case-insensitively only in data sets whose reference has lower case.
//!
//! The record generator is the rich one of property C06 (gen_name / gen_val / gen_data / gen_tag /
//! gen_float_bits / gen_refname / gen_value are copies of harness/src/shared/c06_part3.rs; `Rec`,
//! `Val`, `to_record_buf`, `from_record_buf` are copies of harness/src/bin/c06.rs), restricted to
//! what CRAM can hold (alignments lie inside a real reference sequence, one for every @SQ; reads
//! flagged unmapped have no CIGAR; RG names a header read group; BAM's base alphabet, upper case;
//! finite floats) and extended by the template shapes of harness/src/shared/c07_gen.rs (pairs,
//! mate unmapped and placed at its mate, mates on two references, supplementary, secondary) plus
//! three-segment templates and reads whose mate is not in the data set.  The SAM source is text
//! written by the harness; the BAM source is written from records with explicit integer widths.
//!
//! Class selector `cls` (what a data set is dense in; every class also holds plain records):
//!   0 mixed      1 noname (QNAME `*`, whole templates and single records)   2 noseq (SEQ `*`, CIGAR `*`)
//!   3 noqual     4 pairs      5 oddmates (TLEN / RNEXT / PNEXT / mate flags that no mate explains)
//!   6 placement (RNAME without POS, POS without RNAME, unmapped reads placed and unplaced)
//!   7 aux (each of the 17 aux types in turn, empty strings and arrays)   8 names (C06's, shared names)
//!   9 cigar (all nine operations)   10 refs (N / IUPAC / lower case in the reference)
//!   11 slices (10240 + nrec records: templates inside a slice and across the slice boundary)
//!   12 manyrefs (20..60 @SQ)
//!   (residual known class RESIDUAL_TAG: bases + 0x4 clear + CIGAR `*` reads back with CIGAR `<len>S`, everything
//!    else as written -- see is_residual_soft_clip; the older tags of cls 13-15 stay as recurrence tags)
//!   13 noseq-cigar, 14 flag-mapped-unplaced, 15 mapped-nocigar: three shapes SAM and BAM hold and
//!      the CRAM writer of /repo refuses or mangles (see CLS_NAMES); kept apart so that they do
//!      not hide the rest.
//!
//! The failure tag is `cram-<direction>-<class>-<what>`: the class is that of the first differing
//! record for the differing column, derived from the record and its neighbours (never from `cls`);
//! when a reader gives up on a whole slice the classes are those of a minimal failing sub data set.
//! Environment (debugging only): NV_C20_DEBUG prints the data set, NV_C20_STATS a class census of
//! the records, NV_C20_STRICT switches the two CRAM-specific tolerances off.

use std::io::{self, Cursor};

use noodles_bam as bam;
use noodles_core::Position;
use noodles_fasta as fasta;
use noodles_sam::{
    self as sam,
    alignment::{
        RecordBuf,
        record::{
            Flags, MappingQuality,
            cigar::{Op, op::Kind},
            data::field::Tag,
        },
        record_buf::{
            Cigar, Data, QualityScores, Sequence,
            data::field::{Value, value::Array},
        },
    },
};
use noodles_util::alignment::{
    self,
    io::{CompressionMethod, Format},
};
use nv::{Case, CaseWriter, Obs, Outcome, Rng, adversary::FaultySink, guarded};

use super::align::{bits_of_text_line, canon_header, canon_line, read_generic, write_generic};
use super::common::show;

/// records per slice of the CRAM writer the generic builder makes (one slice per container)
const SLICE: usize = 10240;

// ---------------------------------------------------------------------------------------------
// The harness' own representation of a record (copy of bin/c06.rs `Spec`).

#[derive(Clone, Debug, PartialEq)]
enum Val {
    /// A c C s S i I f : type char, value (floats as bit pattern)
    Num(char, i64),
    /// Z H
    Str(char, Vec<u8>),
    /// B : subtype char, values (floats as bit patterns)
    Arr(char, Vec<i64>),
}

#[derive(Clone, Debug, PartialEq, Default)]
struct Rec {
    name: Option<Vec<u8>>,
    flags: u16,
    rid: Option<usize>,
    pos: usize, // 0 = missing
    mapq: u8,   // 255 = missing
    cigar: Vec<(u8, usize)>,
    mrid: Option<usize>,
    mpos: usize,
    tlen: i32,
    seq: Vec<u8>,
    qual: Vec<u8>,
    data: Vec<([u8; 2], Val)>,
}

const OPS: &[u8; 9] = b"MIDNSHP=X";

fn kind_of(k: u8) -> Kind {
    match k {
        0 => Kind::Match,
        1 => Kind::Insertion,
        2 => Kind::Deletion,
        3 => Kind::Skip,
        4 => Kind::SoftClip,
        5 => Kind::HardClip,
        6 => Kind::Pad,
        7 => Kind::SequenceMatch,
        _ => Kind::SequenceMismatch,
    }
}
fn code_of(k: Kind) -> u8 {
    match k {
        Kind::Match => 0,
        Kind::Insertion => 1,
        Kind::Deletion => 2,
        Kind::Skip => 3,
        Kind::SoftClip => 4,
        Kind::HardClip => 5,
        Kind::Pad => 6,
        Kind::SequenceMatch => 7,
        Kind::SequenceMismatch => 8,
    }
}

fn val_to_noodles(v: &Val) -> Value {
    match v {
        Val::Num('A', n) => Value::Character(*n as u8),
        Val::Num('c', n) => Value::Int8(*n as i8),
        Val::Num('C', n) => Value::UInt8(*n as u8),
        Val::Num('s', n) => Value::Int16(*n as i16),
        Val::Num('S', n) => Value::UInt16(*n as u16),
        Val::Num('i', n) => Value::Int32(*n as i32),
        Val::Num('I', n) => Value::UInt32(*n as u32),
        Val::Num(_, n) => Value::Float(f32::from_bits(*n as u32)),
        Val::Str('Z', s) => Value::String(s.clone().into()),
        Val::Str(_, s) => Value::Hex(s.clone().into()),
        Val::Arr('c', xs) => Value::Array(Array::Int8(xs.iter().map(|x| *x as i8).collect())),
        Val::Arr('C', xs) => Value::Array(Array::UInt8(xs.iter().map(|x| *x as u8).collect())),
        Val::Arr('s', xs) => Value::Array(Array::Int16(xs.iter().map(|x| *x as i16).collect())),
        Val::Arr('S', xs) => Value::Array(Array::UInt16(xs.iter().map(|x| *x as u16).collect())),
        Val::Arr('i', xs) => Value::Array(Array::Int32(xs.iter().map(|x| *x as i32).collect())),
        Val::Arr('I', xs) => Value::Array(Array::UInt32(xs.iter().map(|x| *x as u32).collect())),
        Val::Arr(_, xs) => Value::Array(Array::Float(xs.iter().map(|x| f32::from_bits(*x as u32)).collect())),
    }
}

fn val_from_noodles(v: &Value) -> Val {
    match v {
        Value::Character(n) => Val::Num('A', *n as i64),
        Value::Int8(n) => Val::Num('c', *n as i64),
        Value::UInt8(n) => Val::Num('C', *n as i64),
        Value::Int16(n) => Val::Num('s', *n as i64),
        Value::UInt16(n) => Val::Num('S', *n as i64),
        Value::Int32(n) => Val::Num('i', *n as i64),
        Value::UInt32(n) => Val::Num('I', *n as i64),
        Value::Float(n) => Val::Num('f', n.to_bits() as i64),
        Value::String(s) => Val::Str('Z', s.to_vec()),
        Value::Hex(s) => Val::Str('H', s.to_vec()),
        Value::Array(a) => match a {
            Array::Int8(xs) => Val::Arr('c', xs.iter().map(|x| *x as i64).collect()),
            Array::UInt8(xs) => Val::Arr('C', xs.iter().map(|x| *x as i64).collect()),
            Array::Int16(xs) => Val::Arr('s', xs.iter().map(|x| *x as i64).collect()),
            Array::UInt16(xs) => Val::Arr('S', xs.iter().map(|x| *x as i64).collect()),
            Array::Int32(xs) => Val::Arr('i', xs.iter().map(|x| *x as i64).collect()),
            Array::UInt32(xs) => Val::Arr('I', xs.iter().map(|x| *x as i64).collect()),
            Array::Float(xs) => Val::Arr('f', xs.iter().map(|x| x.to_bits() as i64).collect()),
        },
    }
}

fn to_record_buf(s: &Rec) -> RecordBuf {
    let mut r = RecordBuf::default();
    *r.name_mut() = s.name.clone().map(|n| n.into());
    *r.flags_mut() = Flags::from(s.flags);
    *r.reference_sequence_id_mut() = s.rid;
    *r.alignment_start_mut() = Position::new(s.pos);
    *r.mapping_quality_mut() = MappingQuality::new(s.mapq);
    *r.cigar_mut() = s.cigar.iter().map(|(k, l)| Op::new(kind_of(*k), *l)).collect::<Cigar>();
    *r.mate_reference_sequence_id_mut() = s.mrid;
    *r.mate_alignment_start_mut() = Position::new(s.mpos);
    *r.template_length_mut() = s.tlen;
    *r.sequence_mut() = Sequence::from(s.seq.clone());
    *r.quality_scores_mut() = QualityScores::from(s.qual.clone());
    let mut d = Data::default();
    for (t, v) in &s.data {
        d.insert(Tag::new(t[0], t[1]), val_to_noodles(v));
    }
    *r.data_mut() = d;
    r
}

fn from_record_buf(r: &RecordBuf) -> Rec {
    Rec {
        name: r.name().map(|n| n.to_vec()),
        flags: u16::from(r.flags()),
        rid: r.reference_sequence_id(),
        pos: r.alignment_start().map(usize::from).unwrap_or(0),
        mapq: r.mapping_quality().map(|m| m.get()).unwrap_or(255),
        cigar: r.cigar().as_ref().iter().map(|op| (code_of(op.kind()), op.len())).collect(),
        mrid: r.mate_reference_sequence_id(),
        mpos: r.mate_alignment_start().map(usize::from).unwrap_or(0),
        tlen: r.template_length(),
        seq: r.sequence().as_ref().to_vec(),
        qual: r.quality_scores().as_ref().to_vec(),
        data: r
            .data()
            .iter()
            .map(|(t, v)| {
                let b: &[u8; 2] = t.as_ref();
                (*b, val_from_noodles(v))
            })
            .collect(),
    }
}

// ---------------------------------------------------------------------------------------------
// SAM text of a `Rec`, written by the harness (independent of noodles).

type Refs = Vec<(Vec<u8>, Vec<u8>)>;

fn f32_text(bits: i64) -> String {
    // the shortest decimal text that parses back to the same bits (Rust's Display)
    format!("{}", f32::from_bits(bits as u32))
}

fn val_text(v: &Val) -> Vec<u8> {
    match v {
        Val::Num('A', n) => vec![b'A', b':', *n as u8],
        Val::Num('f', n) => format!("f:{}", f32_text(*n)).into_bytes(),
        Val::Num(_, n) => format!("i:{n}").into_bytes(),
        Val::Str(t, s) => {
            let mut o = vec![*t as u8, b':'];
            o.extend_from_slice(s);
            o
        }
        Val::Arr(t, xs) => {
            let mut o = format!("B:{t}");
            for x in xs {
                o.push(',');
                if *t == 'f' {
                    o.push_str(&f32_text(*x));
                } else {
                    o.push_str(&x.to_string());
                }
            }
            o.into_bytes()
        }
    }
}

fn sam_line(r: &Rec, refs: &Refs) -> Vec<u8> {
    let rn = |id: Option<usize>| -> Vec<u8> { id.map(|i| refs[i].0.clone()).unwrap_or_else(|| b"*".to_vec()) };
    let mut cols: Vec<Vec<u8>> = Vec::new();
    cols.push(r.name.clone().unwrap_or_else(|| b"*".to_vec()));
    cols.push(r.flags.to_string().into_bytes());
    cols.push(rn(r.rid));
    cols.push(r.pos.to_string().into_bytes());
    cols.push(r.mapq.to_string().into_bytes());
    cols.push(if r.cigar.is_empty() {
        b"*".to_vec()
    } else {
        r.cigar.iter().map(|(k, l)| format!("{l}{}", OPS[*k as usize] as char)).collect::<String>().into_bytes()
    });
    cols.push(if r.mrid.is_some() && r.mrid == r.rid { b"=".to_vec() } else { rn(r.mrid) });
    cols.push(r.mpos.to_string().into_bytes());
    cols.push(r.tlen.to_string().into_bytes());
    cols.push(if r.seq.is_empty() { b"*".to_vec() } else { r.seq.clone() });
    cols.push(if r.qual.is_empty() { b"*".to_vec() } else { r.qual.iter().map(|q| q + 33).collect() });
    for (t, v) in &r.data {
        let mut f = vec![t[0], t[1], b':'];
        f.extend_from_slice(&val_text(v));
        cols.push(f);
    }
    cols.join(&b'\t')
}

// ---------------------------------------------------------------------------------------------
// Generators copied from harness/src/shared/c06_part3.rs (kept faithful; deviations are marked).

fn printable(rng: &mut Rng, lo: u8, hi: u8, n: usize) -> Vec<u8> {
    (0..n)
        .map(|_| match rng.below(8) {
            0 => lo,
            1 => hi,
            _ => rng.range(lo as u64, hi as u64) as u8,
        })
        .collect()
}

fn gen_value(rng: &mut Rng) -> Vec<u8> {
    // header field value: [ -~]+
    let n = match rng.below(6) {
        0 => 1,
        1 => rng.range(1, 3) as usize,
        _ => rng.range(1, 12) as usize,
    };
    let mut v = printable(rng, b' ', b'~', n);
    if rng.chance(1, 6) {
        v[0] = b' ';
    }
    if rng.chance(1, 6) {
        *v.last_mut().unwrap() = b' ';
    }
    if rng.chance(1, 8) {
        v[0] = *rng.pick(&[b'@', b':', b'*', b'=']);
    }
    v
}

const RNAME_BAD: &[u8] = b"\\,\"`'()[]{}<>";
fn gen_refname(rng: &mut Rng, used: &mut Vec<Vec<u8>>) -> Vec<u8> {
    loop {
        let n = match rng.below(5) {
            0 => 1,
            _ => rng.range(1, 10) as usize,
        };
        let mut v: Vec<u8> = Vec::new();
        while v.len() < n {
            let b = match rng.below(6) {
                0 => *rng.pick(b"*=!~|:;@#"),
                _ => rng.range(b'!' as u64, b'~' as u64) as u8,
            };
            if RNAME_BAD.contains(&b) || (v.is_empty() && (b == b'*' || b == b'=')) {
                continue;
            }
            v.push(b);
        }
        if !used.contains(&v) {
            used.push(v.clone());
            return v;
        }
    }
}

fn gen_user_tag(rng: &mut Rng) -> [u8; 2] {
    let a = if rng.chance(3, 4) { rng.range(b'a' as u64, b'z' as u64) as u8 } else { rng.range(b'A' as u64, b'Z' as u64) as u8 };
    let b = match rng.below(3) {
        0 => rng.range(b'0' as u64, b'9' as u64) as u8,
        1 => rng.range(b'a' as u64, b'z' as u64) as u8,
        _ => rng.range(b'A' as u64, b'Z' as u64) as u8,
    };
    [a, b]
}

fn gen_name(rng: &mut Rng) -> Option<Vec<u8>> {
    match rng.below(10) {
        0 => None,
        1 => Some(vec![*rng.pick(b"!~=+-0:;#")]),
        2 => Some(printable(rng, b'!', b'~', 254).into_iter().map(|b| if b == b'@' { b'A' } else { b }).collect()),
        3 => Some(b"**".to_vec()),
        _ => {
            let n = rng.range(1, 20) as usize;
            Some(printable(rng, b'!', b'~', n).into_iter().map(|b| if b == b'@' { b'?' } else { b }).collect())
        }
    }
}

fn gen_qual(rng: &mut Rng, n: usize) -> Vec<u8> {
    match rng.below(5) {
        0 => vec![],
        1 => (0..n).map(|_| *rng.pick(&[0u8, 9, 93, 92, 1, 40])).collect(),
        _ => (0..n).map(|_| rng.range(0, 93) as u8).collect(),
    }
}

fn gen_tag(rng: &mut Rng, used: &mut Vec<[u8; 2]>) -> [u8; 2] {
    loop {
        let t = match rng.below(4) {
            // deviation from C06: RG is drawn separately (CRAM stores it as an index into @RG)
            0 => **rng.pick(&[b"NM", b"MD", b"AS", b"XS", b"BC", b"MM", b"ML", b"Z9", b"z0", b"aa"]),
            _ => gen_user_tag(rng),
        };
        if t != *b"CG" && t != *b"RG" && !used.contains(&t) {
            used.push(t);
            return t;
        }
    }
}

fn range_of(t: char) -> (i64, i64) {
    match t {
        'c' => (i8::MIN as i64, i8::MAX as i64),
        'C' => (0, u8::MAX as i64),
        's' => (i16::MIN as i64, i16::MAX as i64),
        'S' => (0, u16::MAX as i64),
        'i' => (i32::MIN as i64, i32::MAX as i64),
        _ => (0, u32::MAX as i64),
    }
}

fn bound(rng: &mut Rng, lo: i64, hi: i64) -> i64 {
    let specials = [lo, hi, lo + 1, hi - 1, 0, 1, -1, 127, 128, -128, -129, 255, 256, 32767, 32768, -32768, -32769, 65535, 65536, 9, 10, 99, 100];
    match rng.below(3) {
        0 => lo + (rng.next() % ((hi - lo) as u64 + 1)) as i64,
        _ => {
            let v = *rng.pick(&specials);
            v.clamp(lo, hi)
        }
    }
}

fn gen_float_bits(rng: &mut Rng) -> i64 {
    let specials: [u32; 18] = [
        0, 0x8000_0000, 1, 0x8000_0001, 0x007f_ffff, 0x0080_0000, 0x7f7f_ffff, 0xff7f_ffff, 0x3f80_0000, 0xbf80_0000,
        0x3dcc_cccd, 0x4b80_0000, 0x4b7f_ffff, 0x4cbe_bc20, 0x501502f9, 0x3a83126f, 0x3727c5ac, 0x7e967699,
    ];
    loop {
        let b = match rng.below(4) {
            0 => *rng.pick(&specials),
            1 => (rng.range(0, 40) as f32 * 0.25).to_bits() | ((rng.below(2) as u32) << 31),
            _ => rng.next() as u32,
        };
        if f32::from_bits(b).is_finite() {
            return b as i64;
        }
    }
}

const INT_TYPES: [char; 6] = ['c', 'C', 's', 'S', 'i', 'I'];
const ARR_TYPES: [char; 7] = ['c', 'C', 's', 'S', 'i', 'I', 'f'];

fn gen_str_z(rng: &mut Rng) -> Val {
    let n = match rng.below(4) {
        0 => 0,
        _ => rng.range(1, 16) as usize,
    };
    let mut s = printable(rng, b' ', b'~', n);
    if n > 0 && rng.chance(1, 4) {
        s[0] = *rng.pick(b" *:=");
    }
    Val::Str('Z', s)
}
fn gen_str_h(rng: &mut Rng) -> Val {
    let n = rng.below(6) as usize;
    Val::Str('H', (0..2 * n).map(|_| *rng.pick(b"0123456789ABCDEF")).collect())
}
fn gen_arr(rng: &mut Rng, t: char) -> Val {
    let n = match rng.below(4) {
        0 => 0,
        1 => 1,
        _ => rng.range(2, 9) as usize,
    };
    if t == 'f' {
        Val::Arr('f', (0..n).map(|_| gen_float_bits(rng)).collect())
    } else {
        let (lo, hi) = range_of(t);
        Val::Arr(t, (0..n).map(|_| bound(rng, lo, hi)).collect())
    }
}
fn gen_int(rng: &mut Rng, t: char) -> Val {
    let (lo, hi) = range_of(t);
    Val::Num(t, bound(rng, lo, hi))
}

fn gen_val(rng: &mut Rng) -> Val {
    match rng.below(12) {
        0 => Val::Num('A', rng.range(b'!' as u64, b'~' as u64) as i64),
        1 | 2 | 3 => {
            let t = *rng.pick(&INT_TYPES);
            gen_int(rng, t)
        }
        4 | 5 => Val::Num('f', gen_float_bits(rng)),
        6 | 7 => gen_str_z(rng),
        8 => gen_str_h(rng),
        _ => {
            let t = *rng.pick(&ARR_TYPES);
            gen_arr(rng, t)
        }
    }
}

/// one value of the `k`-th of the 17 aux types (A c C s S i I f Z H B:c B:C B:s B:S B:i B:I B:f)
fn gen_val_of_type(rng: &mut Rng, k: usize) -> Val {
    match k % 17 {
        0 => Val::Num('A', rng.range(b'!' as u64, b'~' as u64) as i64),
        k @ 1..=6 => gen_int(rng, INT_TYPES[k - 1]),
        7 => Val::Num('f', gen_float_bits(rng)),
        8 => gen_str_z(rng),
        9 => gen_str_h(rng),
        k => gen_arr(rng, ARR_TYPES[k - 10]),
    }
}

fn gen_data(rng: &mut Rng) -> Vec<([u8; 2], Val)> {
    let n = match rng.below(5) {
        0 => 0,
        1 => 1,
        _ => rng.range(2, 7) as usize,
    };
    let mut used = Vec::new();
    (0..n).map(|_| (gen_tag(rng, &mut used), gen_val(rng))).collect()
}

// ---------------------------------------------------------------------------------------------
// Alignments against a real reference (shapes of harness/src/shared/c07_gen.rs gen_alignment).

const IUPAC: &[u8] = b"RYKMSWBDHV";

fn acgt(rng: &mut Rng) -> u8 {
    *rng.pick(b"ACGT")
}
/// a base of BAM's alphabet that is not A C G T
fn odd_base(rng: &mut Rng) -> u8 {
    match rng.below(10) {
        0..=4 => b'N',
        5..=8 => *rng.pick(IUPAC),
        _ => b'=',
    }
}
fn read_base(rng: &mut Rng) -> u8 {
    if rng.chance(1, 8) { odd_base(rng) } else { acgt(rng) }
}

/// style: 0 = A C G T only; 1 = also stretches of N and single IUPAC codes; 2 = also lower case
fn gen_ref(rng: &mut Rng, len: usize, style: u64) -> Vec<u8> {
    let mut r: Vec<u8> = (0..len).map(|_| acgt(rng)).collect();
    let stretch = |rng: &mut Rng, r: &mut Vec<u8>, f: &dyn Fn(u8) -> u8| {
        let l = (rng.range(3, 40) as usize).min(len);
        let a = rng.below((len - l + 1) as u64) as usize;
        for x in &mut r[a..a + l] {
            *x = f(*x);
        }
    };
    if style >= 1 {
        if rng.chance(1, 2) {
            stretch(rng, &mut r, &|_| b'N');
        }
        for _ in 0..(len / 40 + 1) {
            let i = rng.below(len as u64) as usize;
            r[i] = if rng.chance(1, 2) { b'N' } else { *rng.pick(IUPAC) };
        }
        if rng.chance(1, 3) {
            r[0] = *rng.pick(IUPAC);
        }
        if rng.chance(1, 3) {
            r[len - 1] = b'N';
        }
    }
    if style >= 2 {
        stretch(rng, &mut r, &|c| c.to_ascii_lowercase());
        stretch(rng, &mut r, &|c| c.to_ascii_lowercase());
    }
    r
}

fn small_len(rng: &mut Rng, max: u64) -> usize {
    match rng.below(10) {
        0..=2 => 1,
        3..=4 => 2,
        5..=7 => rng.range(1, max.min(12)) as usize,
        _ => rng.range(1, max) as usize,
    }
}

struct Aln {
    pos: usize,
    cigar: Vec<(u8, usize)>,
    seq: Vec<u8>,
    span: usize,
}

/// an alignment lying inside `refb` (None when the reference is too short for the drawn shape);
/// `eqx` = also `=` / `X` operations; `rich` = also H S N P and several segments
fn gen_alignment(rng: &mut Rng, refb: &[u8], max_match: u64, eqx: bool, rich: bool) -> Option<Aln> {
    let mut ops: Vec<(u8, usize)> = Vec::new();
    let p = if rich { 3 } else { 8 };
    if rng.chance(1, p + 2) {
        ops.push((5, small_len(rng, 20)));
    }
    if rng.chance(1, p) {
        ops.push((4, small_len(rng, 15)));
    }
    let segs = match rng.below(10) {
        0..=3 => 1,
        4..=6 => 2,
        7..=8 => 3,
        _ => rng.range(4, 7),
    };
    for s in 0..segs {
        let k = if eqx {
            match rng.below(10) {
                0..=3 => 0u8,
                4..=7 => 7,
                _ => 8,
            }
        } else {
            0
        };
        // two match segments are always separated by a gap: adjacent operations of one kind
        // (after `=`/`X` -> `M`) would be merged by any reader of CRAM
        let gaps = if rng.chance(1, 6) { 2 } else { 1 };
        ops.push((k, small_len(rng, max_match)));
        if s + 1 < segs {
            for _ in 0..gaps {
                let g = match rng.below(12) {
                    0..=4 => (1u8, small_len(rng, 8)),
                    5..=8 => (2, small_len(rng, 12)),
                    9..=10 => (3, rng.range(1, 60) as usize),
                    _ => (6, small_len(rng, 3)),
                };
                if ops.last().map(|o| o.0) != Some(g.0) {
                    ops.push(g);
                }
            }
        }
    }
    if rng.chance(1, p) {
        ops.push((4, small_len(rng, 15)));
    }
    if rng.chance(1, p + 2) {
        ops.push((5, small_len(rng, 20)));
    }
    let span: usize = ops.iter().filter(|o| matches!(o.0, 0 | 2 | 3 | 7 | 8)).map(|o| o.1).sum();
    if span == 0 || span > refb.len() {
        return None;
    }
    let room = refb.len() - span;
    let pos = 1 + match rng.below(8) {
        0 => 0,
        1 => room,
        2 => room.saturating_sub(1),
        _ => rng.below(room as u64 + 1) as usize,
    };
    let mm = *rng.pick(&[0u64, 0, 3, 10, 35]);
    let mut seq = Vec::new();
    let mut rp = pos - 1;
    for &(k, n) in &ops {
        match k {
            0 => {
                for i in 0..n {
                    let rb = refb[rp + i].to_ascii_uppercase();
                    seq.push(if rng.below(100) < mm { if rng.chance(1, 4) { odd_base(rng) } else { acgt(rng) } } else { rb });
                }
                rp += n;
            }
            7 => {
                for i in 0..n {
                    seq.push(refb[rp + i].to_ascii_uppercase());
                }
                rp += n;
            }
            8 => {
                for i in 0..n {
                    let rb = refb[rp + i];
                    let mut b = if rng.chance(1, 5) { odd_base(rng) } else { acgt(rng) };
                    let mut guard = 0;
                    while b.eq_ignore_ascii_case(&rb) && guard < 50 {
                        b = acgt(rng);
                        guard += 1;
                    }
                    seq.push(b);
                }
                rp += n;
            }
            1 | 4 => {
                for _ in 0..n {
                    seq.push(read_base(rng));
                }
            }
            2 | 3 => rp += n,
            _ => {}
        }
    }
    Some(Aln { pos, cigar: ops, seq, span })
}

// ---------------------------------------------------------------------------------------------
// Data sets.

/// class selectors (what a data set is dense in; every class also holds plain records)
const CLS_NAMES: [&str; 16] = [
    "mixed", "noname", "noseq", "noqual", "pairs", "oddmates", "placement", "aux", "names", "cigar", "refs", "slices", "manyrefs",
    // three shapes SAM and BAM hold and the CRAM writer of /repo does not take; they are kept out
    // of the classes above (where they would hide everything else) and injected here
    "noseq-cigar", "flag-mapped-unplaced", "mapped-nocigar",
];
const CLS_MIXED: u64 = 0;
const CLS_NONAME: u64 = 1;
const CLS_NOSEQ: u64 = 2;
const CLS_NOQUAL: u64 = 3;
const CLS_PAIRS: u64 = 4;
const CLS_ODDMATES: u64 = 5;
const CLS_PLACEMENT: u64 = 6;
const CLS_AUX: u64 = 7;
const CLS_NAMES_: u64 = 8;
const CLS_CIGAR: u64 = 9;
const CLS_REFS: u64 = 10;
const CLS_SLICES: u64 = 11;
const CLS_MANYREFS: u64 = 12;
/// a mapped read whose SEQ is `*` and whose CIGAR is kept
const CLS_NOSEQ_CIGAR: u64 = 13;
/// a read that is not flagged unmapped and has no RNAME or no POS
const CLS_FLAG_MAPPED_UNPLACED: u64 = 14;
/// a mapped read whose CIGAR is `*` and whose bases are kept
const CLS_MAPPED_NOCIGAR: u64 = 15;

struct Generated {
    header_text: Vec<u8>,
    refs: Refs,
    recs: Vec<Rec>,
}

struct G<'a> {
    rng: &'a mut Rng,
    cls: u64,
    refs: Refs,
    rgs: Vec<Vec<u8>>,
    serial: usize,
}

impl G<'_> {
    /// probability of a feature: high in the class that is about it, low elsewhere
    fn p(&mut self, focus: u64, hi: (u64, u64), lo: (u64, u64)) -> bool {
        if self.cls == focus { self.rng.chance(hi.0, hi.1) } else { self.rng.chance(lo.0, lo.1) }
    }

    fn template_name(&mut self) -> Option<Vec<u8>> {
        self.serial += 1;
        let t = self.serial;
        if self.p(CLS_NONAME, (1, 2), (1, 14)) {
            return None;
        }
        if self.cls == CLS_NAMES_ || self.rng.chance(1, 5) {
            // C06's names; a few are shared by unrelated templates
            if self.rng.chance(1, 6) {
                return Some(format!("q{}", self.rng.below(3)).into_bytes());
            }
            // (a one-character name drawn as `*` is the missing name)
            return gen_name(self.rng).filter(|n| n != b"*");
        }
        Some(match self.rng.below(4) {
            0 => format!("read{t}"),
            1 => format!("I:{}:{}:{}", self.rng.below(9), t, self.rng.below(20000)),
            _ => format!("q{t}.{}", self.rng.below(100)),
        }
        .into_bytes())
    }

    fn quals(&mut self, n: usize) -> Vec<u8> {
        if n == 0 {
            return vec![];
        }
        if self.p(CLS_NOQUAL, (1, 2), (1, 12)) {
            return vec![];
        }
        let q = gen_qual(self.rng, n);
        // C06 draws "no qualities" itself one time in five: redraw so that the rate is the one above
        if q.is_empty() { (0..n).map(|_| self.rng.range(0, 93) as u8).collect() } else { q }
    }

    fn mapped(&mut self, rid: usize, name: &Option<Vec<u8>>) -> Option<Rec> {
        let mm = *self.rng.pick(&[8u64, 30, 100]);
        let eqx = self.p(CLS_CIGAR, (1, 2), (1, 40));
        let rich = self.cls == CLS_CIGAR || self.rng.chance(1, 3);
        let a = gen_alignment(self.rng, &self.refs[rid].1.clone(), mm, eqx, rich)?;
        let n = a.seq.len();
        let _ = a.span;
        Some(Rec {
            name: name.clone(),
            flags: (if self.rng.chance(1, 2) { 16 } else { 0 }) | (if self.rng.chance(1, 12) { *self.rng.pick(&[0x200u16, 0x400, 0x600]) } else { 0 }),
            rid: Some(rid),
            pos: a.pos,
            mapq: *self.rng.pick(&[0u8, 1, 30, 60, 254, 255, 37]),
            cigar: a.cigar,
            seq: a.seq,
            qual: self.quals(n),
            ..Default::default()
        })
    }

    fn unmapped(&mut self, name: &Option<Vec<u8>>) -> Rec {
        let n = match self.rng.below(8) {
            0 => 0,
            1 => 1,
            _ => self.rng.range(2, 60) as usize,
        };
        let n = if n == 0 && !self.p(CLS_NOSEQ, (1, 1), (1, 3)) { 3 } else { n };
        let seq: Vec<u8> = (0..n).map(|_| read_base(self.rng)).collect();
        Rec {
            name: name.clone(),
            flags: 4 | (if self.rng.chance(1, 12) { 0x200 } else { 0 }),
            seq,
            qual: self.quals(n),
            mapq: *self.rng.pick(&[0u8, 255, 255, 30]),
            ..Default::default()
        }
    }

    fn end_of(r: &Rec) -> usize {
        let span: usize = r.cigar.iter().filter(|o| matches!(o.0, 0 | 2 | 3 | 7 | 8)).map(|o| o.1).sum();
        r.pos + span.max(1) - 1
    }

    /// mutually consistent mate fields (RNEXT/PNEXT of the mate, 0x20/0x8 from the mate's 0x10/0x4)
    fn link(a: &mut Rec, b: &mut Rec) {
        fn half(x: &mut Rec, y: &Rec) {
            x.mrid = y.rid;
            x.mpos = y.pos;
            if y.flags & 16 != 0 {
                x.flags |= 32;
            }
            if y.flags & 4 != 0 {
                x.flags |= 8;
            }
        }
        let (a0, b0) = (a.clone(), b.clone());
        half(a, &b0);
        half(b, &a0);
    }

    fn pair_tlen(a: &mut Rec, b: &mut Rec) {
        // leftmost segment positive
        let (l, r) = if a.pos <= b.pos { (a, b) } else { (b, a) };
        let t = (Self::end_of(l).max(Self::end_of(r)) - l.pos + 1) as i32;
        l.tlen = t;
        r.tlen = -t;
    }

    fn nrefs(&self) -> usize {
        self.refs.len()
    }

    /// one template: 1..3 records
    fn template(&mut self, focus_ref: Option<usize>) -> Vec<Rec> {
        let name = self.template_name();
        let nrefs = self.nrefs();
        let mut tpl: Vec<Rec> = Vec::new();
        if nrefs == 0 {
            let mut a = self.unmapped(&name);
            if self.rng.chance(1, 3) {
                let mut b = self.unmapped(&name);
                a.flags |= 1 | 64;
                b.flags |= 1 | 128;
                Self::link(&mut a, &mut b);
                tpl.push(a);
                tpl.push(b);
            } else {
                tpl.push(a);
            }
            return tpl;
        }
        let rid = focus_ref.filter(|_| self.rng.chance(4, 5)).unwrap_or(self.rng.below(nrefs as u64) as usize);
        let pairy = self.cls == CLS_PAIRS || self.cls == CLS_ODDMATES || self.cls == CLS_SLICES;
        let kind = if pairy { self.rng.range(6, 21) } else { self.rng.below(22) };
        match kind {
            0..=5 => {
                if let Some(r) = self.mapped(rid, &name) {
                    tpl.push(r);
                }
            }
            6..=11 => {
                // pair on one reference
                if let (Some(mut a), Some(mut b)) = (self.mapped(rid, &name), self.mapped(rid, &name)) {
                    if a.pos > b.pos && self.rng.chance(3, 4) {
                        std::mem::swap(&mut a, &mut b);
                    }
                    a.flags |= 1 | 64;
                    b.flags |= 1 | 128;
                    if self.rng.chance(3, 4) {
                        a.flags |= 2;
                        b.flags |= 2;
                    }
                    Self::link(&mut a, &mut b);
                    Self::pair_tlen(&mut a, &mut b);
                    tpl.push(a);
                    tpl.push(b);
                }
            }
            12 => tpl.push(self.unmapped(&name)),
            13..=14 => {
                let mut a = self.unmapped(&name);
                let mut b = self.unmapped(&name);
                a.flags |= 1 | 64;
                b.flags |= 1 | 128;
                Self::link(&mut a, &mut b);
                tpl.push(a);
                tpl.push(b);
            }
            15 => {
                // secondary / supplementary of a single-end read
                if let Some(a) = self.mapped(rid, &name) {
                    tpl.push(a);
                    let rid2 = self.rng.below(nrefs as u64) as usize;
                    if let Some(mut s) = self.mapped(rid2, &name) {
                        s.flags |= if self.rng.chance(1, 2) { 256 } else { 2048 };
                        tpl.push(s);
                    }
                }
            }
            16 => {
                // mate unmapped, placed at the mapped mate's position (TLEN 0 by convention)
                if let Some(mut a) = self.mapped(rid, &name) {
                    let mut b = self.unmapped(&name);
                    b.rid = a.rid;
                    b.pos = a.pos;
                    a.flags |= 1 | 64;
                    b.flags |= 1 | 128;
                    Self::link(&mut a, &mut b);
                    if self.rng.chance(1, 2) {
                        tpl.push(a);
                        tpl.push(b);
                    } else {
                        tpl.push(b);
                        tpl.push(a);
                    }
                }
            }
            17 if nrefs > 1 => {
                // mates on different references (TLEN 0)
                let rid2 = (rid + 1 + self.rng.below(nrefs as u64 - 1) as usize) % nrefs;
                if let (Some(mut a), Some(mut b)) = (self.mapped(rid, &name), self.mapped(rid2, &name)) {
                    a.flags |= 1 | 64;
                    b.flags |= 1 | 128;
                    Self::link(&mut a, &mut b);
                    tpl.push(a);
                    tpl.push(b);
                }
            }
            18 => {
                // pair plus a supplementary alignment of the first segment
                if let (Some(mut a), Some(mut b), Some(mut s)) = (self.mapped(rid, &name), self.mapped(rid, &name), self.mapped(rid, &name)) {
                    if a.pos > b.pos {
                        std::mem::swap(&mut a, &mut b);
                    }
                    a.flags |= 1 | 64;
                    b.flags |= 1 | 128;
                    Self::link(&mut a, &mut b);
                    Self::pair_tlen(&mut a, &mut b);
                    s.flags = (s.flags & 16) | 1 | 64 | 2048 | (a.flags & 32);
                    s.mrid = a.mrid;
                    s.mpos = a.mpos;
                    tpl.push(a);
                    tpl.push(b);
                    tpl.push(s);
                }
            }
            19 => {
                // a paired read whose mate is not in the data set
                if let Some(mut a) = self.mapped(rid, &name) {
                    a.flags |= 1 | *self.rng.pick(&[64u16, 128]) | (if self.rng.chance(1, 2) { 32 } else { 0 });
                    a.mrid = Some(self.rng.below(nrefs as u64) as usize);
                    a.mpos = self.rng.range(1, self.refs[a.mrid.unwrap()].1.len() as u64) as usize;
                    a.tlen = if a.mrid == a.rid { a.mpos as i32 - a.pos as i32 } else { 0 };
                    tpl.push(a);
                }
            }
            20 => {
                // three segments: first, middle, last, each pointing at the next (the last at the first)
                if let (Some(mut a), Some(mut b), Some(mut c)) = (self.mapped(rid, &name), self.mapped(rid, &name), self.mapped(rid, &name)) {
                    a.flags |= 1 | 64;
                    b.flags |= 1 | 64 | 128;
                    c.flags |= 1 | 128;
                    let (a0, b0, c0) = (a.clone(), b.clone(), c.clone());
                    for (x, y) in [(&mut a, &b0), (&mut b, &c0), (&mut c, &a0)] {
                        x.mrid = y.rid;
                        x.mpos = y.pos;
                        if y.flags & 16 != 0 {
                            x.flags |= 32;
                        }
                    }
                    let lo = a.pos.min(b.pos).min(c.pos);
                    let hi = Self::end_of(&a).max(Self::end_of(&b)).max(Self::end_of(&c));
                    let t = (hi - lo + 1) as i32;
                    a.tlen = t;
                    b.tlen = -t;
                    c.tlen = -t;
                    tpl.push(a);
                    tpl.push(b);
                    tpl.push(c);
                }
            }
            _ => {
                if let Some(r) = self.mapped(rid, &name) {
                    tpl.push(r);
                }
            }
        }
        if tpl.is_empty() {
            tpl.push(self.unmapped(&name));
        }
        tpl
    }

    /// the mate columns of a record of the "odd mates" class: anything SAM can say
    fn odd_mate_fields(&mut self, r: &mut Rec) {
        let nrefs = self.nrefs();
        match self.rng.below(12) {
            0 => r.tlen = *self.rng.pick(&[i32::MIN, i32::MAX, -1, 1, i32::MIN + 1, -10, 10]),
            1 => r.tlen = -r.tlen,
            2 => r.tlen = 0,
            3 => r.tlen = self.rng.next() as i32,
            4 => r.mrid = None, // RNEXT `*` on a paired read
            5 if nrefs > 0 => r.mrid = Some(self.rng.below(nrefs as u64) as usize),
            6 => r.mpos = 0,
            7 => r.mpos = *self.rng.pick(&[1usize, (1 << 31) - 1, (1 << 29) - 1, 65536]),
            8 => r.flags ^= *self.rng.pick(&[0x20u16, 0x8, 0x2, 0x40, 0x80, 0xc0]),
            9 => {
                // mate columns on a read that is not flagged paired
                r.flags &= !(1 | 2 | 8 | 32 | 64 | 128);
            }
            10 => {
                r.mrid = None;
                r.mpos = self.rng.range(1, 1000) as usize; // PNEXT without RNEXT
            }
            _ => r.mpos += 1,
        }
    }

    /// RNAME / POS combinations outside "placed and mapped" / "unplaced and unmapped"
    fn odd_placement(&mut self, name: &Option<Vec<u8>>) -> Rec {
        let nrefs = self.nrefs();
        let mut r = self.unmapped(name);
        let k = self.rng.below(7);
        match k {
            // RNAME set, POS 0
            0 | 1 if nrefs > 0 => r.rid = Some(self.rng.below(nrefs as u64) as usize),
            // POS set, RNAME `*`
            2 | 3 => r.pos = *self.rng.pick(&[1usize, 2, 100, 65536, (1 << 29) - 1]),
            // unmapped read placed on the reference (anywhere, also at its very end)
            4 | 5 if nrefs > 0 => {
                let rid = self.rng.below(nrefs as u64) as usize;
                let len = self.refs[rid].1.len();
                r.rid = Some(rid);
                r.pos = match self.rng.below(3) {
                    0 => len,
                    1 => 1,
                    _ => self.rng.range(1, len as u64) as usize,
                };
            }
            _ => {}
        }
        // without the unmapped flag (SAM: the flag, not RNAME/POS, says "unmapped"): own class
        if k <= 3 && self.cls == CLS_FLAG_MAPPED_UNPLACED {
            r.flags &= !4;
            r.mapq = *self.rng.pick(&[0u8, 255, 17]);
        }
        r
    }

    fn tags(&mut self, idx: usize) -> Vec<([u8; 2], Val)> {
        let mut d = if self.cls == CLS_AUX || self.rng.chance(2, 3) { gen_data(self.rng) } else { vec![] };
        if self.cls == CLS_AUX {
            // every aux type in turn, at the front, in the middle or at the end
            let v = gen_val_of_type(self.rng, idx);
            let mut used: Vec<[u8; 2]> = d.iter().map(|x| x.0).collect();
            let t = gen_tag(self.rng, &mut used);
            let at = self.rng.below(d.len() as u64 + 1) as usize;
            d.insert(at, (t, v));
        }
        if !self.rgs.is_empty() && self.rng.chance(1, 2) {
            let rg = self.rng.pick(&self.rgs).clone();
            let at = self.rng.below(d.len() as u64 + 1) as usize;
            d.insert(at, (*b"RG", Val::Str('Z', rg)));
        }
        d
    }
}

fn header_fields(rng: &mut Rng, tags: &[&str], max: u64) -> String {
    let mut s = String::new();
    let mut used: Vec<String> = Vec::new();
    for _ in 0..rng.below(max + 1) {
        // user-defined header tags start with a lower-case letter (the others are reserved)
        let t = if rng.chance(2, 3) {
            rng.pick(tags).to_string()
        } else {
            let mut u = gen_user_tag(rng);
            u[0] = u[0].to_ascii_lowercase();
            String::from_utf8(u.to_vec()).unwrap()
        };
        if used.contains(&t) {
            continue;
        }
        used.push(t.clone());
        s.push_str(&format!("\t{t}:{}", String::from_utf8(gen_value(rng)).unwrap()));
    }
    s
}

fn generate_data_set(seed: u64, nrec: usize, cls: u64) -> Generated {
    let mut rng = Rng::new(seed ^ 0xC20C_0A11);
    let rng = &mut rng;
    // ---- header
    let mut h = String::new();
    if rng.chance(4, 5) {
        h.push_str(&format!("@HD\tVN:{}", rng.pick(&["1.6", "1.5", "1.0", "1.4"])));
        if rng.chance(1, 2) {
            h.push_str(&format!("\tSO:{}", rng.pick(&["unknown", "unsorted", "queryname", "coordinate"])));
        }
        if rng.chance(1, 3) {
            h.push_str(&format!("\tGO:{}", rng.pick(&["none", "query", "reference"])));
        }
        h.push('\n');
    }
    let nref = match cls {
        CLS_MANYREFS => rng.range(20, 60) as usize,
        CLS_SLICES => rng.range(1, 2) as usize,
        _ => match rng.below(12) {
            0 => 0,
            1 | 2 => 1,
            _ => rng.range(2, 5) as usize,
        },
    };
    let style = if cls == CLS_REFS { rng.range(1, 2) } else { 0 };
    let mut refs: Refs = Vec::new();
    let mut used = Vec::new();
    for i in 0..nref {
        let name = if rng.chance(1, 2) {
            let n = if rng.chance(1, 2) { format!("chr{}", i + 1) } else { format!("sq{i}") }.into_bytes();
            used.push(n.clone());
            n
        } else {
            gen_refname(rng, &mut used)
        };
        let len = match rng.below(6) {
            0 => rng.range(30, 60),
            1 => 400,
            _ => rng.range(60, 400),
        } as usize;
        let seq = gen_ref(rng, len, style);
        h.push_str(&format!("@SQ\tSN:{}\tLN:{len}", String::from_utf8(name.clone()).unwrap()));
        h.push_str(&header_fields(rng, &["AS", "DS", "SP"], 2));
        h.push('\n');
        refs.push((name, seq));
    }
    let mut rgs: Vec<Vec<u8>> = Vec::new();
    let nrg = rng.below(4) as usize;
    for i in 0..nrg {
        let mut id = gen_value(rng);
        if rng.chance(1, 2) || rgs.contains(&id) {
            id = format!("rg{}", nrg - i).into_bytes(); // ids that sort differently from insertion order
        }
        h.push_str(&format!("@RG\tID:{}", String::from_utf8(id.clone()).unwrap()));
        h.push_str(&header_fields(rng, &["BC", "CN", "DS", "LB", "PL", "PU", "SM"], 3));
        h.push('\n');
        rgs.push(id);
    }
    let npg = rng.below(3) as usize;
    let mut prev: Option<String> = None;
    for i in 0..npg {
        let id = format!("pg{}", npg - i);
        h.push_str(&format!("@PG\tID:{id}"));
        if let (Some(p), true) = (&prev, rng.chance(2, 3)) {
            h.push_str(&format!("\tPP:{p}"));
        }
        h.push_str(&header_fields(rng, &["PN", "CL", "DS", "VN"], 2));
        h.push('\n');
        prev = Some(id);
    }
    for _ in 0..rng.below(3) {
        let n = rng.range(0, 30) as usize;
        h.push_str(&format!("@CO\t{}\n", String::from_utf8(printable(rng, b' ', b'~', n)).unwrap()));
    }
    // ---- records
    let mut g = G { rng, cls, refs, rgs, serial: 0 };
    let focus_ref = if g.nrefs() > 0 && g.rng.chance(1, 2) { Some(g.rng.below(g.nrefs() as u64) as usize) } else { None };
    let mut templates: Vec<Vec<Rec>> = Vec::new();
    let mut count = 0usize;
    while count < nrec {
        let mut tpl = if g.p(CLS_PLACEMENT, (2, 3), (1, 12)) {
            let name = g.template_name();
            vec![g.odd_placement(&name)]
        } else {
            g.template(focus_ref)
        };
        tpl.truncate(nrec - count);
        for r in &mut tpl {
            let mapped = r.flags & 4 == 0 && r.rid.is_some() && r.pos > 0;
            // SEQ `*` (CIGAR `*` as well; with the CIGAR kept: class noseq-cigar)
            if !r.seq.is_empty() && g.p(CLS_NOSEQ, (1, 2), (1, 16)) {
                r.seq.clear();
                r.qual.clear();
                if mapped {
                    r.cigar.clear();
                }
            }
            if g.cls == CLS_ODDMATES && g.rng.chance(1, 2) {
                g.odd_mate_fields(r);
            }
            // a single record of a template loses its name (its mates keep theirs)
            if r.name.is_some() && g.p(CLS_NONAME, (1, 6), (1, 60)) {
                r.name = None;
            }
            r.data = g.tags(count);
            count += 1;
        }
        templates.push(tpl);
    }
    let mut recs: Vec<Rec> = templates.into_iter().flatten().collect();
    // the three shapes of the last three classes: one to three records of the data set
    if cls >= CLS_NOSEQ_CIGAR && !recs.is_empty() {
        for _ in 0..g.rng.range(1, 3) {
            let i = g.rng.below(recs.len() as u64) as usize;
            if cls == CLS_FLAG_MAPPED_UNPLACED {
                let name = recs[i].name.clone();
                let data = std::mem::take(&mut recs[i].data);
                let mut r = loop {
                    let r = g.odd_placement(&name);
                    if r.flags & 4 == 0 {
                        break r;
                    }
                };
                r.data = data;
                recs[i] = r;
            } else if let Some(j) = (0..recs.len()).map(|k| (i + k) % recs.len()).find(|&j| {
                let r = &recs[j];
                r.flags & 4 == 0 && r.rid.is_some() && r.pos > 0 && !r.seq.is_empty() && !r.cigar.is_empty()
            }) {
                if cls == CLS_NOSEQ_CIGAR {
                    recs[j].seq.clear();
                    recs[j].qual.clear();
                } else {
                    recs[j].cigar.clear();
                }
            }
        }
    }
    match g.rng.below(10) {
        0 | 1 => {}               // template order: mates adjacent
        2 => recs.reverse(),      // the rightmost mate first
        3 | 4 => {
            // shuffled: mates apart
            for i in (1..recs.len()).rev() {
                let j = g.rng.below(i as u64 + 1) as usize;
                recs.swap(i, j);
            }
        }
        _ => recs.sort_by_key(|r| (r.rid.unwrap_or(usize::MAX), r.pos)), // coordinate sorted (stable)
    }
    Generated { header_text: h.into_bytes(), refs: g.refs, recs }
}

/// the class "slices": more records than one slice (= container) holds; pairs inside the first
/// slice, across the boundary (adjacent and apart) and inside the second slice
fn generate_slices(seed: u64, extra: usize) -> Generated {
    let base = generate_data_set(seed, 160, CLS_SLICES);
    let mut rng = Rng::new(seed ^ 0x51C3);
    let rng = &mut rng;
    let g = G { rng, cls: CLS_SLICES, refs: base.refs.clone(), rgs: vec![], serial: 1000 };
    let total = SLICE + extra.max(2);
    // cheap filler: short unmapped and mapped single reads without tags
    let mut recs: Vec<Rec> = Vec::with_capacity(total + 8);
    for i in 0..total {
        let name = Some(format!("f{i}").into_bytes());
        let r = if i % 3 == 0 {
            let n = g.rng.range(1, 6) as usize;
            Rec { name, flags: 4, mapq: 255, seq: (0..n).map(|_| acgt(g.rng)).collect(), qual: (0..n).map(|_| g.rng.range(0, 60) as u8).collect(), ..Default::default() }
        } else {
            let rid = g.rng.below(g.refs.len() as u64) as usize;
            let refb = &g.refs[rid].1;
            let n = g.rng.range(1, 8.min(refb.len() as u64)) as usize;
            let pos = g.rng.range(1, (refb.len() - n + 1) as u64) as usize;
            let seq = refb[pos - 1..pos - 1 + n].to_vec();
            Rec { name, flags: 0, rid: Some(rid), pos, mapq: 60, cigar: vec![(0, n)], seq, qual: (0..n).map(|_| g.rng.range(0, 60) as u8).collect(), ..Default::default() }
        };
        recs.push(r);
    }
    // the rich records of the base data set replace filler at chosen places: the records of one
    // name (pairs, and templates of three) are split over the indices given, the others follow
    // one another from index 100 on
    let mut by_name: Vec<Vec<Rec>> = Vec::new();
    for r in base.recs {
        match by_name.iter_mut().find(|t| t[0].name == r.name && r.name.is_some()) {
            Some(t) => t.push(r),
            None => by_name.push(vec![r]),
        }
    }
    let places2: [(usize, usize); 8] = [
        (SLICE - 1, SLICE),      // adjacent, across the boundary
        (SLICE - 7, SLICE + 1),  // apart, across the boundary
        (5, 6),                  // adjacent, first slice
        (20, total - 1),         // first and last record but one of the file
        (SLICE - 3, SLICE - 2),  // adjacent, at the end of the first slice
        (30, 90),                // apart, first slice
        (40, SLICE - 20),        // far apart, first slice
        (0, SLICE - 30),         // the first record of the file
    ];
    let places3: [[usize; 3]; 2] = [[SLICE - 12, SLICE - 10, total - 2], [50, 51, 60]];
    let (mut n2, mut n3, mut next) = (0, 0, 100);
    for t in by_name {
        let at: Vec<usize> = if t.len() == 2 && n2 < places2.len() {
            n2 += 1;
            vec![places2[n2 - 1].0, places2[n2 - 1].1]
        } else if t.len() == 3 && n3 < places3.len() {
            n3 += 1;
            places3[n3 - 1].to_vec()
        } else {
            next += t.len();
            (next - t.len()..next).collect()
        };
        for (r, i) in t.into_iter().zip(at) {
            recs[i] = r;
        }
    }
    Generated { header_text: base.header_text, refs: base.refs, recs }
}

// ---------------------------------------------------------------------------------------------
// The data set as the oracle sees it.

struct DataSet {
    header_text: Vec<u8>,
    /// source SAM lines as written by the harness
    lines: Vec<Vec<u8>>,
    refs: Refs,
    header: sam::Header,
    /// the records as the SAM reader parses the text (they feed nothing; classes derive from them)
    recs: Vec<Rec>,
    /// the records that are written to the BAM source (explicit integer widths)
    bufs: Vec<RecordBuf>,
    /// expected canonical lines of any target reached through CRAM
    expect: Vec<Vec<u8>>,
    lower_ref: bool,
}

type Bad<T> = Result<T, (String, String)>;
fn bad<T>(tag: impl Into<String>, detail: impl Into<String>) -> Bad<T> {
    Err((tag.into(), detail.into()))
}

fn repository(refs: &Refs) -> fasta::Repository {
    let recs: Vec<fasta::Record> = refs
        .iter()
        .map(|(n, s)| fasta::Record::new(fasta::record::Definition::new(n.clone(), None), fasta::record::Sequence::from(s.clone())))
        .collect();
    fasta::Repository::new(recs)
}

fn split_cols(l: &[u8]) -> Vec<Vec<u8>> {
    l.split(|&c| c == b'\t').map(|c| c.to_vec()).collect()
}

/// CRAM has no `=` / `X`: the reader gives `M`, adjacent ones merged
fn norm_cigar_eqx(c: &[u8]) -> Vec<u8> {
    if !c.iter().any(|b| *b == b'=' || *b == b'X') {
        return c.to_vec();
    }
    let mut ops: Vec<(u8, u64)> = Vec::new();
    let mut n = 0u64;
    for &ch in c {
        if ch.is_ascii_digit() {
            n = n * 10 + (ch - b'0') as u64;
        } else {
            let k = if ch == b'=' || ch == b'X' { b'M' } else { ch };
            match ops.last_mut() {
                Some((pk, pn)) if *pk == k => *pn += n,
                _ => ops.push((k, n)),
            }
            n = 0;
        }
    }
    ops.iter().map(|(k, n)| format!("{n}{}", *k as char)).collect::<String>().into_bytes()
}

/// the documented normalisations of a line that went through CRAM
fn norm_via_cram(l: &[u8], lower_ref: bool) -> Vec<u8> {
    let mut cols = split_cols(l);
    if cols.len() > 10 {
        let flags: u32 = String::from_utf8_lossy(&cols[1]).parse().unwrap_or(0);
        if flags & 4 != 0 {
            cols[4] = b"255".to_vec();
        }
        // NV_C20_STRICT=1 switches the two CRAM-specific tolerances off (to re-check that they are needed)
        let strict = std::env::var("NV_C20_STRICT").is_ok();
        if !strict {
            cols[5] = norm_cigar_eqx(&cols[5]);
        }
        if lower_ref && !strict {
            cols[9] = cols[9].to_ascii_uppercase();
        }
    }
    cols.join(&b'\t')
}

fn build_data_set(header_text: Vec<u8>, lines: Vec<Vec<u8>>, refs: Refs, gen_recs: Option<&[Rec]>) -> Bad<DataSet> {
    let mut text = header_text.clone();
    for l in &lines {
        text.extend_from_slice(l);
        text.push(b'\n');
    }
    if std::env::var("NV_C20_DEBUG").is_ok() {
        eprintln!("{}", String::from_utf8_lossy(&text));
        for (n, s) in &refs {
            eprintln!(">{} {}", String::from_utf8_lossy(n), String::from_utf8_lossy(s));
        }
    }
    let (header, parsed) = match g("parse-spec", || super::align::parse_spec(&text))? {
        Ok(x) => x,
        Err(e) => return bad("harness-spec-unparsable", format!("{e}")),
    };
    // the header text is canonical: the SAM writer gives the same text back
    let ht = canon_header(&header).unwrap_or_default();
    if ht != header_text {
        return bad("harness-header-not-canonical", format!("`{}` vs `{}`", show(&ht), show(&header_text)));
    }
    let bufs: Vec<RecordBuf> = match gen_recs {
        Some(rs) => rs.iter().map(to_record_buf).collect(),
        None => parsed.clone(),
    };
    if parsed.len() != lines.len() || bufs.len() != lines.len() {
        return bad("harness-spec-record-count", format!("{} lines, {} parsed", lines.len(), parsed.len()));
    }
    let lower_ref = refs.iter().any(|(_, s)| s.iter().any(|b| b.is_ascii_lowercase()));
    let mut expect = Vec::new();
    for (i, l) in lines.iter().enumerate() {
        let want = bits_of_text_line(&String::from_utf8_lossy(l));
        for (what, r) in [("parsed", &parsed[i]), ("built", &bufs[i])] {
            match canon_line(&header, r) {
                Ok(c) if c == want => {}
                Ok(c) => return bad("harness-spec-not-canonical", format!("{what} record {i}: `{}` vs `{}`", show(&c), show(&want))),
                Err(e) => return bad("harness-spec-unwritable", format!("{what} record {i}: {e}: {:?}", gen_recs.map(|r| &r[i]))),
            }
        }
        expect.push(norm_via_cram(&want, lower_ref));
    }
    let recs: Vec<Rec> = parsed.iter().map(from_record_buf).collect();
    if std::env::var("NV_C20_STATS").is_ok() {
        // class census of the generated records (for judging the generator, not part of the oracle)
        for i in 0..recs.len() {
            let r = &recs[i];
            if i >= 200 && r.flags & 1 == 0 {
                continue;
            }
            let mut aux: Vec<String> = r.data.iter().map(|(_, v)| val_type(v)).collect();
            aux.sort();
            aux.dedup();
            eprintln!("STAT {} {} {} {} aux:{}", name_class(r), place_class(r), seq_class(r), mate_class(&recs, i), aux.join(","));
        }
    }
    Ok(DataSet { header_text, lines, refs, header, recs, bufs, expect, lower_ref })
}

fn data_set_of_case(c: &Case) -> Bad<DataSet> {
    if c.args[0] == "t" {
        let text = c.b(1);
        let mut header_text = Vec::new();
        let mut lines = Vec::new();
        for l in text.split(|&b| b == b'\n').filter(|l| !l.is_empty()) {
            if l[0] == b'@' && lines.is_empty() {
                header_text.extend_from_slice(l);
                header_text.push(b'\n');
            } else {
                lines.push(l.to_vec());
            }
        }
        let refs: Refs = if c.args[2] == "_" {
            vec![]
        } else {
            c.args[2]
                .split(',')
                .map(|r| {
                    let (n, s) = r.split_once(':').unwrap();
                    (n.as_bytes().to_vec(), s.as_bytes().to_vec())
                })
                .collect()
        };
        return build_data_set(header_text, lines, refs, None);
    }
    let (seed, nrec, cls) = (c.u(0), c.u(1) as usize, c.u(2));
    if std::env::var("NV_C20_DEBUG").is_ok() {
        eprintln!("class {cls} = {}", CLS_NAMES.get(cls as usize).copied().unwrap_or("?"));
    }
    let gd = if cls == CLS_SLICES { generate_slices(seed, nrec) } else { generate_data_set(seed, nrec, cls) };
    let lines: Vec<Vec<u8>> = gd.recs.iter().map(|r| sam_line(r, &gd.refs)).collect();
    build_data_set(gd.header_text, lines, gd.refs, Some(&gd.recs))
}

// ---------------------------------------------------------------------------------------------
// Input classes of a record, derived from the record (and its neighbours) only.

fn name_class(r: &Rec) -> &'static str {
    match &r.name {
        None => "name-missing",
        Some(n) if n.len() >= 254 => "name-254",
        Some(n) if n[0] == b'*' => "name-star-prefix",
        Some(n) if n.len() == 1 => "name-1char",
        _ => "name",
    }
}

fn place_class(r: &Rec) -> &'static str {
    let unmapped = r.flags & 4 != 0;
    match (r.rid.is_some(), r.pos > 0, unmapped) {
        (true, true, false) => "placed",
        (true, true, true) => "unmapped-placed",
        (true, false, true) => "rname-without-pos",
        (true, false, false) => "rname-without-pos-flag-mapped",
        (false, true, true) => "pos-without-rname",
        (false, true, false) => "pos-without-rname-flag-mapped",
        (false, false, true) => "unplaced",
        (false, false, false) => "unplaced-flag-mapped",
    }
}

fn seq_class(r: &Rec) -> String {
    let mapped = r.flags & 4 == 0;
    if r.seq.is_empty() {
        return if !r.cigar.is_empty() { "seq-missing-with-cigar" } else if mapped && r.rid.is_some() && r.pos > 0 { "seq-missing-mapped" } else { "seq-missing" }.into();
    }
    if mapped && r.cigar.is_empty() {
        return "mapped-without-cigar".into();
    }
    if r.qual.is_empty() {
        return if mapped { "qual-missing-mapped" } else { "qual-missing-unmapped" }.into();
    }
    if r.cigar.iter().any(|o| o.0 >= 7) {
        return "cigar-eqx".into();
    }
    if r.seq.iter().any(|b| !b"ACGTN".contains(b)) {
        return "bases-iupac".into();
    }
    let mut odd: Vec<u8> = r.cigar.iter().map(|o| OPS[o.0 as usize]).filter(|c| b"NHP".contains(c)).collect();
    odd.sort();
    odd.dedup();
    if !odd.is_empty() {
        return format!("cigar-{}", String::from_utf8(odd).unwrap());
    }
    if mapped { "mapped-bases" } else { "unmapped-bases" }.into()
}

fn is_segment(r: &Rec) -> bool {
    r.flags & 1 != 0 && r.flags & 0x100 == 0 && r.flags & 0x800 == 0
}

fn mate_class(recs: &[Rec], i: usize) -> String {
    let r = &recs[i];
    let rnext = match (r.mrid, r.rid) {
        (None, _) => "rnext-none",
        (Some(a), Some(b)) if a == b => "rnext-same",
        _ => "rnext-other",
    };
    if r.flags & 1 == 0 {
        return if r.mrid.is_some() || r.mpos > 0 || r.tlen != 0 || r.flags & (2 | 8 | 32 | 64 | 128) != 0 { format!("unpaired-with-mate-fields-{rnext}") } else { "unpaired".into() };
    }
    if r.flags & 0x800 != 0 {
        return format!("supplementary-{rnext}");
    }
    if r.flags & 0x100 != 0 {
        return format!("secondary-{rnext}");
    }
    // the other segments of the template in the data set; the record's own slice first
    let slice = i / SLICE;
    let lo = slice * SLICE;
    let hi = ((slice + 1) * SLICE).min(recs.len());
    let same: Vec<usize> = (lo..hi).filter(|&j| j != i && is_segment(&recs[j]) && recs[j].name == r.name).collect();
    let how = if same.is_empty() {
        let lo2 = lo.saturating_sub(SLICE);
        let hi2 = (hi + SLICE).min(recs.len());
        if (lo2..hi2).any(|j| (j < lo || j >= hi) && is_segment(&recs[j]) && recs[j].name == r.name) { "mate-other-slice" } else { "mate-absent" }
    } else if same.len() >= 2 {
        "mate-chain"
    } else if same[0].abs_diff(i) == 1 {
        "mate-adjacent"
    } else {
        "mate-apart"
    };
    let un = if r.flags & 8 != 0 { "-unmapped" } else { "" };
    let nm = if r.name.is_none() { "-nameless" } else { "" };
    format!("{how}{un}{nm}-{rnext}")
}

/// the part of `mate_class` that goes into a tag: how the template lies in the data set, and
/// whether it has no name (which reference the mate is on and whether it is mapped: detail only)
fn mate_tag(recs: &[Rec], i: usize) -> String {
    let full = mate_class(recs, i);
    let mut t = full.as_str();
    for suffix in ["-rnext-none", "-rnext-same", "-rnext-other"] {
        t = t.strip_suffix(suffix).unwrap_or(t);
    }
    t.replace("-unmapped", "")
}

fn val_type(v: &Val) -> String {
    match v {
        Val::Num(t, _) => t.to_string(),
        Val::Str(t, s) => format!("{t}{}", if s.is_empty() { "-empty" } else { "" }),
        Val::Arr(t, xs) => format!("B{t}{}", if xs.is_empty() { "-empty" } else { "" }),
    }
}

/// class of the first optional field that differs
fn aux_class(r: &Rec, exp: &[u8], got: &[u8]) -> String {
    let (e, a) = (split_cols(exp), split_cols(got));
    for k in 11..e.len().max(a.len()) {
        if e.get(k) != a.get(k) {
            return match e.get(k) {
                None => "aux-extra-field".into(),
                Some(f) if f.len() >= 2 => match r.data.iter().find(|(t, _)| t[..] == f[..2]) {
                    Some((t, v)) if t == b"RG" => format!("aux-RG-{}", val_type(v)),
                    Some((_, v)) => format!("aux-{}", val_type(v)),
                    None => "aux".into(),
                },
                _ => "aux".into(),
            };
        }
    }
    "aux".into()
}

fn col_name(c: usize) -> &'static str {
    ["name", "flags", "rname", "pos", "mapq", "cigar", "rnext", "pnext", "tlen", "seq", "qual"].get(c).copied().unwrap_or("data")
}

/// the class of record i that matters for a difference in column `col`
fn class_for_col(recs: &[Rec], i: usize, col: usize, exp: &[u8], got: &[u8]) -> String {
    let r = &recs[i];
    match col {
        0 => name_class(r).to_string(),
        1 | 6 | 7 | 8 => mate_tag(recs, i),
        2 | 3 | 4 => place_class(r).to_string(),
        5 | 9 | 10 => {
            let p = place_class(r);
            if p == "placed" || p == "unplaced" { seq_class(r) } else { format!("{}-{p}", seq_class(r)) }
        }
        _ => aux_class(r, exp, got),
    }
}

/// the class of record i when there is no column to go by (an error while converting it)
fn class_any(recs: &[Rec], i: usize) -> String {
    let r = &recs[i];
    let s = seq_class(r);
    let p = place_class(r);
    if p.ends_with("-flag-mapped") {
        // not flagged unmapped, but RNAME or POS (or both) missing
        return "flag-mapped-not-placed".into();
    }
    if !matches!(s.as_str(), "mapped-bases" | "unmapped-bases") {
        return if p == "placed" || p == "unplaced" { s } else { format!("{s}-{p}") };
    }
    if p != "placed" && p != "unplaced" {
        return p.into();
    }
    if r.name.is_none() {
        return "name-missing".into();
    }
    let m = mate_tag(recs, i);
    if m != "unpaired" {
        return m;
    }
    s
}

// ---------------------------------------------------------------------------------------------
// Conversions.

fn g<T>(what: &str, f: impl FnOnce() -> T) -> Bad<T> {
    match guarded(std::panic::AssertUnwindSafe(f)) {
        Outcome::Done(v) => Ok(v),
        Outcome::Panicked(m) => bad(format!("{what}-panic"), m),
    }
}

fn writer_builder(fam: &str, repo: fasta::Repository) -> alignment::io::writer::Builder {
    let b = alignment::io::writer::Builder::default().set_reference_sequence_repository(repo);
    match fam {
        "sam" => b.set_format(Format::Sam).set_compression_method(None),
        "bam" => b.set_format(Format::Bam).set_compression_method(Some(CompressionMethod::Bgzf)),
        _ => b.set_format(Format::Cram).set_compression_method(None),
    }
}

/// generic autodetecting reader of `src` piped record by record into the generic writer of `dst`
fn convert(src: &[u8], dst: &str, refs: &Refs) -> Result<Vec<u8>, (String, io::Error)> {
    let mut r = alignment::io::reader::Builder::default()
        .set_reference_sequence_repository(repository(refs))
        .build_from_reader(Cursor::new(src.to_vec()))
        .map_err(|e| ("build".to_string(), e))?;
    let header = r.read_header().map_err(|e| ("read_header".to_string(), e))?;
    let sink = FaultySink::new(vec![]);
    {
        let mut w = writer_builder(dst, repository(refs)).build_from_writer(sink.clone()).map_err(|e| ("build_writer".to_string(), e))?;
        w.write_header(&header).map_err(|e| ("write_header".to_string(), e))?;
        let mut rec = alignment::Record::Sam(sam::Record::default());
        let mut i = 0;
        loop {
            let n = r.read_record(&header, &mut rec).map_err(|e| (format!("read_record#{i}"), e))?;
            if n == 0 {
                break;
            }
            w.write_record(&header, &rec).map_err(|e| (format!("write_record#{i}"), e))?;
            i += 1;
        }
        w.finish(&header).map_err(|e| ("finish".to_string(), e))?;
    }
    Ok(sink.bytes())
}

/// the format's own reader
fn read_specific(fam: &str, bytes: &[u8], refs: &Refs) -> io::Result<Vec<Vec<u8>>> {
    let mut lines = Vec::new();
    match fam {
        "sam" => {
            let mut r = sam::io::Reader::new(bytes);
            let h = r.read_header()?;
            for rec in r.record_bufs(&h) {
                lines.push(canon_line(&h, &rec?)?);
            }
        }
        "bam" => {
            let mut r = bam::io::Reader::new(bytes);
            let h = r.read_header()?;
            for rec in r.record_bufs(&h) {
                lines.push(canon_line(&h, &rec?)?);
            }
        }
        _ => {
            let mut r = noodles_cram::io::reader::Builder::default().set_reference_sequence_repository(repository(refs)).build_from_reader(bytes);
            let h = r.read_header()?;
            for rec in r.records(&h) {
                lines.push(canon_line(&h, &rec?)?);
            }
        }
    }
    Ok(lines)
}

fn header_norm(h: &[u8]) -> Vec<Vec<u8>> {
    // compare headers line by line, dropping the M5/UR fields a CRAM writer may add to @SQ
    h.split(|&c| c == b'\n')
        .filter(|l| !l.is_empty())
        .map(|l| {
            let cols: Vec<&[u8]> = l.split(|&c| c == b'\t').filter(|c| !(l.starts_with(b"@SQ") && (c.starts_with(b"M5:") || c.starts_with(b"UR:")))).collect();
            cols.join(&b'\t')
        })
        .collect()
}

/// what went wrong, before it is given a tag
struct Fail {
    dir: String,
    /// record index, when the failure is that of one record
    rec: Option<usize>,
    /// `error`, `panic`, a column name, ...
    what: String,
    /// class of the record (filled when rec and a column are known)
    class: Option<String>,
    detail: String,
}

fn stage_index(stage: &str) -> Option<usize> {
    stage.split_once('#').and_then(|(_, n)| n.parse().ok())
}

// The ONE residual known class of the CRAM path (after a591b36 / fe42e80): a record that carries
// bases, is not on the unmapped path (0x4 clear) and has NO CIGAR is stored with its bases as one
// whole-read soft clip; it reads back with every field as written EXCEPT the CIGAR, which is
// `<len>S`.  The predicate is exact: source record (bases, 0x4 clear, CIGAR `*`) AND the line read
// back differs from the expectation in the CIGAR column only AND that column is `<len of SEQ>S`.
// Such a difference does not stop the comparison (every other record, every other direction and
// the header are still checked: any other difference is a NEW failure); it is remembered here and
// reported once at the end of the case.
pub const RESIDUAL_TAG: &str = "cram-missing-cigar-with-bases-reads-back-as-soft-clip";
thread_local! {
    static RESIDUAL: std::cell::RefCell<Option<String>> = const { std::cell::RefCell::new(None) };
}

fn is_residual_soft_clip(r: &Rec, exp: &[u8], got: &[u8]) -> bool {
    if r.seq.is_empty() || r.flags & 4 != 0 || !r.cigar.is_empty() {
        return false;
    }
    let (e, a) = (split_cols(exp), split_cols(got));
    if e.len() != a.len() || e.len() < 11 {
        return false;
    }
    e.iter().zip(&a).enumerate().all(|(c, (x, y))| {
        if c == 5 { x.as_slice() == b"*" && *y == format!("{}S", r.seq.len()).into_bytes() } else { x == y }
    })
}

/// compare the lines read from a target with the expectation
fn compare(ds: &DataSet, dir: &str, reader: &str, got: &[Vec<u8>]) -> Result<(), Fail> {
    let got: Vec<Vec<u8>> = got.iter().map(|l| norm_via_cram(l, ds.lower_ref)).collect();
    if got.len() != ds.expect.len() {
        return Err(Fail { dir: dir.into(), rec: None, what: "record-count".into(), class: None, detail: format!("{reader}: read {} of {} records", got.len(), ds.expect.len()) });
    }
    for (i, (e, a)) in ds.expect.iter().zip(&got).enumerate() {
        if e != a && is_residual_soft_clip(&ds.recs[i], e, a) {
            RESIDUAL.with(|c| {
                let mut c = c.borrow_mut();
                if c.is_none() {
                    *c = Some(format!(
                        "{dir}, {reader}: record {i} of {} ({}, {}, {}): every column as written except CIGAR: expected `{}` got `{}`",
                        ds.expect.len(), name_class(&ds.recs[i]), place_class(&ds.recs[i]), mate_class(&ds.recs, i), show(e), show(a)
                    ));
                }
            });
            continue;
        }
        if e != a {
            let col = super::common::diff_column(e, a);
            let class = class_for_col(&ds.recs, i, col, e, a);
            return Err(Fail {
                dir: dir.into(),
                rec: Some(i),
                what: col_name(col).into(),
                class: Some(class),
                detail: format!(
                    "{reader}: record {i} of {} ({}, {}, {}, {}): expected `{}` got `{}`",
                    ds.expect.len(),
                    name_class(&ds.recs[i]),
                    place_class(&ds.recs[i]),
                    seq_class(&ds.recs[i]),
                    mate_class(&ds.recs, i),
                    show(e),
                    show(a)
                ),
            });
        }
    }
    Ok(())
}

/// a target stream: detected as its format, same records through both readers, header kept
fn check_target(ds: &DataSet, dir: &str, fam: &str, bytes: &[u8]) -> Result<(), Fail> {
    let fail = |rec: Option<usize>, what: &str, detail: String| Fail { dir: dir.into(), rec, what: what.into(), class: None, detail };
    let res = match g("read", || read_generic(Box::new(Cursor::new(bytes.to_vec())), repository(&ds.refs))) {
        Ok(r) => r,
        Err((_, m)) => return Err(fail(None, "generic-read-panic", m)),
    };
    let rb = match res {
        Ok(rb) => rb,
        Err((stage, e)) => return Err(fail(stage_index(&stage), "generic-read-error", format!("{stage} {} {e}", nv::errkind(&e)))),
    };
    if rb.variant != fam {
        return Err(fail(None, &format!("detected-as-{}", rb.variant), format!("first bytes {}", nv::hex(&bytes[..bytes.len().min(8)]))));
    }
    compare(ds, dir, "generic reader", &rb.lines)?;
    match g("read", || read_specific(fam, bytes, &ds.refs)) {
        Err((_, m)) => return Err(fail(None, "format-read-panic", m)),
        Ok(Err(e)) => return Err(fail(None, "format-read-error", format!("{} {e}", nv::errkind(&e)))),
        Ok(Ok(lines)) => compare(ds, dir, &format!("{fam} reader"), &lines)?,
    }
    // header: every line of the source is read back (CRAM may add M5/UR to @SQ, and lines of its own)
    let hw = header_norm(&ds.header_text);
    let hr = header_norm(&canon_header(&rb.header).unwrap_or_default());
    let hr_f: Vec<&Vec<u8>> = hr.iter().filter(|l| hw.contains(l)).collect();
    if hr_f.len() != hw.len() || hw.iter().zip(&hr_f).any(|(a, b)| a != *b) {
        return Err(fail(None, "header", format!("written {:?} read {:?}", hw.iter().map(|l| show(l)).collect::<Vec<_>>(), hr.iter().map(|l| show(l)).collect::<Vec<_>>())));
    }
    Ok(())
}

fn convert_checked(ds: &DataSet, dir: &str, src: &[u8], dst: &str) -> Result<Vec<u8>, Fail> {
    let fail = |rec: Option<usize>, what: &str, detail: String| Fail { dir: dir.into(), rec, what: what.into(), class: None, detail };
    let out = match g("convert", || convert(src, dst, &ds.refs)) {
        Ok(Ok(b)) => b,
        Ok(Err((stage, e))) => {
            let what = if stage.starts_with("read") || stage == "build" { "source-read-error" } else { "write-error" };
            return Err(fail(stage_index(&stage), what, format!("{stage} {} {e}", nv::errkind(&e))));
        }
        Err((_, m)) => return Err(fail(None, "panic", m)),
    };
    check_target(ds, dir, dst, &out)?;
    Ok(out)
}

/// all five conversions; `only` restricts to one direction (used when a failure is attributed)
fn check_all(ds: &DataSet, only: Option<&str>) -> Result<(), Fail> {
    let only = if only == Some("bam-source") { Some("bam2cram") } else { only };
    let want = |d: &str| only.is_none() || only == Some(d) || (d == "sam2cram" && only.is_some_and(|o| o.starts_with("cram2")));
    // sources: the harness' SAM text, and a BAM written from records with explicit integer widths
    let mut text = ds.header_text.clone();
    for l in &ds.lines {
        text.extend_from_slice(l);
        text.push(b'\n');
    }
    let mut c1: Option<Vec<u8>> = None;
    if want("sam2cram") {
        c1 = Some(convert_checked(ds, "sam2cram", &text, "cram")?);
    }
    if want("bam2cram") {
        let recs: Vec<&dyn sam::alignment::Record> = ds.bufs.iter().map(|r| r as &dyn sam::alignment::Record).collect();
        let fail = |what: &str, detail: String| Fail { dir: "bam2cram".into(), rec: None, what: what.into(), class: None, detail };
        let bam = match g("write-bam", || write_generic("bam", &ds.header, &recs, repository(&ds.refs))) {
            Ok(Ok(b)) => b,
            Ok(Err(e)) => return Err(fail("bam-source-write-error", format!("{} {e}", nv::errkind(&e)))),
            Err((_, m)) => return Err(fail("bam-source-write-panic", m)),
        };
        // the source itself reads back as the data set (otherwise the conversion says nothing)
        check_target(ds, "bam-source", "bam", &bam)?;
        convert_checked(ds, "bam2cram", &bam, "cram")?;
    }
    if let Some(c1) = c1 {
        for (dir, dst) in [("cram2sam", "sam"), ("cram2bam", "bam"), ("cram2cram", "cram")] {
            if want(dir) {
                convert_checked(ds, dir, &c1, dst)?;
            }
        }
    }
    Ok(())
}

fn sub_data_set(ds: &DataSet, keep: &[usize]) -> DataSet {
    let lines: Vec<Vec<u8>> = keep.iter().map(|&i| ds.lines[i].clone()).collect();
    let bufs: Vec<RecordBuf> = keep.iter().map(|&i| ds.bufs[i].clone()).collect();
    let recs: Vec<Rec> = keep.iter().map(|&i| ds.recs[i].clone()).collect();
    let expect: Vec<Vec<u8>> = keep.iter().map(|&i| ds.expect[i].clone()).collect();
    DataSet { header_text: ds.header_text.clone(), lines, refs: ds.refs.clone(), header: ds.header.clone(), recs, bufs, expect, lower_ref: ds.lower_ref }
}

/// the failure of `ds`, if any, that is "the same" as `f`
fn fails_alike(ds: &DataSet, f: &Fail) -> bool {
    matches!(check_all(ds, Some(&f.dir)), Err(f1) if f1.dir == f.dir && f1.what == f.what)
}

/// a 1-minimal sub data set that still fails like `f`: runs of records are removed (half of the
/// data set, a quarter, ..., single records) as long as the failure stays
fn minimise(ds: &DataSet, f: &Fail) -> Vec<usize> {
    let mut keep: Vec<usize> = (0..ds.recs.len()).collect();
    if keep.len() > 400 {
        return keep;
    }
    let mut chunk = (keep.len() / 2).max(1);
    loop {
        let mut changed = false;
        let mut end = keep.len();
        while end > 0 {
            let start = end.saturating_sub(chunk);
            let mut trial = keep.clone();
            trial.drain(start..end);
            if fails_alike(&sub_data_set(ds, &trial), f) {
                keep = trial;
                changed = true;
            }
            end = start;
        }
        if chunk > 1 {
            chunk /= 2;
        } else if !changed {
            return keep;
        }
    }
}

fn verdict(ds: &DataSet) -> Bad<()> {
    RESIDUAL.with(|c| *c.borrow_mut() = None);
    let f = match check_all(ds, None) {
        Ok(()) => {
            // nothing else differs anywhere: only the residual known class, if it occurred
            return match RESIDUAL.with(|c| c.borrow_mut().take()) {
                Some(d) => bad(RESIDUAL_TAG, d),
                None => Ok(()),
            };
        }
        Err(f) => f,
    };
    let mut detail = f.detail.clone();
    let class = match (&f.class, f.rec) {
        // a difference in a column of one record: the class of that record for that column
        (Some(c), _) => c.clone(),
        // an error while one record was written
        (None, Some(i)) if i < ds.recs.len() && f.what == "write-error" => class_any(&ds.recs, i),
        // anything else (a reader gives up on a slice, the writer fails when it flushes): the
        // classes of the records of a minimal sub data set that fails the same way
        _ => {
            let keep = minimise(ds, &f);
            if keep.len() > 4 {
                "several-records".into()
            } else if keep.is_empty() {
                "no-records".into()
            } else {
                let mut cs: Vec<String> = keep.iter().map(|&i| class_any(&ds.recs, i)).collect();
                cs.dedup();
                detail.push_str(" -- minimal:");
                for &i in &keep {
                    detail.push_str(&format!(" [{}]", show(&ds.lines[i])));
                }
                cs.join("+")
            }
        }
    };
    bad(format!("cram-{}-{}-{}", f.dir, class, f.what), detail)
}

// ---------------------------------------------------------------------------------------------

pub fn generate(rng: &mut Rng, tier: &str, w: &mut CaseWriter) {
    let thorough = tier == "thorough";
    let reps = if thorough { 15 } else { 1 };
    let counts: [usize; 18] = [1, 1, 2, 2, 3, 4, 5, 6, 8, 10, 12, 16, 20, 25, 32, 40, 80, 200];
    for _ in 0..reps {
        for cls in CLS_MIXED..=CLS_MANYREFS {
            if cls == CLS_SLICES {
                continue;
            }
            for n in counts {
                w.push("crx", vec![rng.next().to_string(), n.to_string(), cls.to_string()]);
            }
        }
        // the three shapes the CRAM writer does not take
        for cls in CLS_NOSEQ_CIGAR..=CLS_MAPPED_NOCIGAR {
            for n in [1usize, 3, 12] {
                w.push("crx", vec![rng.next().to_string(), n.to_string(), cls.to_string()]);
            }
        }
        // header only
        w.push("crx", vec![rng.next().to_string(), "0".into(), "0".into()]);
        w.push("crx", vec![rng.next().to_string(), "0".into(), CLS_MANYREFS.to_string()]);
    }
    // more records than one slice / container holds (nrec = records beyond the first slice)
    for i in 0..(if thorough { 12 } else { 2 }) {
        w.push("crx", vec![rng.next().to_string(), (2 + 9 * i).to_string(), CLS_SLICES.to_string()]);
    }
}

pub fn run(c: &Case) -> Obs {
    let r = data_set_of_case(c).and_then(|ds| verdict(&ds));
    let nontrivial = c.args[0] == "t" || c.u(1) > 0;
    Obs::ok("-", nontrivial).with_verdict(r)
}
