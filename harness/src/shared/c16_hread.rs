//! C16: the async sam / vcf header adapter (header_reader()) used through **AsyncRead** with caller
//! buffers of arbitrary sizes (poll_read: a partial copy of the line window the adapter's
//! poll_fill_buf handed out), the class the line-driven kind `ahdr` (read_until: whole windows
//! only) never reaches.
//!
//!   ahrd <fmt> <data> <cap> <sizes> <with_pending> <rsizes>
//!        header_reader() over tokio::io::BufReader::with_capacity(cap, AdvReader under the poll script);
//!        one `read(&mut buf[..n])` per n in rsizes: `<bytes>;<bytes>;..|<bytes consumed>`
//!        (model: NV.Async.HeaderReads = C12's h_read over the awaited reader).
//!   Verdict (L3): (a) the same calls on the sync adapter over std::io::BufReader::with_capacity(cap,
//!        a reader with the same transfer sizes) return the same bytes call for call; (b) going on
//!        (cycling rsizes, sizes >= 1) until a read returns 0, the bytes delivered and the place where
//!        the inner reader stands are those of the sync adapter on the plain slice read with one
//!        large buffer (buffer sizes must not matter).

use std::sync::atomic::Ordering;

use nv::{Case, CaseWriter, Obs, Outcome, Rng, errkind, guarded, hex};

use crate::c16_adversary::{AdvReader, Sched, block_on_pool};

fn parse_sizes(s: &str) -> Vec<usize> {
    if s == "_" { vec![] } else { s.split(',').map(|x| x.parse().unwrap()).collect() }
}

fn fmt_sizes(v: &[usize]) -> String {
    if v.is_empty() { "_".into() } else { v.iter().map(|x| x.to_string()).collect::<Vec<_>>().join(",") }
}

fn run_guarded<F: FnOnce() -> String>(f: F) -> String {
    match guarded(std::panic::AssertUnwindSafe(f)) {
        Outcome::Done(v) => v,
        Outcome::Panicked(_) => "Panic".into(),
    }
}

/// the sync twin of AdvReader under an explicit script: the i-th read transfers at most sizes[i]
/// bytes, then whole requests
struct ChunkReader {
    data: Vec<u8>,
    pos: usize,
    sizes: Vec<usize>,
    i: usize,
}

impl std::io::Read for ChunkReader {
    fn read(&mut self, buf: &mut [u8]) -> std::io::Result<usize> {
        let k = if self.i < self.sizes.len() { self.sizes[self.i].max(1) } else { usize::MAX };
        self.i += 1;
        let n = k.min(buf.len()).min(self.data.len() - self.pos);
        buf[..n].copy_from_slice(&self.data[self.pos..self.pos + n]);
        self.pos += n;
        Ok(n)
    }
}

fn sync_drive<H: std::io::Read>(h: &mut H, rsizes: &[usize], until_end: bool) -> (Vec<String>, Vec<u8>, String) {
    let mut calls = Vec::new();
    let mut all = Vec::new();
    for &n in rsizes {
        let mut buf = vec![0u8; n];
        match h.read(&mut buf) {
            Ok(k) => {
                calls.push(hex(&buf[..k]));
                all.extend_from_slice(&buf[..k]);
            }
            Err(e) => return (calls, all, format!("Err:{}", errkind(&e))),
        }
    }
    if until_end {
        let cyc: Vec<usize> = rsizes.iter().copied().filter(|&n| n >= 1).collect();
        let cyc = if cyc.is_empty() { vec![1] } else { cyc };
        for i in 0..(1usize << 16) {
            let mut buf = vec![0u8; cyc[i % cyc.len()]];
            match h.read(&mut buf) {
                Ok(0) => return (calls, all, "Ok".into()),
                Ok(k) => all.extend_from_slice(&buf[..k]),
                Err(e) => return (calls, all, format!("Err:{}", errkind(&e))),
            }
        }
        return (calls, all, "TooMany".into());
    }
    (calls, all, "Ok".into())
}

async fn async_drive<H: tokio::io::AsyncRead + Unpin>(h: &mut H, rsizes: &[usize], until_end: bool) -> (Vec<String>, Vec<u8>, String) {
    use tokio::io::AsyncReadExt;
    let mut calls = Vec::new();
    let mut all = Vec::new();
    for &n in rsizes {
        let mut buf = vec![0u8; n];
        match h.read(&mut buf).await {
            Ok(k) => {
                calls.push(hex(&buf[..k]));
                all.extend_from_slice(&buf[..k]);
            }
            Err(e) => return (calls, all, format!("Err:{}", errkind(&e))),
        }
    }
    if until_end {
        let cyc: Vec<usize> = rsizes.iter().copied().filter(|&n| n >= 1).collect();
        let cyc = if cyc.is_empty() { vec![1] } else { cyc };
        for i in 0..(1usize << 16) {
            let mut buf = vec![0u8; cyc[i % cyc.len()]];
            match h.read(&mut buf).await {
                Ok(0) => return (calls, all, "Ok".into()),
                Ok(k) => all.extend_from_slice(&buf[..k]),
                Err(e) => return (calls, all, format!("Err:{}", errkind(&e))),
            }
        }
        return (calls, all, "TooMany".into());
    }
    (calls, all, "Ok".into())
}

pub fn run_ahrd(c: &Case) -> Obs {
    let sam = c.args[0] == "sam";
    let fmt = if sam { "sam" } else { "vcf" };
    let data = c.b(1);
    let cap = c.u(2) as usize;
    let sizes = parse_sizes(&c.args[3]);
    let wp = c.u(4) == 1;
    let rsizes = parse_sizes(&c.args[5]);
    let total = data.len();

    // async: the scripted calls only (the observation), then a second run that goes on to the end
    let arun = |until_end: bool| {
        let sched = Sched::explicit(sizes.clone(), wp);
        let tripped = sched.tripped.clone();
        let src = AdvReader::new(data.clone(), sched);
        let rs = rsizes.clone();
        let s = run_guarded(move || {
            block_on_pool(1, async move {
                let br = tokio::io::BufReader::with_capacity(cap, src);
                let ((calls, all, st), pos) = if sam {
                    let mut r = noodles_sam::r#async::io::Reader::new(br);
                    let o = async_drive(&mut r.header_reader(), &rs, until_end).await;
                    let br = r.get_ref();
                    (o, br.get_ref().pos as usize - br.buffer().len())
                } else {
                    let mut r = noodles_vcf::r#async::io::Reader::new(br);
                    let o = async_drive(&mut r.header_reader(), &rs, until_end).await;
                    let br = r.get_ref();
                    (o, br.get_ref().pos as usize - br.buffer().len())
                };
                if until_end { format!("{}|{st}|{pos}", hex(&all)) } else if st == "Ok" { format!("{}|{pos}", calls.join(";")) } else { format!("{}|{st}|{pos}", calls.join(";")) }
            })
        });
        (s, tripped.load(Ordering::SeqCst))
    };
    let (a_calls, t1) = arun(false);
    let (a_all, t2) = arun(true);
    if t1 || t2 {
        return Obs::fail("-", &format!("async-{fmt}-hang"), "poll limit reached");
    }

    // sync, same windows: call for call
    let s_calls = {
        let d = data.clone();
        let rs = rsizes.clone();
        let sz = sizes.clone();
        run_guarded(move || {
            let cr = ChunkReader { data: d, pos: 0, sizes: sz, i: 0 };
            let br = std::io::BufReader::with_capacity(cap, cr);
            let ((calls, _, st), pos) = if sam {
                let mut r = noodles_sam::io::Reader::new(br);
                let o = sync_drive(&mut r.header_reader(), &rs, false);
                let br = r.get_ref();
                (o, br.get_ref().pos - br.buffer().len())
            } else {
                let mut r = noodles_vcf::io::Reader::new(br);
                let o = sync_drive(&mut r.header_reader(), &rs, false);
                let br = r.get_ref();
                (o, br.get_ref().pos - br.buffer().len())
            };
            if st == "Ok" { format!("{}|{pos}", calls.join(";")) } else { format!("{}|{st}|{pos}", calls.join(";")) }
        })
    };
    if s_calls != a_calls {
        return Obs::fail(a_calls.clone(), &format!("async-{fmt}-header-adapter-read-differs"), format!("sync={s_calls} async={a_calls} data={}", hex(&data)));
    }
    // sync, plain: the whole header with one large buffer per line window (read until 0)
    let s_all = {
        let d = data.clone();
        run_guarded(move || {
            let ((_, all, st), pos) = if sam {
                let mut r = noodles_sam::io::Reader::new(&d[..]);
                let o = sync_drive(&mut r.header_reader(), &[total + 1], true);
                (o, total - r.get_ref().len())
            } else {
                let mut r = noodles_vcf::io::Reader::new(&d[..]);
                let o = sync_drive(&mut r.header_reader(), &[total + 1], true);
                (o, total - r.get_ref().len())
            };
            format!("{}|{st}|{pos}", hex(&all))
        })
    };
    // a read with an empty buffer at a line start makes both adapters forget the line start (sync
    // and async alike: compared above); the buffer-size independence is stated for sizes >= 1
    if !rsizes.contains(&0) && a_all != s_all {
        return Obs::fail(a_calls, &format!("async-{fmt}-header-adapter-read-buffer-size-dependent"), format!("whole={s_all} async={a_all} data={} rsizes={}", hex(&data), c.args[5]));
    }
    let p = if sam { b'@' } else { b'#' };
    Obs::ok(a_calls, data.first() == Some(&p) && data.contains(&b'\n') && rsizes.iter().any(|&n| n >= 1 && n < total))
}

/// header text (several prefixed lines, some longer than the read buffers) followed by records
pub fn gen_ahrd(rng: &mut Rng, w: &mut CaseWriter) {
    let sam = rng.chance(1, 2);
    let p = if sam { b'@' } else { b'#' };
    let mut f = Vec::new();
    let crlf = rng.chance(1, 4);
    let dirty = rng.chance(1, 3);
    let nh = rng.below(5);
    for i in 0..nh {
        f.push(p);
        let n = rng.below(14);
        for _ in 0..n {
            f.push(*rng.pick(if sam { &b"HDSQCO\tVN:1.6@ab"[..] } else { &b"#fileformat=VCFv4\tCHROM"[..] }));
        }
        if dirty && rng.chance(1, 8) {
            f.push(b'\r');
        }
        if !(dirty && i + 1 == nh && rng.chance(1, 3)) {
            if crlf {
                f.push(b'\r');
            }
            f.push(b'\n');
        }
        if dirty && rng.chance(1, 12) {
            f.push(b'\n');
        }
    }
    let nr = rng.below(3);
    for i in 0..nr {
        f.extend(format!("r{i}\t4\t*\t0").as_bytes());
        if dirty && rng.chance(1, 4) {
            f.push(p);
        }
        if !(dirty && rng.chance(1, 6)) {
            f.push(b'\n');
        }
    }
    let ns = rng.below(40) as usize;
    let sizes: Vec<usize> = (0..ns).map(|_| *rng.pick(&[1usize, 1, 2, 3, 4, 5, 7, 16, 33, 100])).collect();
    let cap = *rng.pick(&[1usize, 2, 3, 4, 5, 7, 8, 16, 64, 8192]);
    let nr = rng.range(1, 24) as usize;
    let zero = rng.chance(1, 10);
    let rsizes: Vec<usize> = (0..nr)
        .map(|_| if zero && rng.chance(1, 6) { 0 } else { *rng.pick(&[1usize, 1, 2, 2, 3, 4, 5, 7, 9, 16, 64]) })
        .collect();
    w.push(
        "ahrd",
        vec![(if sam { "sam" } else { "vcf" }).to_string(), hex(&f), cap.to_string(), fmt_sizes(&sizes), rng.below(2).to_string(), fmt_sizes(&rsizes)],
    );
}

// ---------------------------------------------------------------------------------------------
// hostile / inconsistent BAM headers through the format-level differential kind `rd bam` / `rd bamlazy`
// (c16_fmt.rs: header, records, end / error kind of the sync and the async reader must be equal).
// The files are assembled by hand, field by field, so that the parts of the header that a writer
// always keeps consistent vary INDEPENDENTLY: the @SQ dictionary of the header text against the
// binary reference list (either one empty, shorter, longer, other names, other lengths), l_text
// against the text (NUL padding, short / long by a few bytes), l_name against the name (no NUL,
// zero length), n_ref against the entries present, text that does not parse; then 0..2 records
// whose reference ids are in or out of range.  BGZF layer intact (one or two blocks, EOF marker or not).

fn bam_record(ref_id: i32, name: &[u8]) -> Vec<u8> {
    let mut b = Vec::new();
    b.extend(ref_id.to_le_bytes());
    b.extend((if ref_id < 0 { -1i32 } else { 0 }).to_le_bytes());
    b.push(name.len() as u8 + 1);
    b.push(255);
    b.extend(4680u16.to_le_bytes());
    b.extend(0u16.to_le_bytes());
    b.extend((if ref_id < 0 { 4u16 } else { 0 }).to_le_bytes());
    b.extend(0u32.to_le_bytes());
    b.extend((-1i32).to_le_bytes());
    b.extend((-1i32).to_le_bytes());
    b.extend(0i32.to_le_bytes());
    b.extend(name);
    b.push(0);
    let mut r = (b.len() as u32).to_le_bytes().to_vec();
    r.extend(b);
    r
}

pub fn gen_hostile_bam_header(rng: &mut Rng, w: &mut CaseWriter) {
    // the text
    let n_sq = *rng.pick(&[0usize, 0, 1, 1, 2, 3]);
    let lens: Vec<u32> = (0..n_sq).map(|_| rng.range(1, 200) as u32).collect();
    let mut text = Vec::new();
    if rng.chance(3, 4) {
        text.extend(b"@HD\tVN:1.6\n");
    }
    for i in 0..n_sq {
        text.extend(format!("@SQ\tSN:s{i}\tLN:{}\n", lens[i]).as_bytes());
    }
    match rng.below(12) {
        0 => text.extend(b"@CO\tc\n"),
        1 => text.extend(b"@SQ\tSN:s0\n"),        // no LN: does not parse
        2 => text.extend(b"@XY\n"),
        3 => {
            text.pop();
        } // no final LF
        _ => {}
    }
    let pad = if rng.chance(1, 6) { rng.range(1, 4) as usize } else { 0 };
    let mut l_text = (text.len() + pad) as i64;
    text.extend(std::iter::repeat(0u8).take(pad));
    if rng.chance(1, 10) {
        l_text += *rng.pick(&[-3i64, -1, 1, 2]);
        l_text = l_text.max(0);
    }
    // the binary reference list, chosen independently of the text
    let n_bin = match rng.below(8) {
        0 | 1 | 2 => n_sq,
        3 | 4 => 0,
        5 => n_sq.saturating_sub(1),
        6 => n_sq + 1,
        _ => rng.below(4) as usize,
    };
    let mut f = Vec::new();
    f.extend(if rng.chance(1, 40) { *b"BAM\x02" } else { *b"BAM\x01" });
    f.extend((l_text as u32).to_le_bytes());
    f.extend(&text);
    let n_ref_field = if rng.chance(1, 12) { n_bin as u32 + rng.range(1, 3) as u32 } else { n_bin as u32 };
    f.extend(n_ref_field.to_le_bytes());
    for i in 0..n_bin {
        let name: Vec<u8> = if rng.chance(1, 8) { format!("t{i}").into_bytes() } else { format!("s{i}").into_bytes() };
        match rng.below(16) {
            0 => {
                // no NUL terminator
                f.extend((name.len() as u32).to_le_bytes());
                f.extend(&name);
            }
            1 => f.extend(0u32.to_le_bytes()),
            _ => {
                f.extend((name.len() as u32 + 1).to_le_bytes());
                f.extend(&name);
                f.push(0);
            }
        }
        let l = if i < n_sq && !rng.chance(1, 6) { lens[i] } else { rng.range(0, 300) as u32 };
        f.extend(l.to_le_bytes());
    }
    for i in 0..rng.below(3) {
        let id = *rng.pick(&[-1i32, -1, 0, 0, 1, 3, 7]);
        f.extend(bam_record(id, format!("r{i}").as_bytes()));
    }
    let breaks = if rng.chance(1, 3) { vec![rng.below(f.len() as u64 + 1) as usize] } else { vec![] };
    let file = crate::bgzip(&f, &breaks, rng.chance(3, 4), 6);
    let fmt = if rng.chance(1, 4) { "bamlazy" } else { "bam" };
    w.push("rd", vec![fmt.to_string(), hex(&file), rng.below(6).to_string(), rng.next().to_string(), rng.range(1, 8).to_string()]);
}

// ---------------------------------------------------------------------------------------------
// hostile / inconsistent BCF headers and records through `rd bcf` (same oracle: header, records,
// end / error kind of bcf::io::Reader and bcf::r#async::io::Reader must be equal).  Assembled by hand
// so that what a writer keeps consistent varies independently: the IDX= values of the text (string
// map) against the positions of the lines (explicit, clashing, out of order, partly given), contig
// lines against the records' chrom ids (negative, out of range), FILTER / INFO keys of the records
// against the string map, l_text against the text (no NUL, NUL padding, short / long by a few bytes,
// zero), text without fileformat / without the #CHROM line / with a line that does not parse, magic
// and version bytes.  BGZF layer intact.

fn bcf_record(chrom: i32, filter: Option<u8>, info_key: Option<u8>) -> Vec<u8> {
    let mut s = Vec::new();
    s.extend(chrom.to_le_bytes());
    s.extend(7i32.to_le_bytes()); // pos
    s.extend(1i32.to_le_bytes()); // rlen
    s.extend(0x7f80_0001u32.to_le_bytes()); // qual: missing
    let n_info: u32 = if info_key.is_some() { 1 } else { 0 };
    s.extend(((1u32 << 16) | n_info).to_le_bytes()); // n_allele << 16 | n_info
    s.extend(0u32.to_le_bytes()); // n_fmt << 24 | n_sample
    s.push(0x07); // id: empty string
    s.extend([0x17, b'A']); // ref
    match filter {
        None => s.push(0x00),
        Some(i) => s.extend([0x11, i]),
    }
    if let Some(k) = info_key {
        s.extend([0x11, k, 0x11, 5]); // key (int8), value int8 5
    }
    let mut r = (s.len() as u32).to_le_bytes().to_vec();
    r.extend(0u32.to_le_bytes());
    r.extend(s);
    r
}

pub fn gen_hostile_bcf_header(rng: &mut Rng, w: &mut CaseWriter) {
    let n_ctg = *rng.pick(&[0usize, 1, 1, 2, 3]);
    let mut text = Vec::new();
    if !rng.chance(1, 12) {
        text.extend(if rng.chance(1, 10) { &b"##fileformat=VCFv4.2\n"[..] } else { &b"##fileformat=VCFv4.3\n"[..] });
    }
    // string map entries: PASS first (or not), then INFO / FILTER lines whose IDX is given or not
    let idx_mode = rng.below(6); // 0,1,2: none   3: all consistent   4: clashing / out of order   5: partly
    let mut k = 0usize;
    let idx = |rng: &mut Rng, k: usize| -> String {
        match idx_mode {
            3 => format!(",IDX={k}"),
            4 => format!(",IDX={}", rng.pick(&[0usize, 1, 1, 2, 5, 9])),
            5 => if rng.chance(1, 2) { format!(",IDX={k}") } else { String::new() },
            _ => String::new(),
        }
    };
    if !rng.chance(1, 6) {
        let i = idx(rng, k);
        text.extend(format!("##FILTER=<ID=PASS,Description=\"All filters passed\"{i}>\n").as_bytes());
        k += 1;
    }
    for name in ["DP", "q10", "AF"] {
        if rng.chance(2, 3) {
            let i = idx(rng, k);
            if name == "q10" {
                text.extend(format!("##FILTER=<ID=q10,Description=\"q\"{i}>\n").as_bytes());
            } else {
                let ty = if name == "DP" { "Integer" } else { "Float" };
                let num = if name == "DP" { "1" } else { "A" };
                text.extend(format!("##INFO=<ID={name},Number={num},Type={ty},Description=\"d\"{i}>\n").as_bytes());
            }
            k += 1;
        }
    }
    for c in 0..n_ctg {
        let i = match idx_mode {
            3 => format!(",IDX={c}"),
            4 => format!(",IDX={}", rng.pick(&[0usize, 0, 1, 3, 8])),
            _ => String::new(),
        };
        text.extend(format!("##contig=<ID=s{c},length={}{i}>\n", rng.range(10, 500)).as_bytes());
    }
    match rng.below(14) {
        0 => text.extend(b"##INFO=<ID=XX,Number=1>\n"), // does not parse (no Type / Description)
        1 => text.extend(b"##contig=<ID=s0,length=5>\n"), // duplicate (when n_ctg >= 1)
        2 => text.extend(b"#garbage\n"),
        3 => text.extend(b"##k=v\n"),
        _ => {}
    }
    match rng.below(12) {
        0 => {} // no #CHROM line
        1 => text.extend(b"#CHROM\tPOS\tID\tREF\tALT\tQUAL\tFILTER\tINFO"), // no final LF
        2 => text.extend(b"#CHROM\tPOS\tID\tREF\tALT\tQUAL\tFILTER\tINFO\tFORMAT\tx\n"),
        3 => text.extend(b"#CHROM\tPOS\tID\n"),
        _ => text.extend(b"#CHROM\tPOS\tID\tREF\tALT\tQUAL\tFILTER\tINFO\n"),
    }
    // NUL terminator / padding, l_text chosen independently
    let pad = match rng.below(8) {
        0 => 0usize,
        1 => rng.range(2, 5) as usize,
        _ => 1,
    };
    text.extend(std::iter::repeat(0u8).take(pad));
    let mut l_text = text.len() as i64;
    if rng.chance(1, 8) {
        l_text += *rng.pick(&[-4i64, -2, -1, 1, 2, 6]);
        l_text = l_text.max(0);
    }
    if rng.chance(1, 40) {
        l_text = 0;
    }
    let mut f = Vec::new();
    f.extend(match rng.below(40) {
        0 => *b"BCF\x02\x01",
        1 => *b"BCF\x03\x02",
        2 => *b"BAM\x01\x00",
        _ => *b"BCF\x02\x02",
    });
    f.extend((l_text as u32).to_le_bytes());
    f.extend(&text);
    for _ in 0..rng.below(3) {
        let chrom = *rng.pick(&[0i32, 0, 0, 1, 2, 5, -1, i32::MAX]);
        let filter = if rng.chance(1, 2) { Some(*rng.pick(&[0u8, 0, 1, 2, 3, 9])) } else { None };
        let info = if rng.chance(1, 2) { Some(*rng.pick(&[0u8, 1, 1, 2, 3, 9])) } else { None };
        f.extend(bcf_record(chrom, filter, info));
    }
    let breaks = if rng.chance(1, 3) { vec![rng.below(f.len() as u64 + 1) as usize] } else { vec![] };
    let file = crate::bgzip(&f, &breaks, rng.chance(3, 4), 6);
    w.push("rd", vec!["bcf".to_string(), hex(&file), rng.below(6).to_string(), rng.next().to_string(), rng.range(1, 8).to_string()]);
}

// ---------------------------------------------------------------------------------------------
// hostile CRAM file definitions and header containers through `rd cram` (cram::io::Reader against
// cram::r#async::io::Reader, read_header = file definition + header container, then records(&h)).
// The file definition (magic, version, file id) and the header container (container header fields,
// its CRC32, the block header: method / content type / content id / sizes, the block CRC32, l_text,
// the text, a second block, padding up to the container length) are written field by field, each
// chosen independently; what follows is nothing, the EOF container, or the data containers + EOF
// container of a file written by the real writer (whose header may or may not be the text used here).

fn itf8(n: i32) -> Vec<u8> {
    let n = n as u32;
    if n >> 7 == 0 {
        vec![n as u8]
    } else if n >> 14 == 0 {
        vec![0x80 | (n >> 8) as u8, n as u8]
    } else if n >> 21 == 0 {
        vec![0xc0 | (n >> 16) as u8, (n >> 8) as u8, n as u8]
    } else if n >> 28 == 0 {
        vec![0xe0 | (n >> 24) as u8, (n >> 16) as u8, (n >> 8) as u8, n as u8]
    } else {
        vec![0xf0 | (n >> 28) as u8, (n >> 20) as u8, (n >> 12) as u8, (n >> 4) as u8, (n & 0x0f) as u8]
    }
}

fn crc32(b: &[u8]) -> u32 {
    let mut c = flate2::Crc::new();
    c.update(b);
    c.sum()
}

/// offset of the first byte after the header container of a CRAM 3.x file, if it parses
fn cram_after_header_container(f: &[u8]) -> Option<usize> {
    let (at, len) = crate::c16_fmt::cram_header_container_body(f)?;
    if at + len <= f.len() { Some(at + len) } else { None }
}

const CRAM_EOF: [u8; 38] = [
    0x0f, 0x00, 0x00, 0x00, 0xff, 0xff, 0xff, 0xff, 0x0f, 0xe0, 0x45, 0x4f, 0x46, 0x00, 0x00, 0x00, 0x00, 0x01, 0x00, 0x05, 0xbd, 0xd9, 0x4f, 0x00, 0x01, 0x00, 0x06, 0x06, 0x01, 0x00,
    0x01, 0x00, 0x01, 0x00, 0xee, 0x63, 0x01, 0x4b,
];

pub fn gen_hostile_cram_header(rng: &mut Rng, w: &mut CaseWriter) {
    // a real file: its tail (data containers + EOF) and its header text
    let real = crate::c16_fmt::make_file(rng, "cram");
    let real_text: Vec<u8> = {
        let mut r = noodles_cram::io::Reader::new(&real[..]);
        let h = r.read_header().unwrap();
        let mut sw = noodles_sam::io::Writer::new(Vec::new());
        sw.write_header(&h).unwrap();
        sw.into_inner()
    };
    let mut text: Vec<u8> = match rng.below(8) {
        0 => b"@HD\tVN:1.6\n".to_vec(),
        1 => b"@HD\tVN:1.6\n@SQ\tSN:zz\tLN:9\n".to_vec(),
        2 => Vec::new(),
        3 => b"@SQ\tSN:s0\n".to_vec(), // does not parse
        _ => real_text.clone(),
    };
    if rng.chance(1, 10) {
        text.pop(); // no final LF
    }
    if rng.chance(1, 10) {
        text.extend([0u8; 3]); // NUL padding inside l_text
    }
    let mut l_text = text.len() as i64;
    if rng.chance(1, 8) {
        l_text += *rng.pick(&[-5i64, -1, 1, 4, 100]);
    }
    if rng.chance(1, 30) {
        l_text = -1;
    }
    let mut data = (l_text as i32).to_le_bytes().to_vec();
    data.extend(&text);
    if rng.chance(1, 8) {
        data.extend(std::iter::repeat(0u8).take(rng.range(1, 9) as usize)); // slack inside the block
    }
    // the block
    let block = |rng: &mut Rng, data: &[u8], first: bool| -> Vec<u8> {
        let mut b = Vec::new();
        b.push(if rng.chance(1, 10) { *rng.pick(&[1u8, 2, 4, 9]) } else { 0 }); // method: raw, or a lie
        b.push(if first && !rng.chance(1, 8) { 0 } else { *rng.pick(&[0u8, 1, 2, 4, 5, 7]) }); // content type
        b.extend(itf8(if rng.chance(1, 12) { 3 } else { 0 })); // content id
        let csize = data.len() as i64 + if rng.chance(1, 10) { *rng.pick(&[-2i64, -1, 1, 3]) } else { 0 };
        let usize_ = data.len() as i64 + if rng.chance(1, 10) { *rng.pick(&[-2i64, -1, 1, 3, 1000]) } else { 0 };
        b.extend(itf8(csize.max(0) as i32));
        b.extend(itf8(usize_.max(0) as i32));
        b.extend(data);
        let c = crc32(&b);
        b.extend((if rng.chance(1, 12) { c ^ 1 } else { c }).to_le_bytes());
        b
    };
    let mut body = block(rng, &data, true);
    let first_len = body.len();
    let mut n_blocks = 1i32;
    if rng.chance(1, 4) {
        // a second block (htslib writes an empty padding block here)
        let pad = vec![0u8; rng.below(12) as usize];
        body.extend(block(rng, &pad, false));
        n_blocks = 2;
    }
    if rng.chance(1, 6) {
        body.extend(std::iter::repeat(0u8).take(rng.range(1, 16) as usize)); // padding after the blocks
    }
    if rng.chance(1, 12) {
        n_blocks = *rng.pick(&[0i32, 2, 3]);
    }
    let mut len = body.len() as i64;
    if rng.chance(1, 8) {
        len = match rng.below(5) {
            0 => 0,
            1 => first_len as i64 - 1,
            2 => len + 3,
            3 => first_len as i64,
            _ => len - 1,
        }
        .max(0);
    }
    // the container header
    let mut ch = (len as i32).to_le_bytes().to_vec();
    ch.extend(itf8(if rng.chance(1, 12) { *rng.pick(&[-1i32, -2, 5]) } else { 0 })); // reference sequence id
    ch.extend(itf8(if rng.chance(1, 16) { 7 } else { 0 })); // start
    ch.extend(itf8(if rng.chance(1, 16) { 7 } else { 0 })); // span
    ch.extend(itf8(if rng.chance(1, 16) { 2 } else { 0 })); // record count
    ch.push(0); // record counter (ltf8)
    ch.push(if rng.chance(1, 16) { 9 } else { 0 }); // base count (ltf8)
    ch.extend(itf8(n_blocks));
    match rng.below(10) {
        0 => ch.extend(itf8(0)),
        1 => {
            ch.extend(itf8(2));
            ch.extend(itf8(0));
            ch.extend(itf8(first_len as i32));
        }
        2 => {
            ch.extend(itf8(1));
            ch.extend(itf8(5));
        }
        _ => {
            ch.extend(itf8(1));
            ch.extend(itf8(0));
        }
    }
    let c = crc32(&ch);
    ch.extend((if rng.chance(1, 12) { c ^ 0x100 } else { c }).to_le_bytes());
    // the file definition
    let mut f = Vec::new();
    f.extend(match rng.below(30) {
        0 => *b"CRAN",
        1 => *b"BAM\x01",
        _ => *b"CRAM",
    });
    f.extend(match rng.below(16) {
        0 => [2u8, 1],
        1 => [3, 1],
        2 => [4, 0],
        3 => [3, 9],
        _ => [3, 0],
    });
    let mut id = [0u8; 20];
    for x in id.iter_mut().take(rng.below(21) as usize) {
        *x = rng.below(256) as u8;
    }
    f.extend(id);
    f.extend(ch);
    f.extend(body);
    match rng.below(4) {
        0 => {}
        1 => f.extend(CRAM_EOF),
        _ => match cram_after_header_container(&real) {
            Some(at) => f.extend(&real[at..]),
            None => f.extend(CRAM_EOF),
        },
    }
    if rng.chance(1, 10) {
        let n = rng.below(f.len() as u64 + 1) as usize;
        f.truncate(n);
    }
    w.push("rd", vec!["cram".to_string(), hex(&f), rng.below(6).to_string(), rng.next().to_string(), rng.range(1, 8).to_string()]);
}

pub fn generate(rng: &mut Rng, tier: &str, w: &mut CaseWriter) {
    let n = if tier == "thorough" { 3000 } else { 200 };
    for _ in 0..n {
        gen_ahrd(rng, w);
    }
    let n = if tier == "thorough" { 3000 } else { 240 };
    for _ in 0..n {
        gen_hostile_bam_header(rng, w);
    }
    let n = if tier == "thorough" { 3000 } else { 240 };
    for _ in 0..n {
        gen_hostile_bcf_header(rng, w);
    }
    let n = if tier == "thorough" { 1500 } else { 160 };
    for _ in 0..n {
        gen_hostile_cram_header(rng, w);
    }
}

pub fn run(c: &Case) -> Option<Obs> {
    Some(match c.kind.as_str() {
        "ahrd" => run_ahrd(c),
        _ => return None,
    })
}
