//! C16: the async sam / vcf header adapter (header_reader()) used through **AsyncRead** with caller
//! buffers of arbitrary sizes (poll_read: a partial copy of the line window the adapter's
//! poll_fill_buf handed out), the class the line-driven kind `ahdr` (read_until: whole windows
//! only) never reaches.
//!
//!   ahrd <fmt> <data> <cap> <sizes> <with_pending> <rsizes>
//!        header_reader() over tokio::io::BufReader::with_capacity(cap, AdvReader under the poll script);
//!        one `read(&mut buf[..n])` per n in rsizes: `<bytes>;<bytes>;..|<bytes consumed>`
//!        (model: NV.Async.HeaderReads = C12's h_read over the awaited reader).
//!   Verdict (L3): (a) the same calls on the sync adapter over std::io::BufReader::with_capacity(cap,
//!        a reader with the same transfer sizes) return the same bytes call for call; (b) going on
//!        (cycling rsizes, sizes >= 1) until a read returns 0, the bytes delivered and the place where
//!        the inner reader stands are those of the sync adapter on the plain slice read with one
//!        large buffer (buffer sizes must not matter).

use std::sync::atomic::Ordering;

use nv::{Case, CaseWriter, Obs, Outcome, Rng, errkind, guarded, hex};

use crate::c16_adversary::{AdvReader, Sched, block_on_pool};

fn parse_sizes(s: &str) -> Vec<usize> {
    if s == "_" { vec![] } else { s.split(',').map(|x| x.parse().unwrap()).collect() }
}

fn fmt_sizes(v: &[usize]) -> String {
    if v.is_empty() { "_".into() } else { v.iter().map(|x| x.to_string()).collect::<Vec<_>>().join(",") }
}

fn run_guarded<F: FnOnce() -> String>(f: F) -> String {
    match guarded(std::panic::AssertUnwindSafe(f)) {
        Outcome::Done(v) => v,
        Outcome::Panicked(_) => "Panic".into(),
    }
}

/// the sync twin of AdvReader under an explicit script: the i-th read transfers at most sizes[i]
/// bytes, then whole requests
struct ChunkReader {
    data: Vec<u8>,
    pos: usize,
    sizes: Vec<usize>,
    i: usize,
}

impl std::io::Read for ChunkReader {
    fn read(&mut self, buf: &mut [u8]) -> std::io::Result<usize> {
        let k = if self.i < self.sizes.len() { self.sizes[self.i].max(1) } else { usize::MAX };
        self.i += 1;
        let n = k.min(buf.len()).min(self.data.len() - self.pos);
        buf[..n].copy_from_slice(&self.data[self.pos..self.pos + n]);
        self.pos += n;
        Ok(n)
    }
}

fn sync_drive<H: std::io::Read>(h: &mut H, rsizes: &[usize], until_end: bool) -> (Vec<String>, Vec<u8>, String) {
    let mut calls = Vec::new();
    let mut all = Vec::new();
    for &n in rsizes {
        let mut buf = vec![0u8; n];
        match h.read(&mut buf) {
            Ok(k) => {
                calls.push(hex(&buf[..k]));
                all.extend_from_slice(&buf[..k]);
            }
            Err(e) => return (calls, all, format!("Err:{}", errkind(&e))),
        }
    }
    if until_end {
        let cyc: Vec<usize> = rsizes.iter().copied().filter(|&n| n >= 1).collect();
        let cyc = if cyc.is_empty() { vec![1] } else { cyc };
        for i in 0..(1usize << 16) {
            let mut buf = vec![0u8; cyc[i % cyc.len()]];
            match h.read(&mut buf) {
                Ok(0) => return (calls, all, "Ok".into()),
                Ok(k) => all.extend_from_slice(&buf[..k]),
                Err(e) => return (calls, all, format!("Err:{}", errkind(&e))),
            }
        }
        return (calls, all, "TooMany".into());
    }
    (calls, all, "Ok".into())
}

async fn async_drive<H: tokio::io::AsyncRead + Unpin>(h: &mut H, rsizes: &[usize], until_end: bool) -> (Vec<String>, Vec<u8>, String) {
    use tokio::io::AsyncReadExt;
    let mut calls = Vec::new();
    let mut all = Vec::new();
    for &n in rsizes {
        let mut buf = vec![0u8; n];
        match h.read(&mut buf).await {
            Ok(k) => {
                calls.push(hex(&buf[..k]));
                all.extend_from_slice(&buf[..k]);
            }
            Err(e) => return (calls, all, format!("Err:{}", errkind(&e))),
        }
    }
    if until_end {
        let cyc: Vec<usize> = rsizes.iter().copied().filter(|&n| n >= 1).collect();
        let cyc = if cyc.is_empty() { vec![1] } else { cyc };
        for i in 0..(1usize << 16) {
            let mut buf = vec![0u8; cyc[i % cyc.len()]];
            match h.read(&mut buf).await {
                Ok(0) => return (calls, all, "Ok".into()),
                Ok(k) => all.extend_from_slice(&buf[..k]),
                Err(e) => return (calls, all, format!("Err:{}", errkind(&e))),
            }
        }
        return (calls, all, "TooMany".into());
    }
    (calls, all, "Ok".into())
}

pub fn run_ahrd(c: &Case) -> Obs {
    let sam = c.args[0] == "sam";
    let fmt = if sam { "sam" } else { "vcf" };
    let data = c.b(1);
    let cap = c.u(2) as usize;
    let sizes = parse_sizes(&c.args[3]);
    let wp = c.u(4) == 1;
    let rsizes = parse_sizes(&c.args[5]);
    let total = data.len();

    // async: the scripted calls only (the observation), then a second run that goes on to the end
    let arun = |until_end: bool| {
        let sched = Sched::explicit(sizes.clone(), wp);
        let tripped = sched.tripped.clone();
        let src = AdvReader::new(data.clone(), sched);
        let rs = rsizes.clone();
        let s = run_guarded(move || {
            block_on_pool(1, async move {
                let br = tokio::io::BufReader::with_capacity(cap, src);
                let ((calls, all, st), pos) = if sam {
                    let mut r = noodles_sam::r#async::io::Reader::new(br);
                    let o = async_drive(&mut r.header_reader(), &rs, until_end).await;
                    let br = r.get_ref();
                    (o, br.get_ref().pos as usize - br.buffer().len())
                } else {
                    let mut r = noodles_vcf::r#async::io::Reader::new(br);
                    let o = async_drive(&mut r.header_reader(), &rs, until_end).await;
                    let br = r.get_ref();
                    (o, br.get_ref().pos as usize - br.buffer().len())
                };
                if until_end { format!("{}|{st}|{pos}", hex(&all)) } else if st == "Ok" { format!("{}|{pos}", calls.join(";")) } else { format!("{}|{st}|{pos}", calls.join(";")) }
            })
        });
        (s, tripped.load(Ordering::SeqCst))
    };
    let (a_calls, t1) = arun(false);
    let (a_all, t2) = arun(true);
    if t1 || t2 {
        return Obs::fail("-", &format!("async-{fmt}-hang"), "poll limit reached");
    }

    // sync, same windows: call for call
    let s_calls = {
        let d = data.clone();
        let rs = rsizes.clone();
        let sz = sizes.clone();
        run_guarded(move || {
            let cr = ChunkReader { data: d, pos: 0, sizes: sz, i: 0 };
            let br = std::io::BufReader::with_capacity(cap, cr);
            let ((calls, _, st), pos) = if sam {
                let mut r = noodles_sam::io::Reader::new(br);
                let o = sync_drive(&mut r.header_reader(), &rs, false);
                let br = r.get_ref();
                (o, br.get_ref().pos - br.buffer().len())
            } else {
                let mut r = noodles_vcf::io::Reader::new(br);
                let o = sync_drive(&mut r.header_reader(), &rs, false);
                let br = r.get_ref();
                (o, br.get_ref().pos - br.buffer().len())
            };
            if st == "Ok" { format!("{}|{pos}", calls.join(";")) } else { format!("{}|{st}|{pos}", calls.join(";")) }
        })
    };
    if s_calls != a_calls {
        return Obs::fail(a_calls.clone(), &format!("async-{fmt}-header-adapter-read-differs"), format!("sync={s_calls} async={a_calls} data={}", hex(&data)));
    }
    // sync, plain: the whole header with one large buffer per line window (read until 0)
    let s_all = {
        let d = data.clone();
        run_guarded(move || {
            let ((_, all, st), pos) = if sam {
                let mut r = noodles_sam::io::Reader::new(&d[..]);
                let o = sync_drive(&mut r.header_reader(), &[total + 1], true);
                (o, total - r.get_ref().len())
            } else {
                let mut r = noodles_vcf::io::Reader::new(&d[..]);
                let o = sync_drive(&mut r.header_reader(), &[total + 1], true);
                (o, total - r.get_ref().len())
            };
            format!("{}|{st}|{pos}", hex(&all))
        })
    };
    // a read with an empty buffer at a line start makes both adapters forget the line start (sync
    // and async alike: compared above); the buffer-size independence is stated for sizes >= 1
    if !rsizes.contains(&0) && a_all != s_all {
        return Obs::fail(a_calls, &format!("async-{fmt}-header-adapter-read-buffer-size-dependent"), format!("whole={s_all} async={a_all} data={} rsizes={}", hex(&data), c.args[5]));
    }
    let p = if sam { b'@' } else { b'#' };
    Obs::ok(a_calls, data.first() == Some(&p) && data.contains(&b'\n') && rsizes.iter().any(|&n| n >= 1 && n < total))
}

/// header text (several prefixed lines, some longer than the read buffers) followed by records
pub fn gen_ahrd(rng: &mut Rng, w: &mut CaseWriter) {
    let sam = rng.chance(1, 2);
    let p = if sam { b'@' } else { b'#' };
    let mut f = Vec::new();
    let crlf = rng.chance(1, 4);
    let dirty = rng.chance(1, 3);
    let nh = rng.below(5);
    for i in 0..nh {
        f.push(p);
        let n = rng.below(14);
        for _ in 0..n {
            f.push(*rng.pick(if sam { &b"HDSQCO\tVN:1.6@ab"[..] } else { &b"#fileformat=VCFv4\tCHROM"[..] }));
        }
        if dirty && rng.chance(1, 8) {
            f.push(b'\r');
        }
        if !(dirty && i + 1 == nh && rng.chance(1, 3)) {
            if crlf {
                f.push(b'\r');
            }
            f.push(b'\n');
        }
        if dirty && rng.chance(1, 12) {
            f.push(b'\n');
        }
    }
    let nr = rng.below(3);
    for i in 0..nr {
        f.extend(format!("r{i}\t4\t*\t0").as_bytes());
        if dirty && rng.chance(1, 4) {
            f.push(p);
        }
        if !(dirty && rng.chance(1, 6)) {
            f.push(b'\n');
        }
    }
    let ns = rng.below(40) as usize;
    let sizes: Vec<usize> = (0..ns).map(|_| *rng.pick(&[1usize, 1, 2, 3, 4, 5, 7, 16, 33, 100])).collect();
    let cap = *rng.pick(&[1usize, 2, 3, 4, 5, 7, 8, 16, 64, 8192]);
    let nr = rng.range(1, 24) as usize;
    let zero = rng.chance(1, 10);
    let rsizes: Vec<usize> = (0..nr)
        .map(|_| if zero && rng.chance(1, 6) { 0 } else { *rng.pick(&[1usize, 1, 2, 2, 3, 4, 5, 7, 9, 16, 64]) })
        .collect();
    w.push(
        "ahrd",
        vec![(if sam { "sam" } else { "vcf" }).to_string(), hex(&f), cap.to_string(), fmt_sizes(&sizes), rng.below(2).to_string(), fmt_sizes(&rsizes)],
    );
}

// ---------------------------------------------------------------------------------------------
// hostile / inconsistent BAM headers through the format-level differential kind `rd bam` / `rd bamlazy`
// (c16_fmt.rs: header, records, end / error kind of the sync and the async reader must be equal).
// The files are assembled by hand, field by field, so that the parts of the header that a writer
// always keeps consistent vary INDEPENDENTLY: the @SQ dictionary of the header text against the
// binary reference list (either one empty, shorter, longer, other names, other lengths), l_text
// against the text (NUL padding, short / long by a few bytes), l_name against the name (no NUL,
// zero length), n_ref against the entries present, text that does not parse; then 0..2 records
// whose reference ids are in or out of range.  BGZF layer intact (one or two blocks, EOF marker or not).

fn bam_record(ref_id: i32, name: &[u8]) -> Vec<u8> {
    let mut b = Vec::new();
    b.extend(ref_id.to_le_bytes());
    b.extend((if ref_id < 0 { -1i32 } else { 0 }).to_le_bytes());
    b.push(name.len() as u8 + 1);
    b.push(255);
    b.extend(4680u16.to_le_bytes());
    b.extend(0u16.to_le_bytes());
    b.extend((if ref_id < 0 { 4u16 } else { 0 }).to_le_bytes());
    b.extend(0u32.to_le_bytes());
    b.extend((-1i32).to_le_bytes());
    b.extend((-1i32).to_le_bytes());
    b.extend(0i32.to_le_bytes());
    b.extend(name);
    b.push(0);
    let mut r = (b.len() as u32).to_le_bytes().to_vec();
    r.extend(b);
    r
}

pub fn gen_hostile_bam_header(rng: &mut Rng, w: &mut CaseWriter) {
    // the text
    let n_sq = *rng.pick(&[0usize, 0, 1, 1, 2, 3]);
    let lens: Vec<u32> = (0..n_sq).map(|_| rng.range(1, 200) as u32).collect();
    let mut text = Vec::new();
    if rng.chance(3, 4) {
        text.extend(b"@HD\tVN:1.6\n");
    }
    for i in 0..n_sq {
        text.extend(format!("@SQ\tSN:s{i}\tLN:{}\n", lens[i]).as_bytes());
    }
    match rng.below(12) {
        0 => text.extend(b"@CO\tc\n"),
        1 => text.extend(b"@SQ\tSN:s0\n"),        // no LN: does not parse
        2 => text.extend(b"@XY\n"),
        3 => {
            text.pop();
        } // no final LF
        _ => {}
    }
    let pad = if rng.chance(1, 6) { rng.range(1, 4) as usize } else { 0 };
    let mut l_text = (text.len() + pad) as i64;
    text.extend(std::iter::repeat(0u8).take(pad));
    if rng.chance(1, 10) {
        l_text += *rng.pick(&[-3i64, -1, 1, 2]);
        l_text = l_text.max(0);
    }
    // the binary reference list, chosen independently of the text
    let n_bin = match rng.below(8) {
        0 | 1 | 2 => n_sq,
        3 | 4 => 0,
        5 => n_sq.saturating_sub(1),
        6 => n_sq + 1,
        _ => rng.below(4) as usize,
    };
    let mut f = Vec::new();
    f.extend(if rng.chance(1, 40) { *b"BAM\x02" } else { *b"BAM\x01" });
    f.extend((l_text as u32).to_le_bytes());
    f.extend(&text);
    let n_ref_field = if rng.chance(1, 12) { n_bin as u32 + rng.range(1, 3) as u32 } else { n_bin as u32 };
    f.extend(n_ref_field.to_le_bytes());
    for i in 0..n_bin {
        let name: Vec<u8> = if rng.chance(1, 8) { format!("t{i}").into_bytes() } else { format!("s{i}").into_bytes() };
        match rng.below(16) {
            0 => {
                // no NUL terminator
                f.extend((name.len() as u32).to_le_bytes());
                f.extend(&name);
            }
            1 => f.extend(0u32.to_le_bytes()),
            _ => {
                f.extend((name.len() as u32 + 1).to_le_bytes());
                f.extend(&name);
                f.push(0);
            }
        }
        let l = if i < n_sq && !rng.chance(1, 6) { lens[i] } else { rng.range(0, 300) as u32 };
        f.extend(l.to_le_bytes());
    }
    for i in 0..rng.below(3) {
        let id = *rng.pick(&[-1i32, -1, 0, 0, 1, 3, 7]);
        f.extend(bam_record(id, format!("r{i}").as_bytes()));
    }
    let breaks = if rng.chance(1, 3) { vec![rng.below(f.len() as u64 + 1) as usize] } else { vec![] };
    let file = crate::bgzip(&f, &breaks, rng.chance(3, 4), 6);
    let fmt = if rng.chance(1, 4) { "bamlazy" } else { "bam" };
    w.push("rd", vec![fmt.to_string(), hex(&file), rng.below(6).to_string(), rng.next().to_string(), rng.range(1, 8).to_string()]);
}

pub fn generate(rng: &mut Rng, tier: &str, w: &mut CaseWriter) {
    let n = if tier == "thorough" { 3000 } else { 200 };
    for _ in 0..n {
        gen_ahrd(rng, w);
    }
    let n = if tier == "thorough" { 3000 } else { 240 };
    for _ in 0..n {
        gen_hostile_bam_header(rng, w);
    }
}

pub fn run(c: &Case) -> Option<Obs> {
    Some(match c.kind.as_str() {
        "ahrd" => run_ahrd(c),
        _ => return None,
    })
}
