// C06 harness, part 3: generators (included by c06_part2.rs).

fn printable(rng: &mut Rng, lo: u8, hi: u8, n: usize) -> Vec<u8> {
    (0..n)
        .map(|_| match rng.below(8) {
            0 => lo,
            1 => hi,
            _ => rng.range(lo as u64, hi as u64) as u8,
        })
        .collect()
}

fn gen_value(rng: &mut Rng) -> Vec<u8> {
    // header field value: [ -~]+
    let n = match rng.below(6) {
        0 => 1,
        1 => rng.range(1, 3) as usize,
        _ => rng.range(1, 12) as usize,
    };
    let mut v = printable(rng, b' ', b'~', n);
    if rng.chance(1, 6) {
        v[0] = b' ';
    }
    if rng.chance(1, 6) {
        *v.last_mut().unwrap() = b' ';
    }
    if rng.chance(1, 8) {
        v[0] = *rng.pick(&[b'@', b':', b'*', b'=']);
    }
    v
}

const RNAME_BAD: &[u8] = b"\\,\"`'()[]{}<>";
fn gen_refname(rng: &mut Rng, used: &mut Vec<Vec<u8>>) -> Vec<u8> {
    loop {
        let n = match rng.below(5) {
            0 => 1,
            _ => rng.range(1, 10) as usize,
        };
        let mut v: Vec<u8> = Vec::new();
        while v.len() < n {
            let b = match rng.below(6) {
                0 => *rng.pick(b"*=!~|:;@#"),
                _ => rng.range(b'!' as u64, b'~' as u64) as u8,
            };
            if RNAME_BAD.contains(&b) || (v.is_empty() && (b == b'*' || b == b'=')) {
                continue;
            }
            v.push(b);
        }
        if !used.contains(&v) {
            used.push(v.clone());
            return v;
        }
    }
}

fn gen_user_tag(rng: &mut Rng) -> [u8; 2] {
    let a = if rng.chance(3, 4) { rng.range(b'a' as u64, b'z' as u64) as u8 } else { rng.range(b'A' as u64, b'Z' as u64) as u8 };
    let b = match rng.below(3) {
        0 => rng.range(b'0' as u64, b'9' as u64) as u8,
        1 => rng.range(b'a' as u64, b'z' as u64) as u8,
        _ => rng.range(b'A' as u64, b'Z' as u64) as u8,
    };
    [a, b]
}

fn fill_other<S>(rng: &mut Rng, of: &mut indexmap::IndexMap<Other<S>, BString>, std_tags: &[&[u8; 2]], max: usize)
where
    S: map::tag::Standard,
{
    let n = rng.below(max as u64 + 1) as usize;
    for _ in 0..n {
        let t = if rng.chance(2, 3) && !std_tags.is_empty() { **rng.pick(std_tags) } else { gen_user_tag(rng) };
        if let Ok(o) = Other::<S>::try_from(t) {
            of.insert(o, BString::from(gen_value(rng)));
        }
    }
}

/// (header, valid): `valid` = inside the SAM header grammar as the property quantifies it
fn gen_header(rng: &mut Rng, rich: bool) -> (sam::Header, bool) {
    let mut h = sam::Header::default();
    let mut valid = true;
    if rng.chance(4, 5) {
        let v = match rng.below(6) {
            0 => Version::new(1, 6),
            1 => Version::new(1, 5),
            2 => Version::new(1, 0),
            3 => Version::new(rng.below(3) as u32, rng.below(30) as u32),
            4 => Version::new(u32::MAX, u32::MAX),
            _ => Version::default(),
        };
        let mut m = Map::<map::Header>::new(v);
        let so: &[&[u8]] = &[b"unknown", b"unsorted", b"queryname", b"coordinate"];
        let go: &[&[u8]] = &[b"none", b"query", b"reference"];
        let mut order: Vec<u8> = vec![0, 1, 2, 3];
        for i in (1..order.len()).rev() {
            order.swap(i, rng.below(i as u64 + 1) as usize);
        }
        for k in order {
            match k {
                0 if rng.chance(1, 2) => {
                    m.other_fields_mut().insert(map::header::tag::SORT_ORDER, BString::from(*rng.pick(so)));
                }
                1 if rng.chance(1, 3) => {
                    m.other_fields_mut().insert(map::header::tag::GROUP_ORDER, BString::from(*rng.pick(go)));
                }
                2 if rng.chance(1, 3) => {
                    m.other_fields_mut().insert(map::header::tag::SUBSORT_ORDER, BString::from(&b"coordinate:MI"[..]));
                }
                3 if rich => fill_other(rng, m.other_fields_mut(), &[], 2),
                _ => {}
            }
        }
        *h.header_mut() = Some(m);
    }
    let nref = if rich {
        match rng.below(6) {
            0 => 0,
            1 => 1,
            2 => rng.range(20, 60) as usize,
            _ => rng.range(1, 6) as usize,
        }
    } else {
        match rng.below(5) {
            0 => 0,
            1 => 1,
            _ => rng.range(2, 5) as usize,
        }
    };
    let mut used = Vec::new();
    let sq_tags: &[&[u8; 2]] = &[b"AH", b"AN", b"AS", b"DS", b"M5", b"SP", b"TP", b"UR"];
    for _ in 0..nref {
        let name = gen_refname(rng, &mut used);
        let ln = match rng.below(5) {
            0 => 1,
            1 => (1usize << 31) - 1,
            2 => rng.range(1, 1 << 31) as usize - 0,
            _ => rng.range(1, 300_000_000) as usize,
        }
        .min((1usize << 31) - 1);
        let mut m = Map::<ReferenceSequence>::new(NonZero::new(ln).unwrap());
        fill_other(rng, m.other_fields_mut(), sq_tags, if rich { 5 } else { 1 });
        h.reference_sequences_mut().insert(BString::from(name), m);
    }
    let rg_tags: &[&[u8; 2]] = &[b"BC", b"CN", b"DS", b"DT", b"FO", b"KS", b"LB", b"PG", b"PI", b"PL", b"PM", b"PU", b"SM"];
    let nrg = if rich { rng.below(6) } else { rng.below(3) } as usize;
    for i in 0..nrg {
        let mut id = gen_value(rng);
        if rng.chance(1, 2) {
            id = format!("rg{}", nrg - i).into_bytes(); // ids that sort differently from insertion order
        }
        let mut m = Map::<ReadGroup>::default();
        fill_other(rng, m.other_fields_mut(), rg_tags, if rich { 6 } else { 2 });
        h.read_groups_mut().insert(BString::from(id), m);
    }
    let pg_tags: &[&[u8; 2]] = &[b"PN", b"CL", b"DS", b"VN"];
    let npg = if rich { rng.below(6) } else { rng.below(3) } as usize;
    let mut prev: Option<Vec<u8>> = None;
    for i in 0..npg {
        let id = if rng.chance(1, 2) { format!("pg{}", npg - i).into_bytes() } else { gen_value(rng) };
        let mut m = Map::<Program>::default();
        if let (Some(p), true) = (&prev, rng.chance(2, 3)) {
            m.other_fields_mut().insert(map::program::tag::PREVIOUS_PROGRAM_ID, BString::from(p.clone()));
        }
        fill_other(rng, m.other_fields_mut(), pg_tags, if rich { 4 } else { 1 });
        h.programs_mut().as_mut().insert(BString::from(id.clone()), m);
        prev = Some(id);
    }
    let nco = if rich { rng.below(5) } else { rng.below(2) } as usize;
    for _ in 0..nco {
        let n = match rng.below(5) {
            0 => 0,
            _ => rng.range(1, 30) as usize,
        };
        let mut c = printable(rng, b' ', b'~', n);
        if rich && n > 0 {
            if rng.chance(1, 4) {
                let i = rng.below(n as u64) as usize;
                c[i] = b'\t';
            }
            if rng.chance(1, 6) {
                c.extend_from_slice("\u{00e9}\u{4e2d}".as_bytes());
            }
            if rng.chance(1, 8) {
                c[0] = b'@';
            }
        }
        h.add_comment(BString::from(c));
    }
    // a small stream outside the grammar: the writer may refuse, must not panic
    if rich && rng.chance(1, 10) {
        valid = false;
        match rng.below(5) {
            0 => {
                h.reference_sequences_mut()
                    .insert(BString::from(&b"*bad"[..]), Map::<ReferenceSequence>::new(NonZero::new(5).unwrap()));
            }
            1 => {
                let mut m = Map::<ReadGroup>::default();
                if let Ok(o) = Other::try_from(*b"DS") {
                    m.other_fields_mut().insert(o, BString::from(&b"a\tb"[..]));
                }
                h.read_groups_mut().insert(BString::from(&b"badrg"[..]), m);
            }
            2 => {
                h.read_groups_mut().insert(BString::from(&b""[..]), Map::<ReadGroup>::default());
            }
            3 => {
                let mut m = Map::<Program>::default();
                if let Ok(o) = Other::try_from([b'1', b'x']) {
                    m.other_fields_mut().insert(o, BString::from(&b"v"[..]));
                }
                h.programs_mut().as_mut().insert(BString::from(&b"badpg"[..]), m);
            }
            _ => {
                h.reference_sequences_mut().insert(
                    BString::from(&b"huge"[..]),
                    Map::<ReferenceSequence>::new(NonZero::new(1usize << 31).unwrap()),
                );
            }
        }
    }
    (h, valid)
}

// ---- records

fn gen_name(rng: &mut Rng) -> Option<Vec<u8>> {
    match rng.below(10) {
        0 => None,
        1 => Some(vec![*rng.pick(b"!~=+-0:;#")]),
        2 => Some(printable(rng, b'!', b'~', 254).into_iter().map(|b| if b == b'@' { b'A' } else { b }).collect()),
        3 => Some(b"**".to_vec()),
        _ => {
            let n = rng.range(1, 20) as usize;
            Some(printable(rng, b'!', b'~', n).into_iter().map(|b| if b == b'@' { b'?' } else { b }).collect())
        }
    }
}

fn gen_pos(rng: &mut Rng) -> usize {
    match rng.below(8) {
        0 => 0,
        1 => 1,
        2 => (1 << 31) - 1,
        3 => (1 << 31) - 2,
        4 => *rng.pick(&[9usize, 10, 99, 100, 999, 1000, 65535, 65536, (1 << 28), (1 << 29) - 1]),
        _ => rng.range(1, 300_000_000) as usize,
    }
}

const SEQ_ALPHA: &[u8] = b"ACGTNacgtn=.RYKMSWBDHVrykmswbdhvUuXxZzEe";
fn gen_bases(rng: &mut Rng, n: usize) -> Vec<u8> {
    let mode = rng.below(4);
    (0..n)
        .map(|_| match mode {
            0 => *rng.pick(b"ACGT"),
            1 => *rng.pick(b"ACGTN="),
            _ => *rng.pick(SEQ_ALPHA),
        })
        .collect()
}

fn gen_qual(rng: &mut Rng, n: usize) -> Vec<u8> {
    match rng.below(5) {
        0 => vec![],
        1 => (0..n).map(|_| *rng.pick(&[0u8, 9, 93, 92, 1, 40])).collect(),
        _ => (0..n).map(|_| rng.range(0, 93) as u8).collect(),
    }
}

fn gen_tag(rng: &mut Rng, used: &mut Vec<[u8; 2]>) -> [u8; 2] {
    loop {
        let t = match rng.below(4) {
            0 => **rng.pick(&[b"NM", b"MD", b"AS", b"RG", b"XS", b"BC", b"MM", b"ML", b"Z9", b"z0", b"aa"]),
            _ => gen_user_tag(rng),
        };
        if t != *b"CG" && !used.contains(&t) {
            used.push(t);
            return t;
        }
    }
}

fn range_of(t: char) -> (i64, i64) {
    match t {
        'c' => (i8::MIN as i64, i8::MAX as i64),
        'C' => (0, u8::MAX as i64),
        's' => (i16::MIN as i64, i16::MAX as i64),
        'S' => (0, u16::MAX as i64),
        'i' => (i32::MIN as i64, i32::MAX as i64),
        _ => (0, u32::MAX as i64),
    }
}

fn bound(rng: &mut Rng, lo: i64, hi: i64) -> i64 {
    let specials = [lo, hi, lo + 1, hi - 1, 0, 1, -1, 127, 128, -128, -129, 255, 256, 32767, 32768, -32768, -32769, 65535, 65536, 9, 10, 99, 100];
    match rng.below(3) {
        0 => lo + (rng.next() % ((hi - lo) as u64 + 1)) as i64,
        _ => {
            let v = *rng.pick(&specials);
            v.clamp(lo, hi)
        }
    }
}

fn gen_float_bits(rng: &mut Rng, allow_nonfinite: bool) -> i64 {
    let specials: [u32; 18] = [
        0, 0x8000_0000, 1, 0x8000_0001, 0x007f_ffff, 0x0080_0000, 0x7f7f_ffff, 0xff7f_ffff, 0x3f80_0000, 0xbf80_0000,
        0x3dcc_cccd, 0x4b80_0000, 0x4b7f_ffff, 0x4cbe_bc20, 0x501502f9, 0x3a83126f, 0x3727c5ac, 0x7e967699,
    ];
    loop {
        let b = match rng.below(4) {
            0 => *rng.pick(&specials),
            1 => (rng.range(0, 40) as f32 * 0.25).to_bits() | ((rng.below(2) as u32) << 31),
            2 if allow_nonfinite => *rng.pick(&[0x7f80_0000u32, 0xff80_0000, 0x7fc0_0000, 0x7fc0_0001, 0xffc0_0000]),
            _ => rng.next() as u32,
        };
        if allow_nonfinite || f32::from_bits(b).is_finite() {
            return b as i64;
        }
    }
}

fn gen_val(rng: &mut Rng) -> Val {
    match rng.below(12) {
        0 => Val::Num('A', rng.range(b'!' as u64, b'~' as u64) as i64),
        1 | 2 | 3 => {
            let t = *rng.pick(&['c', 'C', 's', 'S', 'i', 'I']);
            let (lo, hi) = range_of(t);
            Val::Num(t, bound(rng, lo, hi))
        }
        4 | 5 => Val::Num('f', gen_float_bits(rng, false)),
        6 | 7 => {
            let n = match rng.below(4) {
                0 => 0,
                _ => rng.range(1, 16) as usize,
            };
            let mut s = printable(rng, b' ', b'~', n);
            if n > 0 && rng.chance(1, 4) {
                s[0] = *rng.pick(b" *:=");
            }
            Val::Str('Z', s)
        }
        8 => {
            let n = rng.below(6) as usize;
            Val::Str('H', (0..2 * n).map(|_| *rng.pick(b"0123456789ABCDEF")).collect())
        }
        _ => {
            let t = *rng.pick(&['c', 'C', 's', 'S', 'i', 'I', 'f']);
            let n = match rng.below(4) {
                0 => 0,
                1 => 1,
                _ => rng.range(2, 9) as usize,
            };
            if t == 'f' {
                Val::Arr('f', (0..n).map(|_| gen_float_bits(rng, false)).collect())
            } else {
                let (lo, hi) = range_of(t);
                Val::Arr(t, (0..n).map(|_| bound(rng, lo, hi)).collect())
            }
        }
    }
}

fn gen_data(rng: &mut Rng) -> Vec<([u8; 2], Val)> {
    let n = match rng.below(5) {
        0 => 0,
        1 => 1,
        _ => rng.range(2, 7) as usize,
    };
    let mut used = Vec::new();
    (0..n).map(|_| (gen_tag(rng, &mut used), gen_val(rng))).collect()
}

fn gen_cigar(rng: &mut Rng) -> Vec<(u8, usize)> {
    let n = match rng.below(6) {
        0 => 0,
        1 => 1,
        2 => 9,
        _ => rng.range(1, 7) as usize,
    };
    // every third CIGAR is made of sequence match / mismatch ops only (e.g. 2=1X2=)
    let eqx = rng.chance(1, 3);
    (0..n)
        .map(|i| {
            let k = if n == 9 { i as u8 } else if eqx { *rng.pick(&[7u8, 8, 7, 1, 4]) } else { rng.below(9) as u8 };
            let l = match rng.below(8) {
                0 => 1,
                1 => *rng.pick(&[9usize, 10, 99, 100, 255, 256]),
                _ => rng.range(1, 40) as usize,
            };
            (k, l)
        })
        .collect()
}

fn gen_record(rng: &mut Rng, nref: usize) -> Spec {
    let mut s = Spec::default();
    s.name = gen_name(rng);
    s.flags = match rng.below(4) {
        0 => *rng.pick(&[0u16, 4, 0xfff, 0x800, 0x400, 99, 147, 1, 0x7ff]),
        _ => rng.next() as u16 & 0xfff,
    };
    if nref > 0 && rng.chance(4, 5) {
        s.rid = Some(rng.below(nref as u64) as usize);
    }
    s.pos = gen_pos(rng);
    s.mapq = match rng.below(5) {
        0 => 255,
        1 => 254,
        2 => 0,
        _ => rng.below(256) as u8,
    };
    s.cigar = gen_cigar(rng);
    s.mrid = match rng.below(4) {
        0 => None,
        1 | 2 => s.rid, // the '=' case
        _ if nref > 0 => Some(rng.below(nref as u64) as usize),
        _ => None,
    };
    s.mpos = gen_pos(rng);
    s.tlen = match rng.below(5) {
        0 => 0,
        1 => *rng.pick(&[i32::MIN, i32::MAX, -1, 1, i32::MIN + 1, -10, 10]),
        _ => rng.next() as i32,
    };
    let rl: usize = s.cigar.iter().filter(|(k, _)| consumes_read(*k)).map(|(_, l)| *l).sum();
    let slen = if rl > 0 {
        if rng.chance(1, 6) { 0 } else { rl }
    } else {
        match rng.below(4) {
            0 => 0,
            1 => 1,
            _ => rng.range(1, 30) as usize,
        }
    };
    s.seq = gen_bases(rng, slen);
    s.qual = gen_qual(rng, slen);
    if slen == 1 && rng.chance(1, 3) {
        s.qual = vec![*rng.pick(&[8u8, 9, 10, 28])]; // 9 -> '*', 28 -> '='
    }
    s.data = gen_data(rng);
    // ~8 %: one feature outside the data model (the writer may refuse it; it must not panic)
    if rng.chance(2, 25) {
        match rng.below(14) {
            0 => s.name = Some(b"*".to_vec()),
            1 => s.name = Some(vec![]),
            2 => s.name = Some(b"a@b".to_vec()),
            3 => s.name = Some(vec![b'x'; 255]),
            4 => s.name = Some(b"a b".to_vec()),
            5 => s.rid = Some(nref + rng.below(3) as usize),
            6 => s.pos = 1 << 31,
            7 => {
                if !s.seq.is_empty() {
                    s.seq[0] = *rng.pick(b"*-5 \t");
                }
            }
            8 => s.qual = vec![30; s.seq.len() + 1],
            9 => {
                if !s.qual.is_empty() {
                    s.qual[0] = *rng.pick(&[94u8, 255, 222]);
                }
            }
            10 => s.data.push(([b'1', b'x'], Val::Num('C', 1))),
            11 => s.data.push((*b"ZZ", Val::Str('Z', b"a\tb".to_vec()))),
            12 => s.data.push((*b"ZY", Val::Str('H', b"abc".to_vec()))),
            _ => s.data.push((*b"ZX", Val::Arr('f', vec![gen_float_bits(rng, true), 0x7fc0_0001, 0xff80_0000]))),
        }
    }
    s
}

// ---- modelled-kind cases

fn float_tables(s: &Spec) -> (String, String) {
    // the oracle tables handed to the model: text of each float as the writer renders it
    // (scalar: lexical; array: Display), obtained from the implementation through a one-field record
    let header = sam::Header::default();
    let mut ft: Vec<String> = Vec::new();
    let mut dt: Vec<String> = Vec::new();
    let mut render = |v: Val| -> Option<Vec<u8>> {
        let r = Spec { flags: 4, mapq: 255, data: vec![(*b"XX", v)], ..Default::default() };
        match guarded(std::panic::AssertUnwindSafe(|| sam_write_record(&header, &to_record_buf(&r)))) {
            Outcome::Done(Ok(t)) => {
                let line = &t[..t.len() - 1];
                let i = line.iter().rposition(|b| *b == b':').unwrap();
                Some(line[i + 1..].to_vec())
            }
            _ => None,
        }
    };
    for (_, v) in &s.data {
        match v {
            Val::Num('f', b) => {
                if let Some(t) = render(Val::Num('f', *b)) {
                    ft.push(format!("{b}:{}", hex(&t)));
                }
            }
            Val::Arr('f', xs) => {
                for b in xs {
                    if let Some(t) = render(Val::Arr('f', vec![*b])) {
                        dt.push(format!("{b}:{}", hex(&t[2..])));
                    }
                }
            }
            _ => {}
        }
    }
    let j = |v: Vec<String>| if v.is_empty() { "_".to_string() } else { v.join(",") };
    (j(ft), j(dt))
}

fn gen_refs_plain(rng: &mut Rng) -> Vec<Vec<u8>> {
    let n = rng.below(4) as usize;
    let mut used = Vec::new();
    (0..n).map(|_| gen_refname(rng, &mut used)).collect()
}

fn push_wr(w: &mut CaseWriter, refs: &[Vec<u8>], s: &Spec) {
    let (ft, dt) = float_tables(s);
    let mut a = vec![enc_refs(refs), ft, dt];
    a.extend(enc_spec(s));
    w.push("wr", a);
}

fn push_pr(w: &mut CaseWriter, refs: &[Vec<u8>], s: &Spec, line: &[u8]) {
    // parse table: float text -> bits, for the float tokens of the unmutated record
    let (ft, dt) = float_tables(s);
    let mut pt: Vec<String> = Vec::new();
    for t in [ft, dt] {
        if t != "_" {
            for e in t.split(',') {
                let (b, h) = e.split_once(':').unwrap();
                pt.push(format!("{h}:{b}"));
            }
        }
    }
    let pt = if pt.is_empty() { "_".to_string() } else { pt.join(",") };
    w.push("pr", vec![enc_refs(refs), pt, hex(line)]);
}

fn strip_floats(s: &mut Spec) {
    s.data.retain(|(_, v)| !matches!(v, Val::Num('f', _) | Val::Arr('f', _)));
}

fn mutate_line(rng: &mut Rng, line: &[u8]) -> Vec<u8> {
    let mut l = line.to_vec();
    if l.is_empty() {
        return l;
    }
    let pool: &[u8] = b"\t\t::,,*=+-0019MIDNSHPX@ AZfiBcCsSI~!.eE\r\n";
    let k = rng.range(1, 2);
    for _ in 0..k {
        let i = rng.below(l.len() as u64) as usize;
        match rng.below(4) {
            0 => {
                l.remove(i);
            }
            1 => l.insert(i, *rng.pick(pool)),
            2 => l[i] = *rng.pick(pool),
            _ => {
                // cut or duplicate at a tab boundary
                if let Some(p) = l.iter().skip(i).position(|b| *b == b'\t') {
                    if rng.chance(1, 2) {
                        l.truncate(i + p);
                        l.push(b'\n');
                    } else {
                        l.insert(i + p, b'\t');
                    }
                }
            }
        }
        if l.is_empty() {
            break;
        }
    }
    l
}

fn generate(rng: &mut Rng, tier: &str, w: &mut CaseWriter) {
    let thorough = tier == "thorough";
    // the run's seed (Rng::new is invertible): the thorough float sweep is split in three thirds
    // over the seeds s, s+1000, s+1001 that one thorough check runs, so that together they cover
    // all 2^32 bit patterns without repeating the same sweep three times
    let seed = {
        let k: u64 = 0x9E37_79B9_7F4A_7C15;
        let mut inv: u64 = k;
        for _ in 0..6 {
            inv = inv.wrapping_mul(2u64.wrapping_sub(k.wrapping_mul(inv)));
        }
        (rng.0 ^ 0xD1B5_4A32_D192_ED03).wrapping_mul(inv)
    };
    let (n_rt, n_hdr, n_wr, n_pr) = if thorough { (5000, 5000, 10000, 14000) } else { (350, 400, 900, 1200) };
    // fixed, hand-picked cases first
    {
        let refs = vec![b"chr1".to_vec(), b"chr2".to_vec()];
        let mut s = Spec { flags: 4, mapq: 255, ..Default::default() };
        push_wr(w, &refs, &s);
        s.seq = b"A".to_vec();
        s.qual = vec![9];
        push_wr(w, &refs, &s); // QUAL renders as "*"
        push_pr(w, &refs, &s, b"r\t0\tchr1\t5\t7\tM\t=\t0\t-0\tA\t*\tXA:i:+5\tXB:B:c,,1\n");
        push_pr(w, &refs, &s, b"*\t4\t*\t0\t255\t*\t*\t0\t0\t*\t*\n");
        push_pr(w, &refs, &s, b"*\t4\t*\t0\t255\t*\t*\t0\t0\t*\t*\t\n");
        push_pr(w, &refs, &s, b"*\t4\t*\t0\t255\t*\t*\t0\t0\t*\t*\r\n");
        push_pr(w, &refs, &s, b"*\t4\t*\t0\t255\t*\t*\t0\t0\t*\t*");
        push_pr(w, &refs, &s, b"q\t+4\tchr2\t007\t255\t+3M-2I\t*\t0\t0\t*\t*\tXX:i:-0\tXY:i:4294967295\tXZ:i:4294967296\n");
        push_pr(w, &refs, &s, b"q\t4\tchr2\t7\t255\t3M\tchr2\t0\t0\t*\t*\tXX:B:C\tXY:B:s,-1,+2\tXW:H:\tXV:Z:\n");
        push_pr(w, &refs, &s, b"q\t4\t*\t7\t255\t*\t=\t0\t0\t*\t*\tXX:A:!\tXX:A:!\n");
        // lazy record type on fixed lines (empty arrays in every position, every subtype)
        for l in [
            &b"r\t4\t*\t0\t255\t*\t*\t0\t0\t*\t*\tXA:B:c\tXB:i:1\n"[..],
            &b"r\t4\t*\t0\t255\t*\t*\t0\t0\t*\t*\tXB:i:1\tXA:B:c\n"[..],
            &b"r\t4\t*\t0\t255\t*\t*\t0\t0\t*\t*\tXA:B:c\tXC:B:C\tXs:B:s\tXS:B:S\tXi:B:i\tXI:B:I\tXf:B:f\tXZ:Z:\tXH:H:\n"[..],
            &b"r\t99\tchr1\t5\t7\t3M\t=\t9\t-7\tACG\t!~*\tXf:B:f,1.5,-0\tXA:B:c\tXB:B:c,-128,127\n"[..],
            &b"r\t99\tchr1\t5\t7\t2=1X2=\t=\t9\t-7\tACGTA\t!~*AB\tNM:i:1\n"[..],
            &b"r\t0\tchr2\t1\t0\t1M1I1D1N1S1H1P1=1X\t*\t0\t0\tACGTN\t*\n"[..],
        ] {
            w.push("lz", vec![enc_refs(&refs), hex(l)]);
        }
    }
    for _ in 0..n_rt {
        let seed = rng.next();
        let n = match rng.below(4) {
            0 => 1,
            _ => rng.range(2, 12),
        };
        w.push("rt", vec![seed.to_string(), n.to_string()]);
    }
    for _ in 0..n_hdr {
        w.push("hdr", vec![rng.next().to_string()]);
    }
    for _ in 0..n_wr {
        let refs = gen_refs_plain(rng);
        let s = gen_record(rng, refs.len());
        push_wr(w, &refs, &s);
    }
    for _ in 0..n_pr {
        let refs = gen_refs_plain(rng);
        let mut s = gen_record(rng, refs.len());
        let mutate = rng.chance(2, 3);
        if mutate {
            strip_floats(&mut s);
        }
        // the parse oracle table is the inverse of the writer's rendering, which is not injective
        // on non-finite values (every NaN payload prints as "NaN"): keep those out of pr cases
        s.data.retain(|(_, v)| match v {
            Val::Arr('f', xs) => xs.iter().all(|b| f32::from_bits(*b as u32).is_finite()),
            _ => true,
        });
        let header = header_of_refs(&refs);
        let line = match guarded(std::panic::AssertUnwindSafe(|| sam_write_record(&header, &to_record_buf(&s)))) {
            Outcome::Done(Ok(t)) => t,
            _ => continue,
        };
        let line = if mutate { mutate_line(rng, &line) } else { line };
        push_pr(w, &refs, &s, &line);
    }
    // header text, modelled: written header (wh), parsed pristine / mutated / duplicated-tag text (ph)
    let (n_wh, n_ph) = if thorough { (5000, 9000) } else { (400, 700) };
    for t in [
        &b"@HD\tVN:1.5\tSO:a\tSO:b\n@SQ\tSN:x\tLN:5\tLN:6\tAH:1\tAH:2\n"[..],
        &b"@HD\tVN:1.6\tSO:a\tSO:b\n"[..],
        &b"@HD\tSO:a\tVN:x\tVN:1.0\n@RG\tID:a\tID:b\n"[..],
        &b"@SQ\tSN:x\tLN:+5\n@SQ\tSN:y\tLN:5x\n"[..],
        &b"@SQ\tSN:x\tLN:5\r\n@CO\t\r\n@CO\n"[..],
        &b"@CO\ta\tb\nr1\t4\n@CO\tlate\n"[..],
        &b"@SQ\tSN:x\tLN:5\n@SQ\tSN:x\tLN:6\n"[..],
        &b"@HD\tVN:01.+6\n@PG\tID:p\n@HD\tVN:1.6\n"[..],
        &b"@CO\tx\n@HD\tVN:1.0\n"[..],
        &b"@HD\tVN:1.6"[..],
        &b"@SQ\tSN:a\tLN:0\n"[..],
        &b"@SQ\tLN:1\n"[..],
        &b"@RG\n"[..],
        &b"@XX\tID:a\n"[..],
        &b"@HD\tVN:0.9\tVN:1.7\tzz:1\tzz:2\n@RG\tID:r\tDS:1\tDS:2\n"[..],
    ] {
        w.push("ph", vec![hex(t)]);
    }
    for _ in 0..n_wh {
        let (h, _) = gen_header(rng, true);
        w.push("wh", enc_header(&h));
    }
    for _ in 0..n_ph {
        let (h, _) = gen_header(rng, true);
        let text = match guarded(|| sam_write_header(&h)) {
            Outcome::Done(Ok(t)) => t,
            _ => continue,
        };
        let text = match rng.below(4) {
            0 => text,
            1 => {
                // duplicate one field of one line (exercises Context::allow_duplicate_tags)
                let mut lines: Vec<Vec<u8>> = text.split(|b| *b == b'\n').map(|l| l.to_vec()).collect();
                lines.pop();
                if !lines.is_empty() {
                    let i = rng.below(lines.len() as u64) as usize;
                    let fields: Vec<Vec<u8>> = lines[i].split(|b| *b == b'\t').map(|f| f.to_vec()).collect();
                    if fields.len() > 1 {
                        let k = rng.range(1, fields.len() as u64 - 1) as usize;
                        let mut dup = fields[k].clone();
                        if rng.chance(1, 2) && dup.len() > 3 {
                            dup.truncate(3);
                            dup.extend_from_slice(b"dup");
                        }
                        lines[i].push(b'\t');
                        lines[i].extend_from_slice(&dup);
                    }
                }
                let mut t = Vec::new();
                for l in lines {
                    t.extend_from_slice(&l);
                    t.push(b'\n');
                }
                t
            }
            _ => mutate_line(rng, &text),
        };
        w.push("ph", vec![hex(&text)]);
    }
    // float oracle hypothesis: boundary-dense windows (quick) / all 2^32 patterns (thorough)
    if thorough {
        let chunk = 1u64 << 22;
        let mut b = 0u64;
        let mut i = 0u64;
        while b < (1u64 << 32) {
            if i % 3 == seed % 3 {
                // positive patterns exhaustively; of each negative chunk the first quarter
                let n = if b < (1u64 << 31) { chunk } else { chunk / 4 };
                w.push("fsw", vec![b.to_string(), n.to_string()]);
            }
            b += chunk;
            i += 1;
        }
    } else {
        for base in [0u64, 0x0080_0000 - 2048, 0x3f80_0000 - 2048, 0x4b00_0000, 0x7f7f_ffff - 4095, 0x8000_0000, 0xff7f_ffff - 4095] {
            w.push("fsw", vec![base.to_string(), "4096".into()]);
        }
        for _ in 0..40 {
            let base = rng.below((1u64 << 32) - 8192);
            w.push("fsw", vec![base.to_string(), "4096".into()]);
        }
    }
    // deepening round 2 (appended last so that the draws of the older kinds are unchanged)
    generate_part4(rng, tier, w);
    // deepening round 4 (appended last again)
    generate_part5(rng, tier, w);
    // deepening round 8 (appended last again)
    generate_part6(rng, tier, w);
    // strengthening round 10 (appended last again): the CIGAR-overflow branch
    generate_part7(rng, tier, w);
}

fn main() {
    nv::main_with(generate, run)
}
