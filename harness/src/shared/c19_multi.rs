//! C19, second part: containers with several slices, query_unmapped, the crai text transport and
//! the byte-level tie of the index fields.
//!
//! noodles writes one slice per container; files whose containers hold several slices are built
//! HERE from a noodles-written file: runs of consecutive containers whose compression-header
//! blocks are byte-identical are merged into one container (own container header: summed counts,
//! landmarks of the concatenated slices, CRC32), which is what htslib's `slices_per_container`
//! produces.  The merged file is re-walked by the independent walker [walk_m], which classifies
//! blocks by content type and reads each slice header itself.
//!
//! Case kinds (all modelled by NV.CramIdx.Multi / NV.CramIdx.Transport / NV.CramIdx.Bytes):
//!
//!   midx per_slice reflens seqseed records p0 groups mlayout lmmode
//!        -> `I=<entries>` | `I=Err:<kind>` | `I=Panic`        (cram::fs::index on the merged file)
//!   mqry per_slice reflens seqseed records p0 groups mlayout regions mode
//!        -> `Q=<answers>`                                     (Reader::query / IndexedReader::query)
//!   mqbad ... regions mode k -> as mqry with entry k of the index carrying landmark+1 (InvalidData)
//!   unm  per_slice reflens seqseed records p0 groups mlayout mode
//!        -> `U=<ordinals>`                                    (query_unmapped)
//!   via  per_slice reflens seqseed records p0 groups mlayout regions
//!        -> `T=<hex of the crai text>;Q=<answers>`            (crai::io::Writer, gunzip; Reader over
//!                                                              the text; queries with the index read back)
//!   hdr  per_slice reflens seqseed records p0 groups mlayout filehex
//!        -> `H=<offset,landmark,slice_length,rid,start,span;...>` for every slice, from the bytes
//!
//!   groups  = `,`-separated sizes: how many consecutive noodles containers form each container
//!   mlayout = `;`-separated `offset:header_len:body_len:lm/sl/n,lm/sl/n,...` (stored landmark,
//!             true slice size, records of each slice in body order)
//!   lmmode  = 0: landmarks as they are; 1: the landmarks of every multi-slice container are
//!             stored in reverse order (index must fail with InvalidData)

use super::*;
use std::io::Read as _;

#[derive(Clone, Debug, PartialEq, Eq)]
pub struct MSlice {
    pub landmark: u64, // true offset of the slice header block in the body (block walk)
    pub len: u64,      // true size up to the next slice header block / end of body
    pub nrec: u64,
    pub rid: i32,
    pub start: i32,
    pub span: i32,
}

#[derive(Clone, Debug, PartialEq, Eq)]
pub struct MCont {
    pub offset: u64,
    pub header_len: u64,
    pub body_len: u64,
    pub hdr_landmarks: Vec<u64>,
    pub slices: Vec<MSlice>,
    pub comp: (usize, usize), // byte range of the compression header block in the file
    pub rid: i32,
    pub start: i32,
    pub span: i32,
    pub nrec: i32,
    pub counter: i64,
    pub bases: i64,
    pub nblocks: i32,
}

fn ltf8(b: &[u8], p: &mut usize) -> Option<i64> {
    let b0 = *b.get(*p)?;
    let extra = (b0.leading_ones() as usize).min(8);
    if *p + 1 + extra > b.len() {
        return None;
    }
    let mut v: u64 = (b0 as u64) & (0xffu64 >> (extra + 1));
    for k in 0..extra {
        v = (v << 8) | b[*p + 1 + k] as u64;
    }
    *p += 1 + extra;
    Some(v as i64)
}

/// (offset of the first data container, data containers, offset of the first byte after them)
pub fn walk_m(b: &[u8]) -> Result<(u64, Vec<MCont>, usize), String> {
    if b.len() < 26 || &b[..4] != b"CRAM" {
        return Err("no file definition".into());
    }
    let mut p = 26usize;
    let mut out = Vec::new();
    let mut first = true;
    let mut p0 = 0u64;
    let mut tail = b.len();
    while p < b.len() {
        let off = p;
        if p + 4 > b.len() {
            return Err("cut length".into());
        }
        let len = i32::from_le_bytes(b[p..p + 4].try_into().unwrap());
        p += 4;
        let e = || "cut header".to_string();
        let rid = itf8(b, &mut p).ok_or_else(e)?;
        let st = itf8(b, &mut p).ok_or_else(e)?;
        let sp = itf8(b, &mut p).ok_or_else(e)?;
        let nrec = itf8(b, &mut p).ok_or_else(e)?;
        let counter = ltf8(b, &mut p).ok_or_else(e)?;
        let bases = ltf8(b, &mut p).ok_or_else(e)?;
        let nblocks = itf8(b, &mut p).ok_or_else(e)?;
        let nl = itf8(b, &mut p).ok_or_else(e)?;
        let mut lms = Vec::new();
        for _ in 0..nl {
            lms.push(itf8(b, &mut p).ok_or_else(e)? as u64);
        }
        p += 4;
        let hl = p - off;
        let body = p;
        if len < 0 || body + len as usize > b.len() {
            return Err("cut body".into());
        }
        let mut q = body;
        let mut blocks: Vec<(usize, u8, usize, usize)> = Vec::new(); // start, content type, data start, end
        for _ in 0..nblocks {
            let bs = q;
            let method = *b.get(q).ok_or_else(e)?;
            let ctype = *b.get(q + 1).ok_or_else(e)?;
            q += 2;
            itf8(b, &mut q).ok_or_else(e)?;
            let csize = itf8(b, &mut q).ok_or_else(e)?;
            itf8(b, &mut q).ok_or_else(e)?;
            let data = q;
            q += csize as usize + 4;
            if ctype == 2 && method != 0 {
                return Err("compressed slice header".into());
            }
            blocks.push((bs, ctype, data, q));
        }
        if q != body + len as usize {
            return Err(format!("blocks do not fill the container at {off}"));
        }
        p = q;
        if first {
            first = false;
            p0 = p as u64;
            continue;
        }
        if len == 15 && rid == -1 && st == 4542278 && nrec == 0 {
            tail = off;
            break;
        }
        let mut slices = Vec::new();
        let starts: Vec<usize> = blocks.iter().enumerate().filter(|(_, bl)| bl.1 == 2).map(|(i, _)| i).collect();
        for (k, &bi) in starts.iter().enumerate() {
            let (bs, _, data, _) = blocks[bi];
            let end = starts.get(k + 1).map(|&j| blocks[j].0).unwrap_or(q);
            let mut d = data;
            let srid = itf8(b, &mut d).ok_or_else(e)?;
            let sst = itf8(b, &mut d).ok_or_else(e)?;
            let ssp = itf8(b, &mut d).ok_or_else(e)?;
            let sn = itf8(b, &mut d).ok_or_else(e)?;
            slices.push(MSlice { landmark: (bs - body) as u64, len: (end - bs) as u64, nrec: sn as u64, rid: srid, start: sst, span: ssp });
        }
        let comp = blocks.first().map(|bl| (bl.0, bl.3)).unwrap_or((body, body));
        out.push(MCont {
            offset: off as u64,
            header_len: hl as u64,
            body_len: len as u64,
            hdr_landmarks: lms,
            slices,
            comp,
            rid,
            start: st,
            span: sp,
            nrec,
            counter,
            bases,
            nblocks,
        });
    }
    Ok((p0, out, tail))
}

fn put_itf8(out: &mut Vec<u8>, n: i32) {
    noodles_cram::verif::write_itf8(out, n).unwrap();
}

fn put_ltf8(out: &mut Vec<u8>, n: i64) {
    noodles_cram::verif::write_ltf8(out, n).unwrap();
}

/// which groups of consecutive containers can be merged (identical compression header blocks)
pub fn mergeable(b: &[u8], cs: &[MCont]) -> bool {
    cs.iter().all(|c| c.slices.len() == 1 && b[c.comp.0..c.comp.1] == b[cs[0].comp.0..cs[0].comp.1])
}

/// builds the file whose containers are the given groups of the containers of `b`
pub fn merge(b: &[u8], conts: &[MCont], tail: usize, groups: &[usize], reverse_landmarks: bool) -> Result<Vec<u8>, String> {
    if groups.iter().sum::<usize>() != conts.len() {
        return Err("groups do not cover the containers".into());
    }
    let first = conts.first().map(|c| c.offset as usize).unwrap_or(tail);
    let mut out = b[..first].to_vec();
    let mut i = 0usize;
    for &g in groups {
        let cs = &conts[i..i + g];
        i += g;
        if g == 0 {
            return Err("empty group".into());
        }
        if g == 1 {
            let c = &cs[0];
            out.extend_from_slice(&b[c.offset as usize..(c.offset + c.header_len + c.body_len) as usize]);
            continue;
        }
        if !mergeable(b, cs) {
            return Err("compression headers differ".into());
        }
        let comp = &b[cs[0].comp.0..cs[0].comp.1];
        let mut body = comp.to_vec();
        let mut lms = Vec::new();
        for c in cs {
            lms.push(body.len() as i32);
            let s0 = (c.offset + c.header_len) as usize + c.slices[0].landmark as usize;
            body.extend_from_slice(&b[s0..s0 + c.slices[0].len as usize]);
        }
        if reverse_landmarks {
            lms.reverse();
        }
        let (rid, st, sp) = if cs.iter().all(|c| c.rid == cs[0].rid) && cs[0].rid >= 0 {
            let lo = cs.iter().map(|c| c.start).min().unwrap();
            let hi = cs.iter().map(|c| c.start + c.span - 1).max().unwrap();
            (cs[0].rid, lo, hi - lo + 1)
        } else if cs.iter().all(|c| c.rid == -1) {
            (-1, 0, 0)
        } else {
            (-2, 0, 0)
        };
        let mut h = Vec::new();
        h.extend_from_slice(&(body.len() as i32).to_le_bytes());
        put_itf8(&mut h, rid);
        put_itf8(&mut h, st);
        put_itf8(&mut h, sp);
        put_itf8(&mut h, cs.iter().map(|c| c.nrec).sum());
        put_ltf8(&mut h, cs[0].counter);
        put_ltf8(&mut h, cs.iter().map(|c| c.bases).sum());
        put_itf8(&mut h, 1 + cs.iter().map(|c| c.nblocks - 1).sum::<i32>());
        put_itf8(&mut h, lms.len() as i32);
        for l in &lms {
            put_itf8(&mut h, *l);
        }
        let mut crc = flate2::Crc::new();
        crc.update(&h);
        h.extend_from_slice(&crc.sum().to_le_bytes());
        out.extend_from_slice(&h);
        out.extend_from_slice(&body);
    }
    out.extend_from_slice(&b[tail..]);
    Ok(out)
}

pub fn fmt_groups(g: &[usize]) -> String {
    if g.is_empty() { "_".into() } else { g.iter().map(|x| x.to_string()).collect::<Vec<_>>().join(",") }
}

pub fn parse_groups(s: &str) -> Vec<usize> {
    if s == "_" { vec![] } else { s.split(',').map(|x| x.parse().unwrap()).collect() }
}

pub fn fmt_mlayout(cs: &[MCont]) -> String {
    if cs.is_empty() {
        return "_".into();
    }
    cs.iter()
        .map(|c| {
            let sl: Vec<String> = c
                .slices
                .iter()
                .enumerate()
                .map(|(i, s)| format!("{}/{}/{}", c.hdr_landmarks.get(i).copied().unwrap_or(u64::MAX), s.len, s.nrec))
                .collect();
            format!("{}:{}:{}:{}", c.offset, c.header_len, c.body_len, sl.join(","))
        })
        .collect::<Vec<_>>()
        .join(";")
}

pub struct MBuilt {
    pub spec: FileSpec,
    pub repo: fasta::Repository,
    pub bytes: Vec<u8>,
    pub conts: Vec<MCont>,
}

/// args: 0 per_slice 1 reflens 2 seqseed 3 records 4 p0 5 groups 6 mlayout
pub fn mbuild(c: &Case, reverse_landmarks: bool) -> Result<MBuilt, Obs> {
    let spec = parse_spec(c);
    let repo = repository(&spec);
    let raw = match write_cram(&spec, &repo) {
        Ok(b) => b,
        Err(m) => return Err(Obs::fail("-", "cram-write-failed", m)),
    };
    let (p0, conts, tail) = match walk_m(&raw) {
        Ok(x) => x,
        Err(m) => return Err(Obs::fail("-", "cram-container-walk", m)),
    };
    let groups = parse_groups(&c.args[5]);
    let bytes = match merge(&raw, &conts, tail, &groups, false) {
        Ok(b) => b,
        Err(m) => return Err(Obs::fail("-", "harness-layout-drift", m)),
    };
    let (p0b, mconts, _) = match walk_m(&bytes) {
        Ok(x) => x,
        Err(m) => return Err(Obs::fail("-", "harness-merged-walk", m)),
    };
    if p0 != p0b || p0.to_string() != c.args[4] {
        return Err(Obs::fail("-", "harness-layout-drift", format!("case p0 {} vs built {}", c.args[4], p0)));
    }
    // the true landmarks (block walk) must be the stored ones
    for (k, ct) in mconts.iter().enumerate() {
        let truth: Vec<u64> = ct.slices.iter().map(|s| s.landmark).collect();
        if truth != ct.hdr_landmarks {
            return Err(Obs::fail("-", "cram-container-landmarks", format!("container {k}: header {:?} vs block walk {:?}", ct.hdr_landmarks, truth)));
        }
    }
    let (bytes, mconts) = if reverse_landmarks {
        let b2 = match merge(&raw, &conts, tail, &groups, true) {
            Ok(b) => b,
            Err(m) => return Err(Obs::fail("-", "harness-layout-drift", m)),
        };
        let mut m2 = mconts.clone();
        for ct in m2.iter_mut() {
            if ct.slices.len() > 1 {
                ct.hdr_landmarks.reverse();
            }
        }
        (b2, m2)
    } else {
        (bytes, mconts)
    };
    if fmt_mlayout(&mconts) != c.args[6] {
        return Err(Obs::fail("-", "harness-layout-drift", format!("case layout {} vs built {}", c.args[6], fmt_mlayout(&mconts))));
    }
    Ok(MBuilt { spec, repo, bytes, conts: mconts })
}

/// the layout text with the stored landmarks of every multi-slice container in reverse order
pub fn reverse_layout(s: &str) -> String {
    if s == "_" {
        return s.into();
    }
    s.split(';')
        .map(|t| {
            let f: Vec<&str> = t.split(':').collect();
            let sl: Vec<Vec<&str>> = f[3].split(',').map(|u| u.split('/').collect()).collect();
            let n = sl.len();
            let out: Vec<String> = (0..n).map(|i| format!("{}/{}/{}", sl[n - 1 - i][0], sl[i][1], sl[i][2])).collect();
            format!("{}:{}:{}:{}", f[0], f[1], f[2], out.join(","))
        })
        .collect::<Vec<_>>()
        .join(";")
}

/// record chunks per slice, in file order: (container index, slice index, records)
pub fn slice_chunks<'a>(spec: &'a FileSpec, conts: &[MCont]) -> Option<Vec<(usize, usize, &'a [RecSpec])>> {
    let mut out = Vec::new();
    let mut i = 0usize;
    for (k, c) in conts.iter().enumerate() {
        for (j, s) in c.slices.iter().enumerate() {
            let n = s.nrec as usize;
            if n == 0 || i + n > spec.recs.len() {
                return None;
            }
            out.push((k, j, &spec.recs[i..i + n]));
            i += n;
        }
    }
    if i == spec.recs.len() { Some(out) } else { None }
}

pub fn expected_mindex(conts: &[MCont], chunks: &[(usize, usize, &[RecSpec])]) -> Vec<Entry> {
    let mut out = Vec::new();
    for &(k, j, recs) in chunks {
        let c = &conts[k];
        let s = &c.slices[j];
        let mut rids: Vec<Option<usize>> = recs.iter().map(|r| r.rid).collect();
        rids.sort();
        rids.dedup();
        for rid in rids {
            let (start, span) = match rid {
                None => (None, 0),
                Some(_) => {
                    let lo = recs.iter().filter(|r| r.rid == rid).map(|r| r.start).min().unwrap();
                    let hi = recs.iter().filter(|r| r.rid == rid).map(idx_end).max().unwrap();
                    (Some(lo), hi - lo + 1)
                }
            };
            out.push((rid, start, span, c.offset, s.landmark, s.len));
        }
    }
    out
}

fn index_of_bytes(bytes: &[u8], c: &Case) -> IndexResult {
    let path = temp_path("m.cram", c);
    let _guard = TempFile(path.clone());
    if let Err(e) = std::fs::write(&path, bytes) {
        return IndexResult::Err(format!("tempfile:{e}"));
    }
    let p = path.clone();
    match guarded(move || cram::fs::index(&p)) {
        Outcome::Done(Ok(i)) => IndexResult::Ok(i),
        Outcome::Done(Err(e)) => IndexResult::Err(errkind(&e)),
        Outcome::Panicked(m) => IndexResult::Panic(m),
    }
}

pub fn run_midx(c: &Case) -> Obs {
    let lmmode = c.u(7);
    let b = match mbuild(c, lmmode == 1) {
        Ok(b) => b,
        Err(o) => return o,
    };
    let Some(chunks) = slice_chunks(&b.spec, &b.conts) else {
        return Obs::fail("-", "cram-container-record-counts", fmt_mlayout(&b.conts));
    };
    let multi = b.conts.iter().any(|ct| ct.slices.len() > 1);
    let expected = expected_mindex(&b.conts, &chunks);
    match index_of_bytes(&b.bytes, c) {
        IndexResult::Ok(i) => {
            let got: Vec<Entry> = i.iter().map(entry_of).collect();
            let obs = format!("I={}", fmt_entries(&got));
            if lmmode == 1 && multi {
                return Obs::fail(obs, "cram-index-accepts-reversed-landmarks", fmt_entries(&got));
            }
            if got == expected {
                Obs::ok(obs, multi)
            } else {
                let field = got.iter().zip(&expected).find_map(|(g, e)| {
                    if g.3 != e.3 {
                        Some("offset")
                    } else if g.4 != e.4 {
                        Some("landmark")
                    } else if g.5 != e.5 {
                        Some("slice-length")
                    } else if g != e {
                        Some("reference-or-span")
                    } else {
                        None
                    }
                });
                let class = chunks.iter().any(|&(_, _, r)| span_class_slice(r));
                Obs::fail(
                    obs,
                    &if class && field == Some("reference-or-span") { SPAN_CLASS_TAG.to_string() } else { format!("crai-multislice-entry-wrong-{}", field.unwrap_or("count")) },
                    format!("got {} want {}", fmt_entries(&got), fmt_entries(&expected)),
                )
            }
        }
        IndexResult::Err(k) => {
            let obs = format!("I=Err:{k}");
            if lmmode == 1 && multi && k == "InvalidData" { Obs::ok(obs, true) } else { Obs::fail(obs, "cram-index-error", k) }
        }
        IndexResult::Panic(m) => {
            let class = chunks.iter().any(|&(_, _, r)| span_class_slice(r));
            Obs::fail("I=Panic", if class { SPAN_CLASS_TAG } else { "cram-index-panic" }, m)
        }
    }
}

fn real_or_expected_index(b: &MBuilt, c: &Case, chunks: &[(usize, usize, &[RecSpec])]) -> crai::Index {
    match index_of_bytes(&b.bytes, c) {
        IndexResult::Ok(i) => i,
        _ => expected_mindex(&b.conts, chunks).iter().map(record_of).collect(),
    }
}

fn ordinals(names: &[String], n: usize) -> String {
    if names.is_empty() {
        return "_".into();
    }
    names
        .iter()
        .map(|s| s.strip_prefix('r').and_then(|t| t.parse::<usize>().ok()).filter(|&i| i < n).map(|i| i.to_string()).unwrap_or_else(|| "?".into()))
        .collect::<Vec<_>>()
        .join(",")
}

/// answers of Reader::query (mode 0), a fresh Reader per region (1) or IndexedReader (2)
fn query_all(b: &MBuilt, index: &crai::Index, regions: &[(usize, Option<u64>, Option<u64>)], mode: u64) -> Vec<Ans> {
    let n = b.spec.recs.len();
    let collect = |it: &mut dyn Iterator<Item = std::io::Result<sam::alignment::RecordBuf>>| -> Ans {
        let mut names = Vec::new();
        for r in it {
            match r {
                Ok(r) => names.push(name_of(&r)),
                Err(e) => return Ans::Err(errkind(&e)),
            }
            if names.len() > 16 * n + 8 {
                return Ans::Err("Runaway".into());
            }
        }
        Ans::Names(names)
    };
    let mut answers = Vec::new();
    for &(r, lo, hi) in regions {
        let a = match guarded(std::panic::AssertUnwindSafe(|| {
            if mode == 2 {
                let mut rd = match cram::io::indexed_reader::Builder::default()
                    .set_reference_sequence_repository(b.repo.clone())
                    .set_index(index.clone())
                    .build_from_reader(Cursor::new(b.bytes.clone()))
                {
                    Ok(r) => r,
                    Err(e) => return Ans::Err(errkind(&e)),
                };
                let h = match rd.read_header() {
                    Ok(h) => h,
                    Err(e) => return Ans::Err(errkind(&e)),
                };
                match rd.query(&h, &region(r, lo, hi)) {
                    Ok(q) => collect(&mut q.records()),
                    Err(e) => Ans::Err(errkind(&e)),
                }
            } else {
                let mut rd = cram::io::reader::Builder::default()
                    .set_reference_sequence_repository(b.repo.clone())
                    .build_from_reader(Cursor::new(b.bytes.clone()));
                let h = match rd.read_header() {
                    Ok(h) => h,
                    Err(e) => return Ans::Err(errkind(&e)),
                };
                match rd.query(&h, index, &region(r, lo, hi)) {
                    Ok(q) => collect(&mut q.records()),
                    Err(e) => Ans::Err(errkind(&e)),
                }
            }
        })) {
            Outcome::Done(a) => a,
            Outcome::Panicked(m) => Ans::Panic(m),
        };
        answers.push(a);
    }
    answers
}

/// compares the answers with scan-and-filter; returns (obs, verdict, nontrivial)
pub fn judge_queries(
    b: &MBuilt,
    chunks: &[(usize, usize, &[RecSpec])],
    regions: &[(usize, Option<u64>, Option<u64>)],
    answers: &[Ans],
) -> (String, Result<(), (String, String)>, bool) {
    let n = b.spec.recs.len();
    let nrefs = b.spec.ref_lens.len();
    // container of each record
    let cont_of: Vec<usize> = chunks.iter().flat_map(|&(k, _, ch)| std::iter::repeat(k).take(ch.len())).collect();
    let mut parts = Vec::new();
    let mut fails: Vec<(u8, String, String)> = Vec::new();
    let mut nontrivial = false;
    for (k, (&(r, lo, hi), a)) in regions.iter().zip(answers).enumerate() {
        let rl = lo.unwrap_or(1);
        let rh = hi.unwrap_or(u64::MAX);
        let want: Vec<usize> = if r < nrefs {
            (0..n).filter(|&i| { let x = &b.spec.recs[i]; x.rid == Some(r) && x.start <= rh && rl <= hit_end(x) }).collect()
        } else {
            vec![]
        };
        let desc = format!("region {k} sq{r}:{}-{}", lo.map(|x| x.to_string()).unwrap_or_default(), hi.map(|x| x.to_string()).unwrap_or_default());
        match a {
            Ans::Err(kind) => {
                parts.push(format!("Err:{kind}"));
                if !(r >= nrefs && kind == "InvalidInput") {
                    fails.push((0, "cram-query-error".into(), format!("{desc}: {kind}")));
                }
            }
            Ans::Panic(m) => {
                parts.push("Panic".into());
                fails.push((0, "cram-query-panic".into(), format!("{desc}: {m}")));
            }
            Ans::Names(names) => {
                parts.push(ordinals(names, n));
                if r >= nrefs {
                    fails.push((0, "cram-query-unknown-reference-accepted".into(), desc.clone()));
                    continue;
                }
                if !want.is_empty() {
                    nontrivial = true;
                }
                let got: Vec<usize> = names.iter().filter_map(|s| s.strip_prefix('r').and_then(|t| t.parse::<usize>().ok())).collect();
                if got.len() != names.len() || got.iter().any(|&i| i >= n) {
                    fails.push((0, "cram-query-unknown-record".into(), format!("{desc}: {names:?}")));
                    continue;
                }
                if got == want {
                    continue;
                }
                let detail = format!("{desc}: got {got:?} want {want:?}");
                let mut set: Vec<usize> = got.clone();
                set.sort();
                set.dedup();
                if set == want {
                    // the right records, some more than once: only possible when a container whose
                    // slices hold the queried reference more than once is decoded once per slice
                    let dup_from_multi = got.iter().all(|&i| {
                        let cnt = got.iter().filter(|&&j| j == i).count();
                        let holders = chunks.iter().filter(|&&(k2, _, ch)| k2 == cont_of[i] && ch.iter().any(|x| x.rid == Some(r))).count();
                        cnt == holders
                    });
                    if dup_from_multi {
                        fails.push((1, "cram-query-multislice-container-records-repeated".into(), detail));
                    } else {
                        fails.push((0, "cram-query-duplicate".into(), detail));
                    }
                } else if want.iter().any(|i| !set.contains(i)) {
                    fails.push((0, "cram-query-missing-record".into(), detail));
                } else {
                    fails.push((0, "cram-query-extra-record".into(), detail));
                }
            }
        }
    }
    let obs = if parts.is_empty() { "_".to_string() } else { parts.join(";") };
    fails.sort_by_key(|f| f.0);
    let verdict = match fails.into_iter().next() {
        None => Ok(()),
        Some((_, tag, d)) => Err((tag, d)),
    };
    (obs, verdict, nontrivial)
}

pub fn run_mqry(c: &Case) -> Obs {
    let b = match mbuild(c, false) {
        Ok(b) => b,
        Err(o) => return o,
    };
    let regions = parse_regions(&c.args[7]);
    let mode = c.u(8);
    let Some(chunks) = slice_chunks(&b.spec, &b.conts) else {
        return Obs::fail("-", "cram-container-record-counts", fmt_mlayout(&b.conts));
    };
    let index = real_or_expected_index(&b, c, &chunks);
    let answers = query_all(&b, &index, &regions, mode);
    let (obs, verdict, nontrivial) = judge_queries(&b, &chunks, &regions, &answers);
    Obs::ok(format!("Q={obs}"), nontrivial).with_verdict(verdict)
}

/// args: base(7) regions mode k -- as mqry, but entry k of the index carries landmark + 1 (not a
/// slice of its container): a query that reaches it must fail with InvalidData, the others
/// must still equal the scan
pub fn run_mqbad(c: &Case) -> Obs {
    let b = match mbuild(c, false) {
        Ok(b) => b,
        Err(o) => return o,
    };
    let regions = parse_regions(&c.args[7]);
    let mode = c.u(8);
    let k = c.u(9) as usize;
    let Some(chunks) = slice_chunks(&b.spec, &b.conts) else {
        return Obs::fail("-", "cram-container-record-counts", fmt_mlayout(&b.conts));
    };
    let index = real_or_expected_index(&b, c, &chunks);
    if k >= index.len() {
        return Obs::fail("-", "harness-bad-case", format!("entry {k} of {}", index.len()));
    }
    let mut entries: Vec<Entry> = index.iter().map(entry_of).collect();
    entries[k].4 += 1;
    let bad_rid = entries[k].0;
    let bad: crai::Index = entries.iter().map(record_of).collect();
    let answers = query_all(&b, &bad, &regions, mode);
    // regions on the reference of the damaged entry must be errors; judge the others as usual
    let n = b.spec.recs.len();
    let mut parts = Vec::new();
    let mut verdict: Result<(), (String, String)> = Ok(());
    let mut rest_regions = Vec::new();
    let mut rest_answers = Vec::new();
    for (&(r, lo, hi), a) in regions.iter().zip(answers) {
        parts.push(fmt_ans(&a, n));
        if Some(r) == bad_rid {
            match &a {
                Ans::Err(kind) if kind == "InvalidData" => {}
                _ => {
                    if verdict.is_ok() {
                        verdict = Err(("cram-query-bad-landmark-accepted".into(), format!("region sq{r}: {}", fmt_ans(&a, n))));
                    }
                }
            }
        } else {
            rest_regions.push((r, lo, hi));
            rest_answers.push(a);
        }
    }
    let (_, v2, _) = judge_queries(&b, &chunks, &rest_regions, &rest_answers);
    if verdict.is_ok() {
        verdict = v2;
    }
    Obs::ok(format!("Q={}", if parts.is_empty() { "_".into() } else { parts.join(";") }), bad_rid.is_some()).with_verdict(verdict)
}

pub fn run_unm(c: &Case) -> Obs {
    let b = match mbuild(c, false) {
        Ok(b) => b,
        Err(o) => return o,
    };
    let mode = c.u(7);
    let Some(chunks) = slice_chunks(&b.spec, &b.conts) else {
        return Obs::fail("-", "cram-container-record-counts", fmt_mlayout(&b.conts));
    };
    let mut index = real_or_expected_index(&b, c, &chunks);
    if mode == 1 {
        let p = temp_path("u.crai", c);
        let _g = TempFile(p.clone());
        match crai::fs::write(&p, &index).and_then(|_| crai::fs::read(&p)) {
            Ok(i) => index = i,
            Err(e) => return Obs::fail("-", "crai-roundtrip-error", errkind(&e)),
        }
    }
    let n = b.spec.recs.len();
    let out = guarded(std::panic::AssertUnwindSafe(|| -> Ans {
        let mut names = Vec::new();
        macro_rules! drain {
            ($it:expr) => {
                for r in $it {
                    match r {
                        Ok(r) => names.push(name_of(&r)),
                        Err(e) => return Ans::Err(errkind(&e)),
                    }
                    if names.len() > 4 * n + 8 {
                        return Ans::Err("Runaway".into());
                    }
                }
            };
        }
        if mode == 1 {
            let mut rd = match cram::io::indexed_reader::Builder::default()
                .set_reference_sequence_repository(b.repo.clone())
                .set_index(index.clone())
                .build_from_reader(Cursor::new(b.bytes.clone()))
            {
                Ok(r) => r,
                Err(e) => return Ans::Err(errkind(&e)),
            };
            let h = match rd.read_header() {
                Ok(h) => h,
                Err(e) => return Ans::Err(errkind(&e)),
            };
            match rd.query_unmapped(&h) {
                Ok(it) => drain!(it),
                Err(e) => return Ans::Err(errkind(&e)),
            }
        } else {
            let mut rd = cram::io::reader::Builder::default()
                .set_reference_sequence_repository(b.repo.clone())
                .build_from_reader(Cursor::new(b.bytes.clone()));
            let h = match rd.read_header() {
                Ok(h) => h,
                Err(e) => return Ans::Err(errkind(&e)),
            };
            match rd.query_unmapped(&h, &index) {
                Ok(it) => drain!(it),
                Err(e) => return Ans::Err(errkind(&e)),
            }
        }
        Ans::Names(names)
    }));
    let want: Vec<usize> = (0..n).filter(|&i| b.spec.recs[i].rid.is_none()).collect();
    match out {
        Outcome::Panicked(m) => Obs::fail("U=Panic", "cram-query-unmapped-panic", m),
        Outcome::Done(Ans::Panic(m)) => Obs::fail("U=Panic", "cram-query-unmapped-panic", m),
        Outcome::Done(Ans::Err(k)) => {
            // no unplaced record: the reader seeks past the EOF container and reports UnexpectedEof
            let tag = if want.is_empty() && k == "UnexpectedEof" { "cram-query-unmapped-no-unplaced-records-errors" } else { "cram-query-unmapped-error" };
            Obs::fail(format!("U=Err:{k}"), tag, k)
        }
        Outcome::Done(Ans::Names(names)) => {
            let obs = format!("U={}", ordinals(&names, n));
            let got: Vec<usize> = names.iter().filter_map(|s| s.strip_prefix('r').and_then(|t| t.parse::<usize>().ok())).collect();
            if got.len() != names.len() {
                return Obs::fail(obs, "cram-query-unmapped-unknown-record", format!("{names:?}"));
            }
            if got == want {
                return Obs::ok(obs, !want.is_empty());
            }
            let detail = format!("got {got:?} want {want:?}");
            // the extra records are placed records carrying the UNMAPPED flag that share the
            // container of the first unplaced record (or follow it)
            let first_cont = chunks.iter().find(|&&(_, _, ch)| ch.iter().any(|x| x.rid.is_none())).map(|&(k, _, _)| k);
            let cont_of: Vec<usize> = chunks.iter().flat_map(|&(k, _, ch)| std::iter::repeat(k).take(ch.len())).collect();
            let extra: Vec<usize> = got.iter().copied().filter(|i| !want.contains(i)).collect();
            let rest: Vec<usize> = got.iter().copied().filter(|i| want.contains(i)).collect();
            let boundary = first_cont.is_some()
                && rest == want
                && !extra.is_empty()
                && extra.iter().all(|&i| i < n && b.spec.recs[i].rid.is_some() && b.spec.recs[i].cigar.is_empty() && Some(cont_of[i]) >= first_cont)
                && got.windows(2).all(|w| w[0] < w[1]);
            if boundary {
                Obs::fail(obs, "cram-query-unmapped-returns-placed-records-of-boundary-container", detail)
            } else if want.iter().any(|i| !got.contains(i)) {
                Obs::fail(obs, "cram-query-unmapped-missing-record", detail)
            } else {
                Obs::fail(obs, "cram-query-unmapped-wrong-records", detail)
            }
        }
    }
}

fn fmt_ans(a: &Ans, n: usize) -> String {
    match a {
        Ans::Names(v) => ordinals(v, n),
        Ans::Err(k) => format!("Err:{k}"),
        Ans::Panic(_) => "Panic".into(),
    }
}

fn unmapped_through(b: &MBuilt, index: &crai::Index) -> Ans {
    let n = b.spec.recs.len();
    match guarded(std::panic::AssertUnwindSafe(|| -> Ans {
        let mut rd = cram::io::reader::Builder::default()
            .set_reference_sequence_repository(b.repo.clone())
            .build_from_reader(Cursor::new(b.bytes.clone()));
        let h = match rd.read_header() {
            Ok(h) => h,
            Err(e) => return Ans::Err(errkind(&e)),
        };
        let mut names = Vec::new();
        match rd.query_unmapped(&h, index) {
            Ok(it) => {
                for r in it {
                    match r {
                        Ok(r) => names.push(name_of(&r)),
                        Err(e) => return Ans::Err(errkind(&e)),
                    }
                    if names.len() > 4 * n + 8 {
                        return Ans::Err("Runaway".into());
                    }
                }
            }
            Err(e) => return Ans::Err(errkind(&e)),
        }
        Ans::Names(names)
    })) {
        Outcome::Done(a) => a,
        Outcome::Panicked(m) => Ans::Panic(m),
    }
}

/// index -> crai::io::Writer -> (gunzip: the text) -> crai::io::Reader -> queries
pub fn run_via(c: &Case) -> Obs {
    let b = match mbuild(c, false) {
        Ok(b) => b,
        Err(o) => return o,
    };
    let regions = parse_regions(&c.args[7]);
    let n = b.spec.recs.len();
    let index = match index_of_bytes(&b.bytes, c) {
        IndexResult::Ok(i) => i,
        IndexResult::Err(k) => return Obs::fail(format!("T=Err:{k}"), "cram-index-error", k),
        IndexResult::Panic(m) => return Obs::fail("T=Panic", "cram-index-panic", m),
    };
    let mut w = crai::io::Writer::new(Vec::new());
    let gz = match w.write_index(&index).and_then(|_| w.finish()) {
        Ok(g) => g,
        Err(e) => return Obs::fail("T=Err", "crai-write-error", errkind(&e)),
    };
    let text = match gunzip(&gz) {
        Ok(t) => t,
        Err(e) => return Obs::fail("T=Err", "crai-not-gzip", errkind(&e)),
    };
    let back = match crai::io::Reader::new(&gz[..]).read_index() {
        Ok(i) => i,
        Err(e) => return Obs::fail(format!("T={};R=Err", nv::hex(&text)), "crai-roundtrip-error", errkind(&e)),
    };
    let direct = query_all(&b, &index, &regions, 0);
    let via = query_all(&b, &back, &regions, 2);
    let ud = unmapped_through(&b, &index);
    let uv = unmapped_through(&b, &back);
    let q: Vec<String> = via.iter().map(|a| fmt_ans(a, n)).collect();
    let obs = format!("T={};Q={};U={}", nv::hex(&text), if q.is_empty() { "_".into() } else { q.join(";") }, fmt_ans(&uv, n));
    let qd: Vec<String> = direct.iter().map(|a| fmt_ans(a, n)).collect();
    let verdict = if back != index {
        Err(("crai-roundtrip-differs".to_string(), format!("read back {}", fmt_entries(&back.iter().map(entry_of).collect::<Vec<_>>()))))
    } else if q != qd {
        Err(("crai-via-file-query-differs".to_string(), format!("direct {} via file {}", qd.join(";"), q.join(";"))))
    } else if fmt_ans(&ud, n) != fmt_ans(&uv, n) {
        Err(("crai-via-file-query-unmapped-differs".to_string(), format!("direct {} via file {}", fmt_ans(&ud, n), fmt_ans(&uv, n))))
    } else {
        Ok(())
    };
    Obs::ok(obs, !index.is_empty()).with_verdict(verdict)
}

/// mutation of the file bytes: `n` none, `c<k>` cut to k bytes, `f<k>` flip the low bit of byte k
pub fn mutate(bytes: &[u8], m: &str) -> Vec<u8> {
    let mut b = bytes.to_vec();
    match m.as_bytes().first() {
        Some(b'c') => b.truncate(m[1..].parse().unwrap()),
        Some(b'f') => {
            let k: usize = m[1..].parse().unwrap();
            b[k] ^= 1;
        }
        _ => {}
    }
    b
}

/// args: base(7) mutation filehex.  The bytes of the case line ARE the file (two writes of the
/// same records differ in the order of the external blocks -- the writer iterates a HashMap --
/// so the file is not rebuilt here); its layout must be the one of the case line.
pub fn run_hdr(c: &Case) -> Obs {
    let spec = parse_spec(c);
    let m = c.args[7].as_str();
    let bytes = c.b(8);
    struct B2 {
        spec: FileSpec,
        conts: Vec<MCont>,
    }
    let conts = if m == "n" {
        match walk_m(&bytes) {
            Ok((p0, conts, _)) if p0.to_string() == c.args[4] && fmt_mlayout(&conts) == c.args[6] => conts,
            Ok((_, conts, _)) => return Obs::fail("-", "harness-layout-drift", format!("case layout {} vs bytes {}", c.args[6], fmt_mlayout(&conts))),
            Err(e) => return Obs::fail("-", "cram-container-walk", e),
        }
    } else {
        vec![]
    };
    let b = B2 { spec, conts };
    match index_of_bytes(&bytes, c) {
        IndexResult::Ok(i) => {
            let got: Vec<Entry> = i.iter().map(entry_of).collect();
            let obs = format!("H={}", fmt_entries(&got));
            if m != "n" {
                return Obs::fail(obs, "cram-index-accepts-damaged-file", m);
            }
            let Some(chunks) = slice_chunks(&b.spec, &b.conts) else {
                return Obs::fail(obs, "cram-container-record-counts", fmt_mlayout(&b.conts));
            };
            let expected = expected_mindex(&b.conts, &chunks);
            if got == expected { Obs::ok(obs, !got.is_empty()) } else { Obs::fail(obs, "crai-entry-wrong-vs-bytes", format!("got {} want {}", fmt_entries(&got), fmt_entries(&expected))) }
        }
        IndexResult::Err(k) => {
            let obs = format!("H=Err:{k}");
            if m == "n" { Obs::fail(obs, "cram-index-error", k) } else { Obs::ok(obs, true) }
        }
        IndexResult::Panic(msg) => Obs::fail("H=Panic", "cram-index-panic", msg),
    }
}

/// byte ranges the model reads: container headers and slice header blocks
pub fn modelled_ranges(bytes: &[u8]) -> Vec<(usize, usize)> {
    let mut out = Vec::new();
    if let Ok((_, conts, _)) = walk_m(bytes) {
        for c in &conts {
            out.push((c.offset as usize, (c.offset + c.header_len) as usize));
            let body = (c.offset + c.header_len) as usize;
            for s in &c.slices {
                // the slice header block: method, type, id, sizes, data, crc
                let st = body + s.landmark as usize;
                let mut q = st + 2;
                if itf8(bytes, &mut q).is_some() {
                    if let Some(cs) = itf8(bytes, &mut q) {
                        if itf8(bytes, &mut q).is_some() {
                            out.push((st, q + cs as usize + 4));
                        }
                    }
                }
            }
        }
    }
    out
}

// ---------------------------------------------------------------------------------------------
// generation

/// writes the file, picks groups of mergeable consecutive containers, returns the case base
/// (per_slice, reflens, seqseed, records, p0, groups, mlayout) or None when the writer failed
pub fn mbase(rng: &mut Rng, spec: &FileSpec, want_multi: bool) -> Option<(Vec<String>, bool)> {
    let repo = repository(spec);
    let raw = write_cram(spec, &repo).ok()?;
    let (p0, conts, tail) = walk_m(&raw).ok()?;
    let mut groups = Vec::new();
    let mut i = 0usize;
    while i < conts.len() {
        let mut g = 1usize;
        if want_multi {
            let cap = match rng.below(4) {
                0 => 1,
                1 => 2,
                2 => 3,
                _ => conts.len(),
            };
            while g < cap && i + g < conts.len() && mergeable(&raw, &conts[i..i + g + 1]) {
                g += 1;
            }
        }
        groups.push(g);
        i += g;
    }
    let merged = merge(&raw, &conts, tail, &groups, false).ok()?;
    let (_, mconts, _) = walk_m(&merged).ok()?;
    let multi = groups.iter().any(|&g| g > 1);
    Some((
        vec![
            spec.per_slice.to_string(),
            spec.ref_lens.iter().map(|x| x.to_string()).collect::<Vec<_>>().join(","),
            spec.seqseed.to_string(),
            fmt_recs(&spec.recs),
            p0.to_string(),
            fmt_groups(&groups),
            fmt_mlayout(&mconts),
        ],
        multi,
    ))
}

/// a file spec whose mapped records are sometimes placed records without alignment (flag 0x4)
pub fn gen_spec_unm(rng: &mut Rng, flavour: u64) -> FileSpec {
    let mut spec = gen_spec(rng, flavour * 7 + 1); // never a placed_file flavour (7k+1 mod 7 = 1)
    let p = match flavour % 3 {
        0 => 0,
        1 => 4,
        _ => 2,
    };
    if p > 0 {
        for r in spec.recs.iter_mut() {
            if r.rid.is_some() && rng.chance(1, p) {
                let plen = rng.range(1, 6).min(spec.ref_lens[r.rid.unwrap()] - r.start + 1);
                r.cigar = vec![];
                r.has_seq = false;
                r.read_len = plen;
                r.end = r.start + plen - 1;
            }
        }
    }
    if !spec.recs.iter().any(|r| r.rid.is_none()) && rng.chance(2, 3) {
        for _ in 0..rng.range(1, 3) {
            spec.recs.push(RecSpec { rid: None, start: 0, end: 0, has_seq: false, cigar: vec![], read_len: rng.range(1, 8) });
        }
    }
    spec
}

pub fn generate_multi(rng: &mut Rng, thorough: bool, w: &mut CaseWriter) {
    let nfiles = if thorough { 6000 } else { 400 };
    for i in 0..nfiles {
        // small slices so that several containers exist; multi-slice containers wanted
        let mut spec = gen_spec(rng, i * 7 + 1);
        spec.per_slice = match rng.below(4) {
            0 => 1,
            1 => 2,
            2 => rng.range(1, 3) as usize,
            _ => spec.per_slice,
        };
        let Some((base, _multi)) = mbase(rng, &spec, true) else { continue };
        let mut a = base.clone();
        if rng.chance(1, 8) {
            a[6] = reverse_layout(&a[6]);
            a.push("1".to_string());
        } else {
            a.push("0".to_string());
        }
        w.push("midx", a);
        let mut a = base.clone();
        a.push(gen_regions(rng, &spec, 10));
        a.push(rng.below(3).to_string());
        w.push("mqry", a);
        let mut a = base.clone();
        a.push(rng.below(2).to_string());
        w.push("unm", a);
        if i % 4 == 1 {
            // number of index entries: one per distinct reference (and unmapped) per slice
            let nent: usize = {
                let mut k = 0usize;
                let mut cnt = 0usize;
                for cont in base[6].split(';').filter(|t| *t != "_") {
                    for sl in cont.split(':').nth(3).unwrap_or("").split(',').filter(|t| !t.is_empty()) {
                        let n: usize = sl.split('/').nth(2).unwrap().parse().unwrap();
                        let mut rids: Vec<Option<usize>> = spec.recs[k..k + n].iter().map(|r| r.rid).collect();
                        rids.sort();
                        rids.dedup();
                        cnt += rids.len();
                        k += n;
                    }
                }
                cnt
            };
            if nent > 0 {
                let mut a = base.clone();
                a.push(gen_regions(rng, &spec, 8));
                a.push(rng.below(3).to_string());
                a.push(rng.below(nent as u64).to_string());
                w.push("mqbad", a);
            }
        }
        if i % 2 == 0 {
            let mut a = base;
            a.push(gen_regions(rng, &spec, 6));
            w.push("via", a);
        }
    }
    // placed records without bases in (merged) multi-slice files: index only
    for i in 0..(if thorough { 1500 } else { 100 }) {
        let spec = gen_spec_nobases(rng, i);
        let Some((mut a, _)) = mbase(rng, &spec, true) else { continue };
        a.push("0".to_string());
        w.push("midx", a);
    }
    // index from the bytes
    let nfiles = if thorough { 1500 } else { 150 };
    for i in 0..nfiles {
        let mut spec = gen_spec(rng, i * 7 + 2);
        if spec.recs.len() > 8 {
            spec.recs.truncate(8);
        }
        spec.per_slice = rng.range(1, 4) as usize;
        let Some((mut a, _)) = mbase(rng, &spec, true) else { continue };
        // rebuild the bytes
        let repo = repository(&spec);
        let Ok(raw) = write_cram(&spec, &repo) else { continue };
        let Ok((p0, conts, tail)) = walk_m(&raw) else { continue };
        let Ok(bytes) = merge(&raw, &conts, tail, &parse_groups(&a[5]), false) else { continue };
        let m = match rng.below(5) {
            0 => format!("c{}", rng.range(p0, bytes.len() as u64 - 1)),
            1 => {
                let rs = modelled_ranges(&bytes);
                if rs.is_empty() {
                    "n".to_string()
                } else {
                    let (lo, hi) = *rng.pick(&rs);
                    format!("f{}", rng.range(lo as u64, hi as u64 - 1))
                }
            }
            _ => "n".to_string(),
        };
        a.push(m.clone());
        a.push(nv::hex(&mutate(&bytes, &m)));
        w.push("hdr", a);
    }
    // query_unmapped on files with placed records carrying the UNMAPPED flag
    let nfiles = if thorough { 6000 } else { 400 };
    for i in 0..nfiles {
        let spec = gen_spec_unm(rng, i);
        let multi = rng.chance(1, 3);
        let Some((mut a, _)) = mbase(rng, &spec, multi) else { continue };
        a.push(rng.below(2).to_string());
        w.push("unm", a);
    }
}

pub fn gunzip(b: &[u8]) -> std::io::Result<Vec<u8>> {
    let mut out = Vec::new();
    flate2::read::MultiGzDecoder::new(b).read_to_end(&mut out)?;
    Ok(out)
}
