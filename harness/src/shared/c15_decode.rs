//! C15: for every format, "read everything the reader offers and touch every accessor of every
//! record that came back Ok".  Nothing here judges the content: the only outcomes of interest are
//! a panic (caught by the caller), a hang (caller's watchdog) or a normal return.  The returned
//! string is a coarse summary ("ok:<n records>" / "err:<kind>") used for the non-triviality rule.

use std::fmt::{Debug, Write as _};
use std::io::{self, BufRead, Read};

use noodles_bam as bam;
use noodles_bcf as bcf;
use noodles_bed as bed;
use noodles_bgzf as bgzf;
use noodles_core::{Position, Region};
use noodles_cram as cram;
use noodles_csi::{self as csi, BinningIndex};
use noodles_fasta as fasta;
use noodles_fastq as fastq;
use noodles_gff as gff;
use noodles_gtf as gtf;
use noodles_sam as sam;
use noodles_tabix as tabix;
use noodles_vcf as vcf;

const MAX_RECORDS: usize = 20_000;

pub const STAGES: &[&str] = &["start", "header", "read", "debug", "accessors", "trait-walk", "eager", "index-read", "index-query", "data-query", "codec", "container"];

thread_local! {
    pub static STAGE_PTR: std::cell::Cell<*const std::sync::atomic::AtomicUsize> = const { std::cell::Cell::new(std::ptr::null()) };
}

thread_local! {
    /// per-decode bound on the number of items any lazy iterator of a record may yield
    pub static ITEM_LIMIT: std::cell::Cell<usize> = const { std::cell::Cell::new(usize::MAX) };
    /// the first accessor whose iterator went past the bound (a never-ending iterator)
    pub static RUNAWAY: std::cell::Cell<Option<&'static str>> = const { std::cell::Cell::new(None) };
}

/// Iterate at most ITEM_LIMIT items; an iterator that is still going then (typically one that
/// returns the same Err forever) is recorded as a runaway instead of spinning.
fn bounded<I: Iterator>(name: &'static str, it: I) -> impl Iterator<Item = I::Item> {
    let lim = ITEM_LIMIT.with(|c| c.get());
    let mut n = 0usize;
    let mut it = it;
    std::iter::from_fn(move || {
        if n >= lim {
            if it.next().is_some() {
                RUNAWAY.with(|c| {
                    if c.get().is_none() {
                        c.set(Some(name))
                    }
                });
            }
            return None;
        }
        n += 1;
        it.next()
    })
}

/// record which part of the decode is running (read by the watchdog when it gives up)
fn stage(name: &'static str) {
    let p = STAGE_PTR.with(|c| c.get());
    if !p.is_null() {
        let i = STAGES.iter().position(|s| *s == name).unwrap_or(0);
        unsafe { (*p).store(i, std::sync::atomic::Ordering::Relaxed) };
    }
}

struct Sink;
impl std::fmt::Write for Sink {
    fn write_str(&mut self, _: &str) -> std::fmt::Result {
        Ok(())
    }
}

/// format with Debug into nothing (walks lazily decoded arrays)
fn dbg<T: Debug + ?Sized>(t: &T) {
    let _ = write!(Sink, "{t:?}");
}

pub struct Sum {
    pub ok: usize,
    pub err: Option<io::ErrorKind>,
}

impl Sum {
    fn new() -> Self {
        Sum { ok: 0, err: None }
    }
    fn e(&mut self, e: &io::Error) {
        if self.err.is_none() {
            self.err = Some(e.kind());
        }
    }
    pub fn text(&self) -> String {
        match self.err {
            None => format!("ok:{}", self.ok),
            Some(k) => format!("err:{k:?}:{}", self.ok),
        }
    }
}

fn go_on(e: &io::Error, nerr: &mut usize) -> bool {
    *nerr += 1;
    matches!(e.kind(), io::ErrorKind::InvalidData | io::ErrorKind::InvalidInput) && *nerr <= 4
}

// ---------------------------------------------------------------------------------------------
// alignment records (bam::Record, sam::Record, cram records, RecordBuf) through the common trait

pub fn touch_alignment(h: &sam::Header, r: &dyn sam::alignment::Record) {
    stage("trait-walk");
    dbg(&r.name());
    dbg(&r.flags());
    dbg(&r.reference_sequence_id(h));
    dbg(&r.alignment_start());
    dbg(&r.mapping_quality());
    {
        let c = r.cigar();
        let _ = (c.is_empty(), c.len());
        for op in bounded("cigar-iter", c.iter()) {
            dbg(&op);
        }
        dbg(&c.alignment_span());
        dbg(&c.read_length());
    }
    dbg(&r.mate_reference_sequence_id(h));
    dbg(&r.mate_alignment_start());
    dbg(&r.template_length());
    {
        let s = r.sequence();
        let n = s.len();
        let _ = s.is_empty();
        let _ = (s.get(0), s.get(n.wrapping_sub(1)), s.get(n), s.get(n / 2));
        let mut k = 0usize;
        for b in bounded("sequence-iter", s.iter()) {
            k += b as usize;
        }
        let _ = k;
    }
    {
        let q = r.quality_scores();
        let _ = (q.is_empty(), q.len());
        for x in bounded("quality-scores-iter", q.iter()) {
            dbg(&x);
        }
    }
    {
        let d = r.data();
        let _ = d.is_empty();
        for f in bounded("data-iter", d.iter()) {
            match f {
                Ok((tag, value)) => {
                    dbg(&tag);
                    dbg(&value.ty());
                    dbg(&value);
                    dbg(&value.as_int());
                    dbg(&d.get(&tag));
                }
                Err(e) => dbg(&e),
            }
        }
        dbg(&d.get(&sam::alignment::record::data::field::Tag::READ_GROUP));
        dbg(&d.get(&sam::alignment::record::data::field::Tag::new(b'Z', b'Z')));
    }
    match r.reference_sequence(h) {
        Some(Ok((name, _))) => dbg(&name),
        other => dbg(&other.map(|r| r.map(|_| ()))),
    }
    dbg(&r.mate_reference_sequence(h).map(|r| r.map(|_| ())));
    dbg(&r.alignment_span());
    dbg(&r.alignment_end());
    dbg(&sam::alignment::RecordBuf::try_from_alignment_record(h, r).map(|_| ()));
}

fn bam_like<R: Read>(mut r: bam::io::Reader<R>, s: &mut Sum) -> Option<sam::Header> {
    stage("header");
    let header = match r.read_header() {
        Ok(h) => h,
        Err(e) => {
            s.e(&e);
            return None;
        }
    };
    dbg(&header);
    let mut rec = bam::Record::default();
    let mut nerr = 0;
    for _ in 0..MAX_RECORDS {
        stage("read");
        match r.read_record(&mut rec) {
            Ok(0) => break,
            Ok(_) => {
                s.ok += 1;
                stage("debug");
                dbg(&rec);
                stage("accessors");
                // inherent accessors of the lazy record
                dbg(&rec.reference_sequence_id());
                dbg(&rec.alignment_start());
                dbg(&rec.mapping_quality());
                dbg(&rec.flags());
                dbg(&rec.mate_reference_sequence_id());
                dbg(&rec.mate_alignment_start());
                dbg(&rec.template_length());
                dbg(&rec.name());
                dbg(&rec.cigar());
                dbg(&rec.sequence());
                dbg(&rec.quality_scores());
                dbg(&rec.data());
                touch_alignment(&header, &rec);
            }
            Err(e) => {
                s.e(&e);
                if !go_on(&e, &mut nerr) {
                    break;
                }
            }
        }
    }
    Some(header)
}

fn bam_eager<R: Read>(mut r: bam::io::Reader<R>, s: &mut Sum) {
    stage("header");
    let header = match r.read_header() {
        Ok(h) => h,
        Err(_) => return,
    };
    let mut rec = sam::alignment::RecordBuf::default();
    let mut nerr = 0;
    for _ in 0..MAX_RECORDS {
        stage("eager");
        match r.read_record_buf(&header, &mut rec) {
            Ok(0) => break,
            Ok(_) => {
                s.ok += 1;
                touch_alignment(&header, &rec);
            }
            Err(e) => {
                s.e(&e);
                if !go_on(&e, &mut nerr) {
                    break;
                }
            }
        }
    }
}

fn sam_like<R: BufRead>(mut r: sam::io::Reader<R>, s: &mut Sum) {
    stage("header");
    let header = match r.read_header() {
        Ok(h) => h,
        Err(e) => {
            s.e(&e);
            return;
        }
    };
    dbg(&header);
    let mut rec = sam::Record::default();
    let mut nerr = 0;
    for _ in 0..MAX_RECORDS {
        stage("read");
        match r.read_record(&mut rec) {
            Ok(0) => break,
            Ok(_) => {
                s.ok += 1;
                stage("debug");
                dbg(&rec);
                stage("accessors");
                touch_alignment(&header, &rec);
            }
            Err(e) => {
                s.e(&e);
                if !go_on(&e, &mut nerr) {
                    break;
                }
            }
        }
    }
}

fn sam_eager<R: BufRead>(mut r: sam::io::Reader<R>, s: &mut Sum) {
    stage("header");
    let header = match r.read_header() {
        Ok(h) => h,
        Err(_) => return,
    };
    let mut rec = sam::alignment::RecordBuf::default();
    let mut nerr = 0;
    for _ in 0..MAX_RECORDS {
        stage("eager");
        match r.read_record_buf(&header, &mut rec) {
            Ok(0) => break,
            Ok(_) => {
                s.ok += 1;
                touch_alignment(&header, &rec);
            }
            Err(e) => {
                s.e(&e);
                if !go_on(&e, &mut nerr) {
                    break;
                }
            }
        }
    }
}

fn cram_all(data: &[u8], repo: fasta::Repository, s: &mut Sum) {
    // (a) record iterator
    {
        let mut r = cram::io::reader::Builder::default()
            .set_reference_sequence_repository(repo.clone())
            .build_from_reader(data);
        stage("header");
    let header = match r.read_header() {
            Ok(h) => h,
            Err(e) => {
                s.e(&e);
                return;
            }
        };
        dbg(&header);
        let mut n = 0;
        for rec in r.records(&header) {
            n += 1;
            if n > MAX_RECORDS {
                break;
            }
            match rec {
                Ok(rec) => {
                    s.ok += 1;
                    dbg(&rec);
                    touch_alignment(&header, &rec);
                }
                Err(e) => {
                    s.e(&e);
                    break;
                }
            }
        }
    }
    // (b) container level: every container, compression header, slices, blocks
    {
        let mut r = cram::io::Reader::new(data);
        stage("header");
    let header = match r.read_header() {
            Ok(h) => h,
            Err(_) => return,
        };
        let mut container = cram::io::reader::Container::default();
        for _ in 0..MAX_RECORDS {
            stage("container");
            match r.read_container(&mut container) {
                Ok(0) => break,
                Ok(_) => {
                    dbg(&container.header());
                    let ch = match container.compression_header() {
                        Ok(ch) => ch,
                        Err(e) => {
                            s.e(&e);
                            continue;
                        }
                    };
                    dbg(&ch);
                    for slice in container.slices() {
                        let slice = match slice {
                            Ok(x) => x,
                            Err(e) => {
                                s.e(&e);
                                break;
                            }
                        };
                        let (core, ext) = match slice.decode_blocks() {
                            Ok(x) => x,
                            Err(e) => {
                                s.e(&e);
                                continue;
                            }
                        };
                        match slice.records(repo.clone(), &header, &ch, &core, &ext) {
                            Ok(recs) => {
                                for rec in &recs {
                                    dbg(rec);
                                    touch_alignment(&header, rec);
                                }
                            }
                            Err(e) => s.e(&e),
                        }
                    }
                }
                Err(e) => {
                    s.e(&e);
                    break;
                }
            }
        }
    }
}

// ---------------------------------------------------------------------------------------------
// variant records

pub fn touch_variant(h: &vcf::Header, r: &dyn vcf::variant::Record) {
    stage("trait-walk");
    use vcf::variant::record::samples::series::Value as SV;
    dbg(&r.reference_sequence_name(h));
    dbg(&r.variant_start());
    {
        let ids = r.ids();
        let _ = (ids.is_empty(), ids.len());
        for i in bounded("ids-iter", ids.iter()) {
            dbg(i);
        }
    }
    {
        let rb = r.reference_bases();
        let _ = (rb.is_empty(), rb.len());
        for b in bounded("reference-bases-iter", rb.iter()) {
            dbg(&b);
        }
    }
    {
        let ab = r.alternate_bases();
        let _ = (ab.is_empty(), ab.len());
        for b in bounded("alternate-bases-iter", ab.iter()) {
            dbg(&b);
        }
    }
    dbg(&r.quality_score());
    {
        let f = r.filters();
        let _ = (f.is_empty(), f.len());
        for x in bounded("filters-iter", f.iter(h)) {
            dbg(&x);
        }
        dbg(&f.is_pass(h));
    }
    {
        let info = r.info();
        let _ = (info.is_empty(), info.len());
        for x in bounded("info-iter", info.iter(h)) {
            dbg(&x);
        }
        for k in ["DP", "AF", "END", "SVLEN", "nokey"] {
            dbg(&info.get(h, k));
        }
    }
    match r.samples() {
        Ok(samples) => {
            let _ = (samples.is_empty(), samples.len());
            for k in bounded("samples-column-names", samples.column_names(h)) {
                dbg(&k);
            }
            let nsamp = h.sample_names().len();
            for series in bounded("samples-series", samples.series()) {
                match series {
                    Ok(series) => {
                        dbg(&series.name(h));
                        for v in bounded("series-iter", series.iter(h)) {
                            match v {
                                Ok(Some(SV::Genotype(g))) => {
                                    for a in bounded("genotype-iter", g.iter()) {
                                        dbg(&a);
                                    }
                                }
                                Err(e) => dbg(&e),
                                other => dbg(&other),
                            }
                        }
                        for i in 0..nsamp + 1 {
                            dbg(&series.get(h, i));
                        }
                    }
                    Err(e) => dbg(&e),
                }
            }
            for sample in bounded("samples-iter", samples.iter()) {
                for x in bounded("sample-iter", sample.iter(h)) {
                    match x {
                        Ok((k, Some(SV::Genotype(g)))) => {
                            dbg(k);
                            for a in bounded("genotype-iter", g.iter()) {
                                dbg(&a);
                            }
                        }
                        Err(e) => dbg(&e),
                        other => dbg(&other),
                    }
                }
                dbg(&sample.get(h, "GT"));
                dbg(&sample.get(h, "nokey"));
                dbg(&sample.get_index(h, 0));
                dbg(&sample.get_index(h, 7));
            }
            for k in ["GT", "GQ", "nokey"] {
                if let Some(series) = samples.select(h, k) {
                    match series {
                        Ok(series) => {
                            for v in bounded("series-iter", series.iter(h)) {
                                dbg(&v);
                            }
                        }
                        Err(e) => dbg(&e),
                    }
                }
            }
        }
        Err(e) => dbg(&e),
    }
    dbg(&r.variant_span(h));
    dbg(&r.variant_end(h));
    dbg(&vcf::variant::RecordBuf::try_from_variant_record(h, r).map(|_| ()));
}

fn bcf_like<R: Read>(mut r: bcf::io::Reader<R>, s: &mut Sum) {
    stage("header");
    let header = match r.read_header() {
        Ok(h) => h,
        Err(e) => {
            s.e(&e);
            return;
        }
    };
    dbg(&header);
    let mut rec = bcf::Record::default();
    let mut nerr = 0;
    for _ in 0..MAX_RECORDS {
        stage("read");
        match r.read_record(&mut rec) {
            Ok(0) => break,
            Ok(_) => {
                s.ok += 1;
                stage("debug");
                dbg(&rec);
                stage("accessors");
                dbg(&rec.reference_sequence_id());
                dbg(&rec.reference_sequence_name(header.string_maps()));
                dbg(&rec.variant_start());
                dbg(&rec.end());
                dbg(&rec.quality_score());
                dbg(&rec.ids());
                dbg(&rec.reference_bases());
                dbg(&rec.alternate_bases());
                dbg(&rec.filters());
                dbg(&rec.info());
                match rec.samples() {
                    Ok(samples) => {
                        dbg(&samples.format_count());
                        dbg(&samples);
                        dbg(&samples.get_index(0).is_some());
                        dbg(&samples.get(&header, "s1").is_some());
                    }
                    Err(e) => dbg(&e),
                }
                touch_variant(&header, &rec);
            }
            Err(e) => {
                s.e(&e);
                if !go_on(&e, &mut nerr) {
                    break;
                }
            }
        }
    }
}

fn bcf_eager<R: Read>(mut r: bcf::io::Reader<R>, s: &mut Sum) {
    stage("header");
    let header = match r.read_header() {
        Ok(h) => h,
        Err(_) => return,
    };
    let mut rec = vcf::variant::RecordBuf::default();
    let mut nerr = 0;
    for _ in 0..MAX_RECORDS {
        stage("eager");
        match r.read_record_buf(&header, &mut rec) {
            Ok(0) => break,
            Ok(_) => {
                s.ok += 1;
                touch_variant(&header, &rec);
            }
            Err(e) => {
                s.e(&e);
                if !go_on(&e, &mut nerr) {
                    break;
                }
            }
        }
    }
}

fn vcf_like<R: BufRead>(mut r: vcf::io::Reader<R>, s: &mut Sum) {
    stage("header");
    let header = match r.read_header() {
        Ok(h) => h,
        Err(e) => {
            s.e(&e);
            return;
        }
    };
    dbg(&header);
    let mut rec = vcf::Record::default();
    let mut nerr = 0;
    for _ in 0..MAX_RECORDS {
        stage("read");
        match r.read_record(&mut rec) {
            Ok(0) => break,
            Ok(_) => {
                s.ok += 1;
                stage("debug");
                dbg(&rec);
                stage("accessors");
                touch_variant(&header, &rec);
            }
            Err(e) => {
                s.e(&e);
                if !go_on(&e, &mut nerr) {
                    break;
                }
            }
        }
    }
}

fn vcf_eager<R: BufRead>(mut r: vcf::io::Reader<R>, s: &mut Sum) {
    stage("header");
    let header = match r.read_header() {
        Ok(h) => h,
        Err(_) => return,
    };
    let mut rec = vcf::variant::RecordBuf::default();
    let mut nerr = 0;
    for _ in 0..MAX_RECORDS {
        stage("eager");
        match r.read_record_buf(&header, &mut rec) {
            Ok(0) => break,
            Ok(_) => {
                s.ok += 1;
                touch_variant(&header, &rec);
            }
            Err(e) => {
                s.e(&e);
                if !go_on(&e, &mut nerr) {
                    break;
                }
            }
        }
    }
}

// ---------------------------------------------------------------------------------------------
// text formats

fn fasta_all(data: &[u8], s: &mut Sum) {
    {
        let mut r = fasta::io::Reader::new(data);
        let mut def = fasta::record::Definition::default();
        let mut nerr = 0;
        for _ in 0..MAX_RECORDS {
            match r.read_definition(&mut def) {
                Ok(0) => break,
                Ok(_) => {}
                Err(e) => {
                    s.e(&e);
                    if !go_on(&e, &mut nerr) {
                        break;
                    }
                    continue;
                }
            }
            dbg(&def);
            let mut seq = Vec::new();
            match r.read_sequence(&mut seq) {
                Ok(_) => s.ok += 1,
                Err(e) => {
                    s.e(&e);
                    break;
                }
            }
        }
    }
    {
        let mut r = fasta::io::Reader::new(data);
        for rec in r.records().take(MAX_RECORDS) {
            match rec {
                Ok(rec) => {
                    dbg(&rec);
                    dbg(&rec.name());
                    dbg(&rec.description());
                    let q = rec.sequence();
                    let _ = (q.len(), q.is_empty());
                    dbg(&q.get(Position::MIN));
                    if let (Some(a), Some(b)) = (Position::new(2), Position::new(5)) {
                        dbg(&q.slice(a..=b));
                        dbg(&q.get(a..));
                    }
                }
                Err(e) => {
                    s.e(&e);
                    break;
                }
            }
        }
    }
    {
        let mut ix = fasta::io::Indexer::new(data);
        for _ in 0..MAX_RECORDS {
            match ix.index_record() {
                Ok(None) => break,
                Ok(Some(rec)) => dbg(&rec),
                Err(e) => dbg(&e),
            }
        }
    }
}

fn fastq_all(data: &[u8], s: &mut Sum) {
    let mut r = fastq::io::Reader::new(data);
    let mut rec = fastq::Record::default();
    let mut nerr = 0;
    for _ in 0..MAX_RECORDS {
        stage("read");
        match r.read_record(&mut rec) {
            Ok(0) => break,
            Ok(_) => {
                s.ok += 1;
                stage("debug");
                dbg(&rec);
                stage("accessors");
                dbg(&rec.name());
                dbg(&rec.description());
                let _ = (rec.sequence().len(), rec.quality_scores().len());
            }
            Err(e) => {
                s.e(&e);
                if !go_on(&e, &mut nerr) {
                    break;
                }
            }
        }
    }
    let mut r = fastq::io::Reader::new(data);
    for rec in r.records().take(MAX_RECORDS) {
        if let Err(e) = rec {
            dbg(&e);
            break;
        }
    }
    let mut ix = fastq::io::Indexer::new(data);
    for _ in 0..MAX_RECORDS {
        match ix.index_record() {
            Ok(None) => break,
            Ok(Some(rec)) => dbg(&rec),
            Err(e) => dbg(&e),
        }
    }
}

fn touch_feature(r: &dyn gff::feature::Record) {
    stage("trait-walk");
    dbg(&r.reference_sequence_name());
    dbg(&r.source());
    dbg(&r.ty());
    dbg(&r.feature_start());
    dbg(&r.feature_end());
    dbg(&r.score());
    dbg(&r.strand());
    dbg(&r.phase());
    {
        let a = r.attributes();
        let _ = a.is_empty();
        for x in bounded("attributes-iter", a.iter()) {
            match x {
                Ok((k, v)) => {
                    dbg(&k);
                    dbg(&v.as_string());
                    for y in bounded("attribute-value-iter", v.iter()) {
                        dbg(&y);
                    }
                }
                Err(e) => dbg(&e),
            }
        }
        for k in ["ID", "Parent", "gene_id", "nokey"] {
            match a.get(k.as_bytes()) {
                Some(Ok(v)) => dbg(&v.iter().count()),
                other => dbg(&other.map(|r| r.map(|_| ()))),
            }
        }
    }
    dbg(&gff::feature::RecordBuf::try_from_feature_record(r).map(|_| ()));
}

fn gff_all(data: &[u8], s: &mut Sum) {
    let mut r = gff::io::Reader::new(data);
    let mut line = gff::Line::default();
    let mut nerr = 0;
    for _ in 0..MAX_RECORDS {
        stage("read");
        match r.read_line(&mut line) {
            Ok(0) => break,
            Ok(_) => {
                s.ok += 1;
                dbg(&line.kind());
                dbg(&line);
                if let Some(d) = line.as_directive() {
                    dbg(&d.key());
                    dbg(&d.value());
                }
                dbg(&line.as_comment());
                match line.as_record() {
                    Some(Ok(rec)) => {
                        dbg(&rec);
                        dbg(&rec.start());
                        dbg(&rec.end());
                        dbg(&rec.attributes());
                        touch_feature(&rec);
                    }
                    Some(Err(e)) => dbg(&e),
                    None => {}
                }
            }
            Err(e) => {
                s.e(&e);
                if !go_on(&e, &mut nerr) {
                    break;
                }
            }
        }
    }
    let mut r = gff::io::Reader::new(data);
    for lb in r.line_bufs().take(MAX_RECORDS) {
        match lb {
            Ok(lb) => dbg(&lb),
            Err(e) => dbg(&e),
        }
    }
    let mut r = gff::io::Reader::new(data);
    for rb in r.record_bufs().take(MAX_RECORDS) {
        match rb {
            Ok(rb) => dbg(&rb),
            Err(e) => dbg(&e),
        }
    }
}

fn gtf_all(data: &[u8], s: &mut Sum) {
    let mut r = gtf::io::Reader::new(data);
    let mut line = gtf::Line::default();
    let mut nerr = 0;
    for _ in 0..MAX_RECORDS {
        stage("read");
        match r.read_line(&mut line) {
            Ok(0) => break,
            Ok(_) => {
                s.ok += 1;
                dbg(&line.kind());
                dbg(&line.as_comment());
                match line.as_record() {
                    Some(Ok(rec)) => {
                        dbg(&rec);
                        dbg(&rec.start());
                        dbg(&rec.end());
                        dbg(&rec.attributes().map(|_| ()));
                        touch_feature(&rec);
                    }
                    Some(Err(e)) => dbg(&e),
                    None => {}
                }
            }
            Err(e) => {
                s.e(&e);
                if !go_on(&e, &mut nerr) {
                    break;
                }
            }
        }
    }
    let mut r = gtf::io::Reader::new(data);
    for rb in r.record_bufs().take(MAX_RECORDS) {
        match rb {
            Ok(rb) => dbg(&rb),
            Err(e) => dbg(&e),
        }
    }
}

macro_rules! bed_n {
    ($n:literal, $data:expr, $s:expr, $touch:expr) => {{
        let mut r = bed::io::Reader::<$n, _>::new($data);
        let mut rec = bed::Record::<$n>::default();
        let mut nerr = 0;
        let touch = $touch;
        for _ in 0..MAX_RECORDS {
            stage("read");
        match r.read_record(&mut rec) {
                Ok(0) => break,
                Ok(_) => {
                    $s.ok += 1;
                    dbg(&rec);
                    touch(&rec);
                }
                Err(e) => {
                    $s.e(&e);
                    if !go_on(&e, &mut nerr) {
                        break;
                    }
                }
            }
        }
    }};
}

fn bed_all(data: &[u8], s: &mut Sum) {
    bed_n!(3, data, s, |r: &bed::Record<3>| {
        dbg(&r.reference_sequence_name());
        dbg(&r.feature_start());
        dbg(&r.feature_end());
        let o = r.other_fields();
        let _ = (o.is_empty(), o.len());
        for f in bounded("other-fields-iter", o.iter()) {
            dbg(&f);
        }
        dbg(&o.get(0));
        dbg(&o.get(9));
        dbg(&bed::feature::RecordBuf::<3>::try_from_feature_record(r).map(|_| ()));
    });
    let mut s2 = Sum::new();
    bed_n!(4, data, s2, |r: &bed::Record<4>| {
        dbg(&r.name());
        dbg(&r.feature_end());
        for f in bounded("other-fields-iter", r.other_fields().iter()) {
            dbg(&f);
        }
    });
    bed_n!(5, data, s2, |r: &bed::Record<5>| {
        dbg(&r.name());
        dbg(&r.score());
        for f in bounded("other-fields-iter", r.other_fields().iter()) {
            dbg(&f);
        }
    });
    bed_n!(6, data, s2, |r: &bed::Record<6>| {
        dbg(&r.reference_sequence_name());
        dbg(&r.feature_start());
        dbg(&r.feature_end());
        dbg(&r.name());
        dbg(&r.score());
        dbg(&r.strand());
        for f in bounded("other-fields-iter", r.other_fields().iter()) {
            dbg(&f);
        }
    });
}

// ---------------------------------------------------------------------------------------------
// indexes: read, then query

fn pos(n: usize) -> Position {
    Position::new(n).unwrap()
}

pub fn query_index<I: BinningIndex>(ix: &I) {
    stage("index-query");
    dbg(&ix.min_shift());
    dbg(&ix.depth());
    dbg(&ix.header());
    dbg(&ix.unplaced_unmapped_record_count());
    dbg(&ix.last_first_record_start_position());
    let nref = ix.reference_sequences().count();
    for rs in ix.reference_sequences().take(4) {
        dbg(&rs.metadata());
    }
    let regions: &[(usize, usize)] = &[
        (1, 1),
        (1, 100),
        (5, 70_000),
        (16_384, 16_385),
        (1, 1 << 29),
        ((1 << 29) - 1, 1 << 29),
        (1 << 29, (1 << 29) + 1),
        (1, (1usize << 31) - 1),
        (1 << 33, 1 << 34),
        (1, usize::MAX),
        (usize::MAX - 1, usize::MAX),
    ];
    // a query sets one bit per bin of the region: skip regions that would be seconds of legitimate
    // work for a deep geometry (depth 9 / 10 with a small min_shift)
    let (ms, d) = (u32::from(ix.min_shift()), u32::from(ix.depth()));
    let cheap = |a: usize, b: usize| ((b - a) as u128 >> ms.min(100)) <= (1 << 22);
    let deep = d >= 8;
    for id in [0usize, 1, nref.saturating_sub(1), nref, usize::MAX] {
        for &(a, b) in regions {
            if !deep || cheap(a, b) {
                dbg(&ix.query(id, (pos(a)..=pos(b)).into()));
            }
        }
        if !deep {
            dbg(&ix.query(id, (..).into()));
            dbg(&ix.query(id, (pos(77)..).into()));
        }
    }
}

fn index_all(fmt: &str, data: &[u8], s: &mut Sum) {
    stage("index-read");
    match fmt {
        "bai" => match bam::bai::io::Reader::new(data).read_index() {
            Ok(ix) => {
                s.ok += 1;
                dbg(&ix);
                query_index(&ix);
            }
            Err(e) => s.e(&e),
        },
        "csi" => match csi::io::Reader::new(data).read_index() {
            Ok(ix) => {
                s.ok += 1;
                dbg(&ix);
                query_index(&ix);
            }
            Err(e) => s.e(&e),
        },
        "tabix" => match tabix::io::Reader::new(data).read_index() {
            Ok(ix) => {
                s.ok += 1;
                dbg(&ix);
                query_index(&ix);
            }
            Err(e) => s.e(&e),
        },
        "gzi" => match bgzf::gzi::io::Reader::new(data).read_index() {
            Ok(ix) => {
                s.ok += 1;
                dbg(&ix);
                for p in [0u64, 1, 65_279, 65_280, 100_000, 1 << 32, u64::MAX - 1, u64::MAX] {
                    dbg(&ix.query(p));
                }
                // the index drives seeks by uncompressed position over a valid BGZF file
                // (bgzf::io::IndexedReader: Reader::seek_by_uncompressed_position), then reads
                let file = super::c15_files::bgzip_blocks(&super::c15_files::sam_text()[..300], 120);
                let mut r = bgzf::io::IndexedReader::new(io::Cursor::new(file), ix);
                for p in [0u64, 1, 119, 120, 121, 239, 240, 299, 300, 301, 65_280, 1 << 32, u64::MAX - 1, u64::MAX] {
                    stage("data-query");
                    match io::Seek::seek(&mut r, io::SeekFrom::Start(p)) {
                        Ok(at) => {
                            dbg(&at);
                            dbg(&r.virtual_position());
                            let mut buf = [0u8; 16];
                            match r.read(&mut buf) {
                                Ok(n) => dbg(&n),
                                Err(e) => dbg(&e),
                            }
                            match r.fill_buf() {
                                Ok(b) => dbg(&b.len()),
                                Err(e) => dbg(&e),
                            }
                        }
                        Err(e) => dbg(&e),
                    }
                }
            }
            Err(e) => s.e(&e),
        },
        "fai" => match fasta::fai::io::Reader::new(data).read_index() {
            Ok(ix) => {
                s.ok += 1;
                dbg(&ix);
                let rs: &[&str] = &["sq0", "sq0:1-5", "sq0:11-12", "sq0:23", "sq0:24-30", "sq1:2", "sq2", "sq2:3-4", "nope", "sq1:18446744073709551615"];
                for r in rs {
                    if let Ok(region) = r.parse::<Region>() {
                        dbg(&ix.query(&region));
                    }
                }
                for rec in ix.as_ref().iter() {
                    dbg(&rec.name());
                    dbg(&(rec.length(), rec.position(), rec.line_bases(), rec.line_width()));
                }
                // the index drives an indexed reader over a valid FASTA
                let fa = super::c15_files::fasta_text();
                let mut r = fasta::io::IndexedReader::new(io::Cursor::new(fa), ix);
                for q in rs {
                    if let Ok(region) = q.parse::<Region>() {
                        dbg(&r.query(&region).map(|rec| rec.sequence().len()));
                    }
                }
            }
            Err(e) => s.e(&e),
        },
        "crai" => match cram::crai::io::Reader::new(data).read_index() {
            Ok(ix) => {
                s.ok += 1;
                dbg(&ix);
                for rec in &ix {
                    dbg(&(rec.reference_sequence_id(), rec.alignment_start(), rec.alignment_span()));
                    dbg(&(rec.offset(), rec.landmark(), rec.slice_length()));
                }
                // the index drives queries over a valid CRAM
                let file = super::c15_files::cram_file();
                let repo = super::c15_files::repository();
                let mut r = cram::io::reader::Builder::default()
                    .set_reference_sequence_repository(repo)
                    .build_from_reader(io::Cursor::new(file));
                if let Ok(h) = r.read_header() {
                    for q in ["sq0", "sq0:1-30", "sq1:5-9", "sq1"] {
                        let region: Region = q.parse().unwrap();
                        match r.query(&h, &ix, &region) {
                            Ok(it) => {
                                for rec in it.records().take(MAX_RECORDS) {
                                    match rec {
                                        Ok(rec) => touch_alignment(&h, &rec),
                                        Err(e) => dbg(&e),
                                    }
                                }
                            }
                            Err(e) => dbg(&e),
                        }
                    }
                }
            }
            Err(e) => s.e(&e),
        },
        _ => unreachable!(),
    }
}

// ---------------------------------------------------------------------------------------------
// BGZF itself: every way of pulling bytes out of the reader

fn bgzf_all(data: &[u8], s: &mut Sum) {
    {
        let mut r = bgzf::io::Reader::new(data);
        for _ in 0..MAX_RECORDS {
            match r.fill_buf().map(|b| b.len()) {
                Ok(0) => break,
                Ok(n) => {
                    s.ok += 1;
                    r.consume(n);
                    dbg(&(r.position(), r.virtual_position()));
                }
                Err(e) => {
                    s.e(&e);
                    break;
                }
            }
        }
    }
    {
        let mut r = bgzf::io::Reader::new(data);
        let mut big = vec![0u8; 70_000];
        for k in 0..MAX_RECORDS {
            let want = [70_000usize, 7, 65_536, 1, 300][k % 5];
            match r.read(&mut big[..want]) {
                Ok(0) => break,
                Ok(_) => {}
                Err(_) => break,
            }
        }
    }
    {
        // Read::read / read_exact / read_to_end at BLOCK BOUNDARIES with caller buffers around
        // every size the reader compares a buffer with: the fast path of `read` inflates the next
        // block straight into the caller's buffer (`&mut buf[..isize]`, ISIZE from the trailer)
        // when the buffer is "large enough"; 65280 = htslib block, 65495 = largest block the
        // noodles writer stages, 65536 = BGZF_MAX_ISIZE; plus the first block's own size +-1
        let first = bgzf::io::Reader::new(data).fill_buf().map(|b| b.len()).unwrap_or(0);
        let mut sizes = vec![0usize, 1, 2, 65_279, 65_280, 65_281, 65_494, 65_495, 65_496, 65_500, 65_520, 65_535, 65_536, 65_537];
        sizes.extend([first.saturating_sub(1), first, first + 1]);
        let mut big = vec![0u8; 65_600];
        for &want in &sizes {
            stage("read");
            let mut r = bgzf::io::Reader::new(data);
            for _ in 0..8 {
                match r.read(&mut big[..want]) {
                    Ok(0) | Err(_) => break,
                    Ok(_) => {}
                }
            }
            // the same after a partial read of the first block and after consuming it whole
            let mut r = bgzf::io::Reader::new(data);
            let mut one = [0u8; 1];
            let _ = r.read(&mut one);
            let _ = r.read(&mut big[..want]);
            let mut r = bgzf::io::Reader::new(data);
            if let Ok(n) = r.fill_buf().map(|b| b.len()) {
                r.consume(n);
                let _ = r.read(&mut big[..want]);
                let _ = r.read(&mut big[..want]);
            }
            let mut r = bgzf::io::Reader::new(data);
            let _ = r.read_exact(&mut big[..want]);
            let _ = r.read(&mut big[..want]);
            let mut all = Vec::with_capacity(want);
            let _ = r.read_to_end(&mut all);
        }
    }
    {
        let mut r = bgzf::io::Reader::new(data);
        let mut buf = vec![0u8; 5000];
        for k in 0..MAX_RECORDS {
            let want = [1usize, 4, 37, 5000, 2, 1000][k % 6];
            if r.read_exact(&mut buf[..want]).is_err() {
                break;
            }
        }
    }
    {
        let mut r = bgzf::io::Reader::new(data);
        let mut all = Vec::new();
        let _ = r.read_to_end(&mut all);
        let mut r = bgzf::io::Reader::new(data);
        let mut line = String::new();
        for _ in 0..MAX_RECORDS {
            line.clear();
            stage("read");
        match r.read_line(&mut line) {
                Ok(0) | Err(_) => break,
                Ok(_) => {}
            }
        }
    }
    {
        // seekable reader + the gzi built by indexing the stream
        let mut r = bgzf::io::Reader::new(io::Cursor::new(data));
        for v in [0u64] {
            if r.seek(bgzf::VirtualPosition::from(v)).is_ok() {
                let mut b = [0u8; 16];
                let _ = r.read(&mut b);
            }
        }
    }
}

/// seek to (coffset, uoffset) in a BGZF file, then read in the given way
pub fn bgzf_seek(data: &[u8], coffset: u64, uoffset: u16, how: u64) -> String {
    let Ok(vp) = bgzf::VirtualPosition::try_from((coffset, uoffset)) else {
        return "bad-vpos".into();
    };
    let mut r = bgzf::io::Reader::new(io::Cursor::new(data));
    if let Err(e) = r.seek(vp) {
        return format!("Err:{:?}", e.kind());
    }
    let mut buf = [0u8; 8];
    let res = match how {
        0 => r.fill_buf().map(|b| b.len()),
        1 => r.read(&mut buf),
        2 => r.read_exact(&mut buf[..1]).map(|_| 1),
        _ => {
            let mut all = Vec::new();
            r.read_to_end(&mut all)
        }
    };
    match res {
        Ok(n) => format!("Ok:{n}"),
        Err(e) => format!("Err:{:?}", e.kind()),
    }
}

// ---------------------------------------------------------------------------------------------
// query a valid data file through an arbitrary index

pub fn index_query(kind: &str, index_bytes: &[u8]) -> String {
    ITEM_LIMIT.with(|c| c.set(1 << 20));
    RUNAWAY.with(|c| c.set(None));
    let r = index_query_inner(kind, index_bytes);
    match RUNAWAY.with(|c| c.take()) {
        Some(name) => format!("runaway:{name}"),
        None => r,
    }
}

fn index_query_inner(kind: &str, index_bytes: &[u8]) -> String {
    stage("index-read");
    let mut s = Sum::new();
    let regions = ["sq0", "sq0:1-30", "sq0:35-60", "sq1:5-9", "sq1", "sq0:100000-200000"];
    match kind {
        "bai" | "bamcsi" => {
            let file = super::c15_files::bam_blocks();
            fn go<I: BinningIndex>(file: &[u8], regions: &[&str], ix: &I, s: &mut Sum) {
                let mut r = bam::io::Reader::new(io::Cursor::new(file));
                let Ok(h) = r.read_header() else { return };
                for q in regions {
                    let region: Region = q.parse().unwrap();
                    stage("data-query");
                    match r.query(&h, ix, &region) {
                        Ok(it) => {
                            for rec in it.records().take(MAX_RECORDS) {
                                match rec {
                                    Ok(rec) => {
                                        s.ok += 1;
                                        touch_alignment(&h, &rec);
                                    }
                                    Err(e) => {
                                        s.e(&e);
                                        break;
                                    }
                                }
                            }
                        }
                        Err(e) => s.e(&e),
                    }
                }
                match r.query_unmapped(ix) {
                    Ok(it) => {
                        for rec in it.take(MAX_RECORDS) {
                            if let Err(e) = rec {
                                s.e(&e);
                                break;
                            }
                        }
                    }
                    Err(e) => s.e(&e),
                }
            }
            if kind == "bai" {
                match bam::bai::io::Reader::new(index_bytes).read_index() {
                    Ok(ix) => go(&file, &regions, &ix, &mut s),
                    Err(e) => s.e(&e),
                }
            } else {
                match csi::io::Reader::new(index_bytes).read_index() {
                    Ok(ix) => go(&file, &regions, &ix, &mut s),
                    Err(e) => s.e(&e),
                }
            }
        }
        "vcftbi" => {
            let file = super::c15_files::vcfgz_blocks();
            match tabix::io::Reader::new(index_bytes).read_index() {
                Ok(ix) => {
                    let mut r = vcf::io::Reader::new(bgzf::io::Reader::new(io::Cursor::new(&file[..])));
                    if let Ok(h) = r.read_header() {
                        for q in regions {
                            let region: Region = q.parse().unwrap();
                            stage("data-query");
                            match r.query(&h, &ix, &region) {
                                Ok(it) => {
                                    for rec in it.records().take(MAX_RECORDS) {
                                        match rec {
                                            Ok(rec) => {
                                                s.ok += 1;
                                                touch_variant(&h, &rec);
                                            }
                                            Err(e) => {
                                                s.e(&e);
                                                break;
                                            }
                                        }
                                    }
                                }
                                Err(e) => s.e(&e),
                            }
                        }
                    }
                }
                Err(e) => s.e(&e),
            }
        }
        _ => return "unknown".into(),
    }
    s.text()
}

// ---------------------------------------------------------------------------------------------
// CRAM block codecs on arbitrary bytes

pub fn codec(name: &str, src: &[u8], usize_: usize) -> String {
    stage("codec");
    use cram::verif as v;
    let r: io::Result<usize> = match name {
        n if n.starts_with("rans4x8") => v::rans_4x8_decode(src).map(|o| o.len()),
        n if n.starts_with("nx16") => v::rans_nx16_decode(src, usize_).map(|o| o.len()),
        n if n.starts_with("aac") => v::aac_decode(src, usize_).map(|o| o.len()),
        n if n.starts_with("fqz") => v::fqzcomp_decode(src).map(|o| o.len()),
        n if n.starts_with("tok") => v::name_tokenizer_decode(src).map(|o| o.len()),
        "gzip" => {
            let mut dst = vec![0u8; usize_];
            v::gzip_decode(src, &mut dst).map(|_| usize_)
        }
        "bzip2" => {
            let mut dst = vec![0u8; usize_];
            v::bzip2_decode(src, &mut dst).map(|_| usize_)
        }
        "lzma" => {
            let mut dst = vec![0u8; usize_];
            v::lzma_decode(src, &mut dst).map(|_| usize_)
        }
        "itf8" => {
            let mut s = src;
            let mut n = 0;
            loop {
                match v::read_itf8(&mut s) {
                    Ok(_) => n += 1,
                    Err(e) => break if s.is_empty() { Ok(n) } else { Err(e) },
                }
            }
        }
        "ltf8" => {
            let mut s = src;
            let mut n = 0;
            loop {
                match v::read_ltf8(&mut s) {
                    Ok(_) => n += 1,
                    Err(e) => break if s.is_empty() { Ok(n) } else { Err(e) },
                }
            }
        }
        "uint7" => {
            let mut s = src;
            let mut n = 0;
            loop {
                match v::read_uint7(&mut s) {
                    Ok(_) => n += 1,
                    Err(e) => break if s.is_empty() { Ok(n) } else { Err(e) },
                }
            }
        }
        _ => return "unknown".into(),
    };
    match r {
        Ok(n) => format!("ok:{n}"),
        Err(e) => format!("err:{:?}:0", e.kind()),
    }
}

// ---------------------------------------------------------------------------------------------

pub const FORMATS: &[&str] = &[
    "bgzf", "bam", "bcf", "vcfgz", "cram", "sam", "vcf", "fasta", "fastq", "gff", "gtf", "bed", "bai", "csi", "tabix", "gzi",
    "fai", "crai",
];

/// Run every reader of `fmt` over the sealed file bytes.
pub fn decode(fmt: &str, file: &[u8]) -> String {
    ITEM_LIMIT.with(|c| c.set(16 * file.len() + 4096));
    RUNAWAY.with(|c| c.set(None));
    let r = decode_inner(fmt, file);
    match RUNAWAY.with(|c| c.take()) {
        Some(name) => format!("runaway:{name}"),
        None => r,
    }
}

fn decode_inner(fmt: &str, file: &[u8]) -> String {
    let mut s = Sum::new();
    match fmt {
        "bgzf" => bgzf_all(file, &mut s),
        "bam" => {
            bam_like(bam::io::Reader::new(file), &mut s);
            let mut s2 = Sum::new();
            bam_eager(bam::io::Reader::new(file), &mut s2);
        }
        "bcf" => {
            bcf_like(bcf::io::Reader::new(file), &mut s);
            let mut s2 = Sum::new();
            bcf_eager(bcf::io::Reader::new(file), &mut s2);
        }
        "vcfgz" => {
            vcf_like(vcf::io::Reader::new(bgzf::io::Reader::new(file)), &mut s);
            let mut s2 = Sum::new();
            vcf_eager(vcf::io::Reader::new(bgzf::io::Reader::new(file)), &mut s2);
        }
        "vcf" => {
            vcf_like(vcf::io::Reader::new(file), &mut s);
            let mut s2 = Sum::new();
            vcf_eager(vcf::io::Reader::new(file), &mut s2);
        }
        "sam" => {
            sam_like(sam::io::Reader::new(file), &mut s);
            let mut s2 = Sum::new();
            sam_eager(sam::io::Reader::new(file), &mut s2);
        }
        "cram" => cram_all(file, super::c15_files::repository(), &mut s),
        "fasta" => fasta_all(file, &mut s),
        "fastq" => fastq_all(file, &mut s),
        "gff" => gff_all(file, &mut s),
        "gtf" => gtf_all(file, &mut s),
        "bed" => bed_all(file, &mut s),
        "bai" | "csi" | "tabix" | "gzi" | "fai" | "crai" => index_all(fmt, file, &mut s),
        _ => return "unknown".into(),
    }
    s.text()
}
