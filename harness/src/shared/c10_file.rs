//! C10 `bf` / `bfx`: whole (uncompressed) BCF streams against NV.Bcf.File.
//!   bf  ver infodefs filters fmtdefs contigs ns alts others recs
//!         header arguments as `vb` (shared/c10_bridge.rs); alts = ALT ids `a,b` or `-`;
//!         others = unstructured other records `key:hex(value),...` or `-`;
//!         recs = `rec^rlen@rec^rlen...` (rec = the format of `vb`, rlen = variant_span) or `-`.
//!         The header and the records are written with ONE bcf::io::Writer (write_header, then
//!         write_variant_record per record) and the stream is read back.
//!         obs = <hex of the stream | Err:kind | Panic> `|` <read observation of the stream | ->
//!   bfx label hex
//!         a stream (a written file, then mutated in the header block / cut / re-framed) read back.
//!         obs = <read observation>
//!   read observation = `E=<path>|L=<path>`: E = read_header + read_record_buf loop with ONE
//!         RecordBuf, L = read_header + read_record loop with ONE bcf::Record converted by
//!         RecordBuf::try_from_variant_record.  <path> = `Err:<kind>` (read_header failed) or
//!         `<hex of the header re-serialised by the VCF writer>;S{hex(id)=index:hex(entry),...};C{...};R=rec!!rec..;<Eof|Err>`
//!         (the string maps of the header read: for every ID of the header, its index and the
//!         entry at that index).
//! Oracle (bf): the writer accepted header and records, every record inside the domain of the
//! property => the header read back serialises to the same text, both loops end with Ok(0) and
//! return as many records as written, each with the content written.  bfx: only a panic counts.
use super::*;
use noodles_vcf::header::string_maps::StringMap;
use noodles_vcf::variant::Record as _;

pub struct FHdr {
    pub h: Hdr,
    pub alts: Vec<String>,
    pub others: Vec<(String, String)>,
}

pub fn file_header_text(f: &FHdr) -> String {
    let base = header_text(&f.h);
    let i = base.find("#CHROM").unwrap();
    let mut s = base[..i].to_string();
    for a in &f.alts {
        s += &format!("##ALT=<ID={a},Description=\"d\">\n");
    }
    for (k, v) in &f.others {
        s += &format!("##{k}={v}\n");
    }
    s += &base[i..];
    s
}

pub enum FW {
    Ok(Vec<u8>),
    Err(String),
    Panic(String),
}

pub fn write_file(header: &vcf::Header, recs: &[RecordBuf]) -> FW {
    let mut w = bcf::io::Writer::from(Vec::new());
    match guarded(AssertUnwindSafe(|| w.write_header(header))) {
        Outcome::Done(Ok(())) => {}
        Outcome::Done(Err(e)) => return FW::Err(errkind(&e)),
        Outcome::Panicked(m) => return FW::Panic(m),
    }
    for rb in recs {
        match guarded(AssertUnwindSafe(|| w.write_variant_record(header, rb))) {
            Outcome::Done(Ok(())) => {}
            Outcome::Done(Err(e)) => return FW::Err(errkind(&e)),
            Outcome::Panicked(m) => return FW::Panic(m),
        }
    }
    FW::Ok(w.into_inner())
}

fn look(m: &StringMap, names: &[String]) -> String {
    let mut seen: Vec<&String> = Vec::new();
    let mut out = Vec::new();
    for n in names {
        if seen.contains(&n) {
            continue;
        }
        seen.push(n);
        out.push(match m.get_index_of(n) {
            Some(i) => format!("{}={i}:{}", hex(n.as_bytes()), m.get_index(i).map(|e| hex(e.as_bytes())).unwrap_or("-".into())),
            None => format!("{}=-", hex(n.as_bytes())),
        });
    }
    format!("{{{}}}", out.join(","))
}

fn header_serialised(h: &vcf::Header) -> Option<Vec<u8>> {
    let mut w = vcf::io::Writer::new(Vec::new());
    match guarded(AssertUnwindSafe(|| w.write_header(h))) {
        Outcome::Done(Ok(())) => Some(w.into_inner()),
        _ => None,
    }
}

fn hdr_obs(h: &vcf::Header) -> String {
    let text = header_serialised(h).map(|t| hex(&t)).unwrap_or("WErr".into());
    let mut names: Vec<String> = vec!["PASS".into()];
    names.extend(h.infos().keys().map(|k| k.to_string()));
    names.extend(h.filters().keys().map(|k| k.to_string()));
    names.extend(h.formats().keys().map(|k| k.to_string()));
    let cnames: Vec<String> = h.contigs().keys().map(|k| k.to_string()).collect();
    format!("{text};S{};C{}", look(h.string_maps().strings(), &names), look(h.string_maps().contigs(), &cnames))
}

pub struct ReadBack {
    pub obs: String,
    pub header: Option<vcf::Header>,
    pub recs: Vec<Rec>,
    pub end: &'static str,
    pub panic: Option<String>,
}

pub fn read_back(stream: &[u8], lazy: bool) -> ReadBack {
    let mut rd = bcf::io::Reader::from(stream);
    let h = match guarded(AssertUnwindSafe(|| rd.read_header())) {
        Outcome::Done(Ok(h)) => h,
        Outcome::Done(Err(e)) => {
            return ReadBack { obs: format!("Err:{}", errkind(&e)), header: None, recs: vec![], end: "Hdr", panic: None }
        }
        Outcome::Panicked(m) => {
            return ReadBack { obs: "Panic".into(), header: None, recs: vec![], end: "Hdr", panic: Some(format!("read_header: {m}")) }
        }
    };
    let mut recs: Vec<Rec> = Vec::new();
    let mut panic = None;
    let mut rb = RecordBuf::default();
    let mut lrec = bcf::Record::default();
    let end = loop {
        let step = guarded(AssertUnwindSafe(|| -> std::io::Result<Option<Rec>> {
            if lazy {
                if rd.read_record(&mut lrec)? == 0 {
                    return Ok(None);
                }
                let b = RecordBuf::try_from_variant_record(&h, &lrec)?;
                Ok(Some(of_buf(&b)))
            } else {
                if rd.read_record_buf(&h, &mut rb)? == 0 {
                    return Ok(None);
                }
                Ok(Some(of_buf(&rb)))
            }
        }));
        match step {
            Outcome::Done(Ok(None)) => break "Eof",
            Outcome::Done(Ok(Some(r))) => recs.push(r),
            Outcome::Done(Err(_)) => break "Err",
            Outcome::Panicked(m) => {
                panic = Some(format!("record {}: {m}", recs.len()));
                break "Panic";
            }
        }
    };
    let rs = recs.iter().map(bridge::rec_str).collect::<Vec<_>>().join("!!");
    ReadBack { obs: format!("{};R={};{}", hdr_obs(&h), rs, end), header: Some(h), recs, end, panic }
}

/// NV.Bcf.FileLazyDomain.hdr_no_chars on the header read_header returns: no INFO Character array
/// (Type=Character, Number neither 0 nor 1) and no FORMAT Character key (Number not 0); the
/// reserved definitions hold no Character key.  `-` when the header block is rejected.
fn no_chars_obs(h: &Option<vcf::Header>) -> &'static str {
    use vcf::header::record::value::map::{format, info};
    let Some(h) = h else { return "-" };
    let ichar = h.infos().values().any(|m| {
        m.ty() == info::Type::Character && !matches!(m.number(), info::Number::Count(0) | info::Number::Count(1))
    });
    let fchar = h.formats().values().any(|m| m.ty() == format::Type::Character && !matches!(m.number(), format::Number::Count(0)));
    if ichar || fchar { "0" } else { "1" }
}

fn read_obs(stream: &[u8]) -> (String, ReadBack, ReadBack) {
    let e = read_back(stream, false);
    let l = read_back(stream, true);
    (format!("E={}|L={}|NC={};A=ok", e.obs, l.obs, no_chars_obs(&e.header)), e, l)
}

// the header arguments (as `vb`)
fn idx_s(i: &Option<usize>) -> String {
    i.map(|i| i.to_string()).unwrap_or("-".into())
}
fn ty_letter(t: Ty) -> &'static str {
    match t { Ty::Int => "I", Ty::Float => "F", Ty::Flag => "B", Ty::Char => "C", Ty::Str => "S" }
}
fn defs_str(ds: &[Def]) -> String {
    if ds.is_empty() {
        return "-".into();
    }
    ds.iter().map(|d| format!("{}/{}/{}/{}", d.id, num_text(d.num), ty_letter(d.ty), idx_s(&d.idx))).collect::<Vec<_>>().join(",")
}
fn pairs_str(ps: &[(String, Option<usize>)]) -> String {
    if ps.is_empty() {
        return "-".into();
    }
    ps.iter().map(|(n, i)| format!("{n}/{}", idx_s(i))).collect::<Vec<_>>().join(",")
}
fn parse_defs(s: &str) -> Vec<Def> {
    if s == "-" {
        return vec![];
    }
    s.split(',')
        .map(|d| {
            let p: Vec<&str> = d.split('/').collect();
            Def {
                id: p[0].into(),
                num: match p[1] { "A" => Num::A, "R" => Num::R, "G" => Num::G, "." => Num::Dot, n => Num::Count(n.parse().unwrap()) },
                ty: match p[2] { "I" => Ty::Int, "F" => Ty::Float, "B" => Ty::Flag, "C" => Ty::Char, _ => Ty::Str },
                idx: if p[3] == "-" { None } else { Some(p[3].parse().unwrap()) },
            }
        })
        .collect()
}
fn parse_pairs(s: &str) -> Vec<(String, Option<usize>)> {
    if s == "-" {
        return vec![];
    }
    s.split(',').map(|d| { let (n, i) = d.split_once('/').unwrap(); (n.to_string(), if i == "-" { None } else { Some(i.parse().unwrap()) }) }).collect()
}

fn fhdr_args(f: &FHdr) -> Vec<String> {
    vec![
        format!("{}.{}", f.h.ff.0, f.h.ff.1),
        defs_str(&f.h.infos),
        pairs_str(&f.h.filters),
        defs_str(&f.h.formats),
        pairs_str(&f.h.contigs),
        f.h.samples.len().to_string(),
        if f.alts.is_empty() { "-".into() } else { f.alts.join(",") },
        if f.others.is_empty() { "-".into() } else { f.others.iter().map(|(k, v)| format!("{k}:{}", hex(v.as_bytes()))).collect::<Vec<_>>().join(",") },
    ]
}

fn fhdr_of(c: &Case) -> FHdr {
    let ff: Vec<u32> = c.args[0].split('.').map(|x| x.parse().unwrap()).collect();
    let ns: usize = c.args[5].parse().unwrap();
    FHdr {
        h: Hdr {
            ff: (ff[0], ff[1]),
            infos: parse_defs(&c.args[1]),
            filters: parse_pairs(&c.args[2]),
            formats: parse_defs(&c.args[3]),
            contigs: parse_pairs(&c.args[4]),
            samples: (0..ns).map(|i| format!("s{i}")).collect(),
        },
        alts: if c.args[6] == "-" { vec![] } else { c.args[6].split(',').map(|s| s.to_string()).collect() },
        others: if c.args[7] == "-" {
            vec![]
        } else {
            c.args[7].split(',').map(|t| { let (k, v) = t.split_once(':').unwrap(); (k.to_string(), String::from_utf8(unhex(v)).unwrap()) }).collect()
        },
    }
}

/// records the Coq models cover (Characters are ASCII; a genotype has alleles; POS >= 1)
fn in_model(r: &Rec) -> bool {
    let nonascii = |v: &Option<V>| match v {
        Some(V::C(c)) => !c.is_ascii(),
        Some(V::AC(l)) => l.iter().flatten().any(|c| !c.is_ascii()),
        _ => false,
    };
    let empty_gt = |v: &Option<V>| matches!(v, Some(V::GT(g)) if g.is_empty());
    !(r.info.iter().any(|(_, v)| nonascii(v)) || r.samples.iter().flatten().any(|v| nonascii(v) || empty_gt(v)) || r.pos == 0)
}

pub fn run_bf(c: &Case) -> Obs {
    let f = fhdr_of(c);
    let header = match parse_header(&file_header_text(&f)) {
        Ok(x) => x,
        Err(e) => return Obs::fail("-", "header-rejected", &e),
    };
    let recs: Vec<Rec> = if c.args[8] == "-" {
        vec![]
    } else {
        c.args[8].split('@').map(|t| bridge::rec_parse(t.split_once('^').unwrap().0)).collect()
    };
    let bufs: Vec<RecordBuf> = recs.iter().map(to_buf).collect();
    let stream = match write_file(&header, &bufs) {
        FW::Ok(s) => s,
        FW::Err(k) => return Obs::ok(format!("Err:{k}|-"), false),
        FW::Panic(m) => return Obs::fail("Panic|-", "bcf-file-writer-panic", &m),
    };
    let (robs, e, l) = read_obs(&stream);
    // NV.Bcf.FileBytes.file_bytes_ok on the writer's input: every string of a RecordBuf is bytes
    // and the header text is bytes by construction, so the predicate is "every record is
    // sites-only" (no FORMAT keys, no sample rows); the written stream is bytes by type.
    // ALL = NV.Bcf.FileBytesFmt.file_bytes_ok_all (per-sample values included): holds for every
    // input here, the model must compute 1
    let sites_only = recs.iter().all(|r| r.keys.is_empty() && r.samples.is_empty());
    let obs = format!("{}|{}|WB={};ok;ALL=1;ok", hex(&stream), robs, if sites_only { "1" } else { "0" });
    let mut verdict: Result<(), (String, String)> = Ok(());
    let mut fail = |t: &str, d: String| {
        if verdict.is_ok() {
            verdict = Err((t.to_string(), d));
        }
    };
    // the class of the whole file: the first record in a known class / outside the domain
    let class: Option<&'static str> = recs.iter().find_map(|r| {
        if bridge::special(r) { Some("string-special-chars") } else { outside_domain(r).or(known_class(&f.h, r)) }
    });
    let keys_no_rows = recs.iter().any(|r| !r.keys.is_empty() && r.samples.is_empty());
    let rows_mismatch = recs.iter().any(|r| r.samples.len() != f.h.samples.len());
    let flag_missing = recs.iter().any(|r| r.info.iter().any(|(k, v)| v.is_none() && f.h.infos.iter().any(|d| &d.id == k && d.ty == Ty::Flag)));
    for (name, rb) in [("eager", &e), ("lazy", &l)] {
        if let Some(m) = &rb.panic {
            fail(&format!("bcf-file-{name}-read-panic"), m.clone());
            continue;
        }
        if class.is_some() || keys_no_rows || rows_mismatch || flag_missing {
            continue;
        }
        match &rb.header {
            None => fail(&format!("bcf-file-{name}-header-unreadable"), rb.obs.clone()),
            Some(hb) => {
                if header_serialised(hb) != header_serialised(&header) {
                    fail(&format!("bcf-file-{name}-header-differs"), format!("{:?}", header_serialised(hb).map(|t| String::from_utf8_lossy(&t).to_string())));
                }
            }
        }
        if rb.end != "Eof" || rb.recs.len() != recs.len() {
            fail(&format!("bcf-file-{name}-record-loop"), format!("end {} after {} of {} records", rb.end, rb.recs.len(), recs.len()));
            continue;
        }
        for (i, (a, b)) in recs.iter().zip(rb.recs.iter()).enumerate() {
            if let Some(d) = first_diff(&canon(a), &canon(b)) {
                fail(&format!("bcf-file-{name}-record-differs"), format!("record {i}: {d}"));
                break;
            }
        }
    }
    finish(Obs::ok(obs, true), verdict)
}

pub fn run_bfx(c: &Case) -> Obs {
    let stream = c.b(1);
    let (robs, e, l) = read_obs(&stream);
    let mut verdict = Ok(());
    for (name, rb) in [("eager", &e), ("lazy", &l)] {
        if let Some(m) = &rb.panic {
            if verdict.is_ok() {
                verdict = Err((format!("bcf-file-{name}-read-panic-{}", c.args[0]), m.clone()));
            }
        }
    }
    finish(Obs::ok(robs, true), verdict)
}

// ---------------------------------------------------------------------------------------------
// generation

fn gen_fhdr(rng: &mut Rng, idxperm: bool) -> FHdr {
    let mut h = gen_header(rng, idxperm);
    // keep explicit IDX values small (the dictionaries are dumped by lookups, but the model's
    // indices are unary)
    let big = h.infos.iter().chain(h.formats.iter()).any(|d| d.idx.map(|x| x > 300).unwrap_or(false))
        || h.filters.iter().any(|f| f.1.map(|x| x > 300).unwrap_or(false));
    if big {
        for d in h.infos.iter_mut().chain(h.formats.iter_mut()) {
            d.idx = None;
        }
        for f in h.filters.iter_mut() {
            f.1 = None;
        }
    }
    let alts: Vec<String> = match rng.below(4) {
        0 => vec!["DEL".into()],
        1 => vec!["DUP".into(), "INV".into()],
        _ => vec![],
    };
    let pool = [("source", "prog v1"), ("reference", "file:///x.fa"), ("phasing", "partial"), ("note", "a=b, c")];
    let mut others: Vec<(String, String)> = Vec::new();
    for (k, v) in pool {
        if rng.chance(1, 4) {
            others.push((k.to_string(), v.to_string()));
        }
    }
    FHdr { h, alts, others }
}

fn gen_recs(rng: &mut Rng, f: &FHdr, header: &vcf::Header, n: usize, allow_special: bool) -> Option<Vec<(Rec, usize)>> {
    let mut out = Vec::new();
    for _ in 0..n {
        let profile = match rng.below(12) {
            0 => "infomissing",
            1 => "gtwild",
            2 => "fmtallmissing",
            3 if allow_special => "special",
            _ => "clean",
        };
        let mut r = gen_record(rng, &f.h, profile);
        if rng.chance(1, 20) {
            // a sites-only record under a header with samples is rejected by the readers: keep
            // it for headers without samples only
            if f.h.samples.is_empty() {
                r.keys.clear();
                r.samples.clear();
            }
        }
        if !in_model(&r) {
            continue;
        }
        let rb = to_buf(&r);
        let rlen = match guarded(AssertUnwindSafe(|| rb.variant_span(header))) {
            Outcome::Done(Ok(n)) => n,
            _ => return None,
        };
        out.push((r, rlen));
    }
    Some(out)
}

fn recs_arg(rs: &[(Rec, usize)]) -> String {
    if rs.is_empty() {
        return "-".into();
    }
    rs.iter().map(|(r, l)| format!("{}^{l}", bridge::rec_str(r))).collect::<Vec<_>>().join("@")
}

/// mutations of the header block of a written stream (all inserted bytes are ASCII)
fn mutate(rng: &mut Rng, s: &[u8]) -> Option<(String, Vec<u8>)> {
    if s.len() < 9 {
        return None;
    }
    let l_text = u32::from_le_bytes(s[5..9].try_into().unwrap()) as usize;
    if s.len() < 9 + l_text || l_text < 2 {
        return None;
    }
    let text: Vec<u8> = s[9..9 + l_text - 1].to_vec(); // without the NUL
    let tail: Vec<u8> = s[9 + l_text..].to_vec();
    let build = |pre: &[u8], l: u32, text: &[u8], nul: &[u8], tail: &[u8]| -> Vec<u8> {
        let mut v = pre.to_vec();
        v.extend(l.to_le_bytes());
        v.extend(text);
        v.extend(nul);
        v.extend(tail);
        v
    };
    let lines: Vec<Vec<u8>> = text.split(|b| *b == b'\n').filter(|l| !l.is_empty()).map(|l| l.to_vec()).collect();
    let join = |ls: &[Vec<u8>], eol: &[u8]| -> Vec<u8> {
        let mut v = Vec::new();
        for l in ls {
            v.extend(l);
            v.extend(eol);
        }
        v
    };
    let pre = &s[..5];
    Some(match rng.below(16) {
        0 => {
            // cut anywhere
            let k = rng.below(s.len() as u64) as usize;
            ("cut".into(), s[..k].to_vec())
        }
        1 => {
            // cut inside the prefix / the text
            let k = rng.below((9 + l_text).min(s.len()) as u64 + 1) as usize;
            ("cut-header".into(), s[..k].to_vec())
        }
        2 => {
            // cut inside the records
            let k = 9 + l_text + rng.below(tail.len() as u64 + 1) as usize;
            ("cut-records".into(), s[..k.min(s.len())].to_vec())
        }
        3 => {
            let mut v = s.to_vec();
            let i = rng.below(5) as usize;
            v[i] = *rng.pick(&[b'B', b'C', b'F', b'V', 0u8, 1, 2, 3, b'b']);
            ("magic-version".into(), v)
        }
        4 => {
            // l_text smaller / larger than the text
            let d = rng.range(1, 40) as i64 * if rng.chance(1, 2) { 1 } else { -1 };
            let l = (l_text as i64 + d).max(0) as u32;
            ("l-text".into(), build(pre, l, &text, &[0], &tail))
        }
        5 => {
            // NUL padding after the text
            let pad = rng.range(1, 9) as usize;
            ("nul-padding".into(), build(pre, (l_text + pad) as u32, &text, &vec![0u8; pad + 1], &tail))
        }
        6 => {
            // a NUL at the start of a line
            let k = rng.below(lines.len() as u64 + 1) as usize;
            let mut t = join(&lines[..k], b"\n");
            t.push(0);
            t.extend(join(&lines[k..], b"\n"));
            ("nul-at-line-start".into(), build(pre, (t.len() + 1) as u32, &t, &[0], &tail))
        }
        7 => {
            // a NUL inside a line
            let mut t = text.clone();
            let k = rng.below(t.len() as u64) as usize;
            t.insert(k, 0);
            ("nul-inside".into(), build(pre, (t.len() + 1) as u32, &t, &[0], &tail))
        }
        8 => {
            // CR LF line ends (all lines or one)
            let t = if rng.chance(1, 2) {
                join(&lines, b"\r\n")
            } else {
                let k = rng.below(lines.len() as u64) as usize;
                let mut t = join(&lines[..k], b"\n");
                t.extend(&lines[k]);
                t.extend(b"\r\n");
                t.extend(join(&lines[k + 1..], b"\n"));
                t
            };
            ("crlf".into(), build(pre, (t.len() + 1) as u32, &t, &[0], &tail))
        }
        9 => {
            // a line removed (often the #CHROM line)
            let k = if rng.chance(1, 2) { lines.len() - 1 } else { rng.below(lines.len() as u64) as usize };
            let mut ls = lines.clone();
            ls.remove(k);
            let t = join(&ls, b"\n");
            ("line-removed".into(), build(pre, (t.len() + 1) as u32, &t, &[0], &tail))
        }
        10 => {
            // two lines swapped (the order of appearance is the order of the dictionary)
            let mut ls = lines.clone();
            if ls.len() >= 3 {
                let a = rng.range(1, ls.len() as u64 - 1) as usize;
                let b = rng.range(1, ls.len() as u64 - 1) as usize;
                ls.swap(a, b);
            }
            let t = join(&ls, b"\n");
            ("lines-swapped".into(), build(pre, (t.len() + 1) as u32, &t, &[0], &tail))
        }
        11 => {
            // a line duplicated or an extra line after #CHROM / an empty line
            let mut ls = lines.clone();
            match rng.below(3) {
                0 => {
                    let k = rng.below(ls.len() as u64) as usize;
                    let l = ls[k].clone();
                    ls.insert(k, l);
                }
                1 => ls.push(b"##late=1".to_vec()),
                _ => {
                    let k = rng.below(ls.len() as u64 + 1) as usize;
                    ls.insert(k, vec![]);
                }
            }
            let t = join(&ls, b"\n");
            ("line-added".into(), build(pre, (t.len() + 1) as u32, &t, &[0], &tail))
        }
        12 => {
            // the last LF missing / no NUL
            let mut t = text.clone();
            if rng.chance(1, 2) {
                t.pop();
                ("last-lf-missing".into(), build(pre, (t.len() + 1) as u32, &t, &[0], &tail))
            } else {
                ("no-nul".into(), build(pre, t.len() as u32, &t, &[], &tail))
            }
        }
        13 => {
            // an ASCII byte of the text replaced
            let mut t = text.clone();
            let k = rng.below(t.len() as u64) as usize;
            t[k] = *rng.pick(&[b'#', b'=', b'<', b'>', b',', b'"', b'\\', b'\t', b' ', b'0', b'X', b'\n', b'\r']);
            ("byte-replaced".into(), build(pre, (t.len() + 1) as u32, &t, &[0], &tail))
        }
        14 => {
            // the record framing: l_shared = 0, or a length changed
            let mut v = s.to_vec();
            let o = 9 + l_text;
            if v.len() >= o + 8 {
                match rng.below(3) {
                    0 => v[o..o + 4].copy_from_slice(&0u32.to_le_bytes()),
                    1 => {
                        let x = u32::from_le_bytes(v[o..o + 4].try_into().unwrap());
                        v[o..o + 4].copy_from_slice(&(x.wrapping_add(rng.range(1, 5) as u32)).to_le_bytes());
                    }
                    _ => v[o + 4..o + 8].copy_from_slice(&(rng.next() as u32).to_le_bytes()),
                }
            }
            ("frame".into(), v)
        }
        _ => {
            // only the header text, cut short with l_text kept (the repaired short-read check)
            let k = rng.below(text.len() as u64 + 1) as usize;
            ("short-text".into(), build(pre, l_text as u32, &text[..k], &[], &[]))
        }
    })
}

pub fn gen_bf(rng: &mut Rng, tier: &str, w: &mut CaseWriter) {
    let thorough = tier == "thorough";
    let n_bf = if thorough { 6000 } else { 450 };
    let n_bfx = if thorough { 24000 } else { 1600 };
    let mut streams: Vec<Vec<u8>> = Vec::new();
    let mut made = 0;
    let mut tries = 0;
    while made < n_bf && tries < 4 * n_bf {
        tries += 1;
        let f = gen_fhdr(rng, made % 9 == 0);
        let header = match parse_header(&file_header_text(&f)) { Ok(x) => x, Err(_) => continue };
        let n = *rng.pick(&[0usize, 1, 1, 2, 3, 5]);
        let rs = match gen_recs(rng, &f, &header, n, made % 7 == 3) { Some(x) => x, None => continue };
        let mut args = fhdr_args(&f);
        args.push(recs_arg(&rs));
        w.push("bf", args);
        made += 1;
        if streams.len() < 400 {
            let bufs: Vec<RecordBuf> = rs.iter().map(|(r, _)| to_buf(r)).collect();
            if let FW::Ok(s) = write_file(&header, &bufs) {
                streams.push(s);
            }
        }
    }
    if streams.is_empty() {
        return;
    }
    // every cut point of the prefix of one stream (exhaustive), then random mutations
    let s0 = streams[0].clone();
    let upto = if thorough { s0.len() } else { s0.len().min(160) };
    for k in 0..upto {
        w.push("bfx", vec!["cut-sweep".into(), hex(&s0[..k])]);
    }
    for i in 0..n_bfx {
        let s = &streams[i % streams.len()];
        if let Some((label, v)) = mutate(rng, s) {
            w.push("bfx", vec![label, hex(&v)]);
        }
    }
}
