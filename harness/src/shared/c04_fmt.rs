//! C04, modelled file-level kinds: real BAM / BCF / VCF.gz files whose records AND virtual offsets
//! are part of the case text, so that the extracted Coq model (NV.Index.Formats /
//! NV.Index.FormatsVcf) predicts, record by record, what the real readers return.
//!
//!   bamq  lin|bin ms d nref h0 recs queries
//!         recs    = rid:pos:cigar:unm:n:a:b,...   in file order
//!                   rid, pos "-" = none; cigar k.l/k.l/... (BAM kind codes) or "_"; unm 0|1 (flag
//!                   0x4); n = read length when the CIGAR is empty; a, b = virtual positions
//!                   before / after the record as the real bam::io::Reader reports them
//!         h0      = virtual position of the first record (end of the header)
//!         queries = k:s:e;...;U      s, e "-" = unbounded; U = query_unmapped
//!         obs     = IxErr | IxPanic | ok|<answer>|<answer>...   answer = start offsets of the returned
//!                   records, or Err:<kind>
//!
//! `generate` writes each file with the real writer and reads it back to learn the offsets; `run`
//! writes the same file again (checks the offsets), indexes it with the real indexer
//! (bam::fs::index on the file for `lin`; the bam/fs/index.rs loop over Indexer<BinnedIndex> for
//! `bin`) and runs Reader::query / Reader::query_unmapped.

use std::{
    fs,
    io::{self, Cursor},
    num::NonZero,
    panic::AssertUnwindSafe,
};

use noodles_bam as bam;
use noodles_bcf as bcf;
use noodles_bgzf as bgzf;
use noodles_vcf::{
    self as vcf,
    variant::{
        Record as _,
        io::Write as _,
        record_buf::{
            AlternateBases, Ids, Info, Samples,
            info::field::{Value as IV, value::Array as IA},
            samples::{Keys, sample::Value as SV},
        },
    },
};
use noodles_core::{Position, Region, region::Interval};
use noodles_csi::{
    self as csi, BinningIndex,
    binning_index::{
        Indexer,
        index::reference_sequence::{bin::Chunk, index::BinnedIndex},
    },
};
use noodles_sam::{
    self as sam,
    alignment::{
        Record as _, RecordBuf,
        io::Write as _,
        record::{
            Flags,
            cigar::{Op, op::Kind},
        },
        record_buf::{Cigar, Sequence},
    },
    header::record::value::{
        Map,
        map::{
            self, ReferenceSequence,
            header::{sort_order::COORDINATE, tag::SORT_ORDER},
        },
    },
};
use nv::{Case, CaseWriter, Obs, Outcome, Rng, errkind, guarded};

const GEOMS: &[(u64, u64)] = &[(14, 5), (14, 5), (14, 6), (12, 5), (15, 4), (10, 5), (13, 5)];
const KINDS: [Kind; 9] = [
    Kind::Match, Kind::Insertion, Kind::Deletion, Kind::Skip, Kind::SoftClip,
    Kind::HardClip, Kind::Pad, Kind::SequenceMatch, Kind::SequenceMismatch,
];

fn pos(n: u64) -> Position {
    Position::try_from(n as usize).expect("position")
}

#[derive(Clone, Debug)]
pub struct MRec {
    rid: Option<u64>,
    pos: Option<u64>,
    cigar: Vec<(u8, u64)>,
    unm: bool,
    n: u64,
    a: u64,
    b: u64,
}

impl MRec {
    fn ref_len(&self) -> u64 {
        self.cigar.iter().filter(|(k, _)| matches!(k, 0 | 2 | 3 | 7 | 8)).map(|(_, l)| *l).sum()
    }
    fn read_len(&self) -> u64 {
        if self.cigar.is_empty() {
            self.n
        } else {
            self.cigar.iter().filter(|(k, _)| matches!(k, 0 | 1 | 4 | 7 | 8)).map(|(_, l)| *l).sum()
        }
    }
    /// span per the specification
    fn span(&self) -> Option<(u64, u64)> {
        let s = self.pos?;
        let l = self.ref_len();
        Some((s, if l == 0 { s } else { s + l - 1 }))
    }
    fn placed(&self) -> bool {
        self.rid.is_some() && self.pos.is_some()
    }
}

fn fmt_recs(rs: &[MRec]) -> String {
    if rs.is_empty() {
        return "_".into();
    }
    rs.iter()
        .map(|r| {
            let o = |x: Option<u64>| x.map(|v| v.to_string()).unwrap_or("-".into());
            let cg = if r.cigar.is_empty() {
                "_".to_string()
            } else {
                r.cigar.iter().map(|(k, l)| format!("{k}.{l}")).collect::<Vec<_>>().join("/")
            };
            format!("{}:{}:{}:{}:{}:{}:{}", o(r.rid), o(r.pos), cg, r.unm as u8, r.n, r.a, r.b)
        })
        .collect::<Vec<_>>()
        .join(",")
}

fn parse_recs(s: &str) -> Vec<MRec> {
    if s == "_" {
        return vec![];
    }
    s.split(',')
        .map(|p| {
            let f: Vec<&str> = p.split(':').collect();
            let o = |x: &str| if x == "-" { None } else { Some(x.parse::<u64>().unwrap()) };
            MRec {
                rid: o(f[0]),
                pos: o(f[1]),
                cigar: if f[2] == "_" {
                    vec![]
                } else {
                    f[2].split('/')
                        .map(|op| {
                            let (k, l) = op.split_once('.').unwrap();
                            (k.parse().unwrap(), l.parse().unwrap())
                        })
                        .collect()
                },
                unm: f[3] == "1",
                n: f[4].parse().unwrap(),
                a: f[5].parse().unwrap(),
                b: f[6].parse().unwrap(),
            }
        })
        .collect()
}

fn bam_header(nref: usize, reflen: u64) -> sam::Header {
    let mut b = sam::Header::builder().set_header(
        Map::<map::Header>::builder().insert(SORT_ORDER, COORDINATE).build().expect("hd"),
    );
    for k in 0..nref {
        b = b.add_reference_sequence(
            format!("r{k}"),
            Map::<ReferenceSequence>::new(NonZero::new(reflen as usize).unwrap()),
        );
    }
    b.build()
}

/// the file, written by the real writer; record i is named "i"
fn build_bam(nref: usize, reflen: u64, recs: &[MRec]) -> io::Result<Vec<u8>> {
    let header = bam_header(nref, reflen);
    let mut w = bam::io::Writer::new(Vec::new());
    w.write_header(&header)?;
    for (i, r) in recs.iter().enumerate() {
        let mut b = RecordBuf::default();
        *b.name_mut() = Some(i.to_string().into());
        *b.flags_mut() = Flags::from(if r.unm { 4u16 } else { 0 });
        *b.reference_sequence_id_mut() = r.rid.map(|x| x as usize);
        *b.alignment_start_mut() = r.pos.map(pos);
        *b.cigar_mut() = r.cigar.iter().map(|(k, l)| Op::new(KINDS[*k as usize], *l as usize)).collect::<Cigar>();
        let n = r.read_len() as usize;
        // a sequence that does not compress to nothing, so that files span several BGZF blocks
        let mut x = (i as u64).wrapping_mul(0x9E3779B97F4A7C15) | 1;
        let seq: Vec<u8> = (0..n)
            .map(|_| {
                x ^= x << 13;
                x ^= x >> 7;
                x ^= x << 17;
                b"ACGT"[(x & 3) as usize]
            })
            .collect();
        *b.sequence_mut() = Sequence::from(seq);
        w.write_alignment_record(&header, &b)?;
    }
    w.try_finish()?;
    Ok(w.into_inner().into_inner())
}

/// virtual position of the first record and [before, after) of every record, by a real scan
fn bam_offsets(data: &[u8]) -> io::Result<(u64, Vec<(u64, u64)>)> {
    let mut reader = bam::io::Reader::new(data);
    reader.read_header()?;
    let h0 = u64::from(reader.get_ref().virtual_position());
    let mut out = Vec::new();
    let mut record = bam::Record::default();
    let mut start = h0;
    while reader.read_record(&mut record)? != 0 {
        let end = u64::from(reader.get_ref().virtual_position());
        out.push((start, end));
        start = end;
    }
    Ok((h0, out))
}

fn bam_csi_index(data: &[u8], ms: u8, d: u8) -> io::Result<csi::Index> {
    let mut reader = bam::io::Reader::new(data);
    let header = reader.read_header()?;
    let mut ix = Indexer::<BinnedIndex>::new(ms, d);
    let mut record = bam::Record::default();
    let mut start = reader.get_ref().virtual_position();
    while reader.read_record(&mut record)? != 0 {
        let end = reader.get_ref().virtual_position();
        let ctx = match (
            record.reference_sequence_id().transpose()?,
            record.alignment_start().transpose()?,
            record.alignment_end().transpose()?,
        ) {
            (Some(id), Some(s), Some(e)) => Some((id, s, e, !record.flags().is_unmapped())),
            _ => None,
        };
        ix.add_record(ctx, Chunk::new(start, end))?;
        start = end;
    }
    Ok(ix.build(header.reference_sequences().len()))
}

#[derive(Clone, Debug)]
enum Qy {
    Region(u64, Option<u64>, Option<u64>),
    Unmapped,
}

fn fmt_queries(qs: &[Qy]) -> String {
    qs.iter()
        .map(|q| match q {
            Qy::Unmapped => "U".to_string(),
            Qy::Region(k, s, e) => {
                let o = |x: &Option<u64>| x.map(|v| v.to_string()).unwrap_or("-".into());
                format!("{k}:{}:{}", o(s), o(e))
            }
        })
        .collect::<Vec<_>>()
        .join(";")
}

fn parse_queries(s: &str) -> Vec<Qy> {
    s.split(';')
        .map(|q| {
            if q == "U" {
                Qy::Unmapped
            } else {
                let f: Vec<&str> = q.split(':').collect();
                let o = |x: &str| if x == "-" { None } else { Some(x.parse::<u64>().unwrap()) };
                Qy::Region(f[0].parse().unwrap(), o(f[1]), o(f[2]))
            }
        })
        .collect()
}

fn interval(s: Option<u64>, e: Option<u64>) -> Interval {
    match (s, e) {
        (None, None) => (..).into(),
        (Some(a), None) => (pos(a)..).into(),
        (None, Some(b)) => (..=pos(b)).into(),
        (Some(a), Some(b)) => (pos(a)..=pos(b)).into(),
    }
}

// ---------------------------------------------------------------------------------------------
// generation

fn edge_point(rng: &mut Rng, ms: u64, d: u64, maxp: u64) -> u64 {
    let lvl = rng.below(d + 1);
    let w = 1u64 << (ms + 3 * lvl);
    let edge = rng.below(maxp / w + 1) * w;
    match rng.below(4) {
        0 => rng.range(1, maxp),
        _ => (edge as i64 + rng.range(0, 4) as i64 - 2).clamp(1, maxp as i64) as u64,
    }
}

fn gen_cigar(rng: &mut Rng, span: u64, fat: bool) -> Vec<(u8, u64)> {
    // reference-consuming part of total length `span`, interleaved with non-consuming operations
    let mut ops: Vec<(u8, u64)> = Vec::new();
    if rng.chance(1, 3) {
        ops.push((5, rng.range(1, 50)));
    }
    if rng.chance(1, 2) {
        ops.push((4, if fat { rng.range(2000, 30000) } else { rng.range(1, 40) }));
    }
    let mut left = span;
    while left > 0 {
        let kind = *rng.pick(&[0u8, 0, 2, 3, 7, 8]);
        let cap = match kind {
            0 | 7 | 8 => 300, // these consume read bases too: keep the sequence small
            _ => (1 << 28) - 1,
        };
        let l = left.min(cap).min(if rng.chance(1, 2) { left } else { rng.range(1, left) });
        ops.push((kind, l));
        left -= l;
        if left > 0 && rng.chance(1, 3) {
            ops.push((*rng.pick(&[1u8, 6]), rng.range(1, 30)));
        }
        if ops.len() > 40 {
            ops.push((3, left.min((1 << 28) - 1)));
            left -= left.min((1 << 28) - 1);
        }
    }
    if rng.chance(1, 3) {
        ops.push((4, rng.range(1, 40)));
    }
    ops
}

fn gen_bamq(rng: &mut Rng, w: &mut CaseWriter) {
    let binned = rng.chance(1, 2);
    let (ms, d) = if binned { *rng.pick(GEOMS) } else { (14, 5) };
    let maxp = ((1u64 << (ms + 3 * d)) - 1).min((1 << 29) - 1);
    let nref = rng.range(1, 4) as usize;
    let n = match rng.below(5) {
        0 => rng.range(0, 3),
        1 => rng.range(3, 10),
        _ => rng.range(8, 45),
    };
    let fat_every = if rng.chance(1, 2) { rng.range(2, 6) } else { 0 };
    let exotic = rng.chance(1, 6);
    let mut recs: Vec<MRec> = Vec::new();
    let mut rid = if rng.chance(1, 4) { rng.below(nref as u64) } else { 0 };
    let focus = edge_point(rng, ms, d, maxp);
    let mut s = if rng.chance(1, 2) { focus.saturating_sub(rng.below(1 << 16)).max(1) } else { rng.range(1, maxp) };
    if !(rng.chance(1, 12)) {
        for i in 0..n {
            if rid + 1 < nref as u64 && rng.chance(1, 8) {
                rid += rng.range(1, nref as u64 - rid - 1);
                s = edge_point(rng, ms, d, maxp);
            } else if exotic && rid > 0 && rng.chance(1, 25) {
                rid -= 1; // not sorted by reference: the indexer must refuse the file
            }
            s = (s + match rng.below(4) {
                0 => 0,
                1 => rng.below(50),
                2 => rng.below(1 << 14),
                _ => {
                    let sh = rng.below(12);
                    rng.below(1 + (maxp >> sh))
                }
            })
            .min(maxp);
            let span = match rng.below(7) {
                0 => 0,
                1 => rng.below(200),
                2 => rng.below(1 << 14),
                3 => (1u64 << (ms + 3 * rng.below(d + 1)).min(28)) + rng.below(3),
                4 => rng.below(maxp),
                _ => rng.below(2000),
            };
            let span = span.min(maxp - s + 1);
            let fat = fat_every > 0 && i % fat_every == 0;
            let cigar = if span == 0 && rng.chance(1, 2) { vec![] } else { gen_cigar(rng, span, fat) };
            let mut r = MRec {
                rid: Some(rid),
                pos: Some(s),
                cigar,
                unm: rng.chance(1, 10),
                n: if fat { rng.range(2000, 30000) } else { rng.below(40) },
                a: 0,
                b: 0,
            };
            if exotic && rng.chance(1, 12) {
                // a reference without a position / a position without a reference
                if rng.chance(1, 2) {
                    r.pos = None;
                } else {
                    r.rid = None;
                }
            }
            recs.push(r);
        }
    }
    for _ in 0..rng.below(6) {
        recs.push(MRec {
            rid: None,
            pos: None,
            cigar: vec![],
            unm: !rng.chance(1, 8),
            n: if fat_every > 0 && rng.chance(1, 2) { rng.range(2000, 30000) } else { rng.below(40) },
            a: 0,
            b: 0,
        });
    }
    if exotic && rng.chance(1, 3) && !recs.is_empty() {
        // a placed record after the unplaced tail
        recs.push(MRec { rid: Some(nref as u64 - 1), pos: Some(maxp), cigar: vec![], unm: rng.chance(1, 2), n: 3, a: 0, b: 0 });
    }
    let built = guarded(AssertUnwindSafe(|| -> io::Result<(u64, Vec<(u64, u64)>)> {
        let data = build_bam(nref, maxp, &recs)?;
        bam_offsets(&data)
    }));
    let (h0, offs) = match built {
        Outcome::Done(Ok(x)) if x.1.len() == recs.len() => x,
        _ => return, // the writer refused the file: not a case for this kind
    };
    for (r, (a, b)) in recs.iter_mut().zip(offs) {
        r.a = a;
        r.b = b;
    }
    let mut qs: Vec<Qy> = Vec::new();
    for _ in 0..rng.range(5, 11) {
        let k = rng.below(nref as u64);
        let placed: Vec<&MRec> = recs.iter().filter(|r| r.placed()).collect();
        let q = match rng.below(8) {
            0 => (None, None),
            1 => (Some(edge_point(rng, ms, d, maxp)), None),
            2 => (None, Some(edge_point(rng, ms, d, maxp))),
            3 | 4 if !placed.is_empty() => {
                let r = *rng.pick(&placed);
                let (s, e) = r.span().unwrap();
                let e = e.min(maxp);
                let j = |rng: &mut Rng, x: u64| (x as i64 + rng.range(0, 4) as i64 - 2).clamp(1, maxp as i64) as u64;
                match rng.below(4) {
                    0 => {
                        let a = j(rng, e);
                        (Some(a), Some((a + rng.below(1 << 14)).min(maxp)))
                    }
                    1 => {
                        let b = j(rng, s);
                        (Some(b.saturating_sub(rng.below(1 << 14)).max(1)), Some(b))
                    }
                    2 => {
                        let p = j(rng, e);
                        (Some(p), Some(p))
                    }
                    _ => {
                        let p = j(rng, s);
                        (Some(p), Some(p))
                    }
                }
            }
            5 => {
                let lvl = rng.below(d + 1);
                let wd = 1u64 << (ms + 3 * lvl);
                let i = rng.below(maxp / wd + 1);
                (Some((i * wd + 1).min(maxp)), Some(((i + 1) * wd).min(maxp)))
            }
            6 if rng.chance(1, 3) => {
                // beyond the index range: must be refused
                let full = (1u64 << (ms + 3 * d)) - 1;
                (Some(edge_point(rng, ms, d, maxp)), Some(full + rng.range(1, 3)))
            }
            _ => {
                let a = edge_point(rng, ms, d, maxp);
                {
                    let sh = rng.below(16);
                    (Some(a), Some((a + rng.below(1 + (maxp >> sh))).min(maxp)))
                }
            }
        };
        let q = match q {
            (Some(a), Some(b)) if a > b => (Some(b), Some(a)),
            x => x,
        };
        qs.push(Qy::Region(k, q.0, q.1));
        if rng.chance(1, 6) {
            qs.push(Qy::Unmapped);
        }
    }
    qs.push(Qy::Unmapped);
    w.push(
        "bamq",
        vec![
            if binned { "bin" } else { "lin" }.into(),
            ms.to_string(),
            d.to_string(),
            nref.to_string(),
            h0.to_string(),
            fmt_recs(&recs),
            fmt_queries(&qs),
        ],
    );
}

pub fn generate(rng: &mut Rng, tier: &str, w: &mut CaseWriter) {
    let n = if tier == "thorough" { 2500 } else { 120 };
    for _ in 0..n {
        gen_bamq(rng, w);
    }
    let n = if tier == "thorough" { 2500 } else { 120 };
    for _ in 0..n {
        gen_vcfq(rng, w);
    }
    let n = if tier == "thorough" { 2000 } else { 100 };
    for _ in 0..n {
        gen_bamc(rng, w);
    }
}

// ---------------------------------------------------------------------------------------------
// running

fn names_to_offsets(names: Vec<String>, recs: &[MRec]) -> String {
    if names.is_empty() {
        return "_".into();
    }
    names
        .iter()
        .map(|n| n.parse::<usize>().ok().and_then(|i| recs.get(i)).map(|r| r.a.to_string()).unwrap_or("?".into()))
        .collect::<Vec<_>>()
        .join(",")
}

fn rec_name(r: &bam::Record) -> String {
    r.name().map(|n| String::from_utf8_lossy(n.as_ref()).into_owned()).unwrap_or_default()
}

fn bam_answer<I: BinningIndex>(data: &[u8], index: &I, q: &Qy) -> Outcome<io::Result<Vec<String>>> {
    guarded(AssertUnwindSafe(|| -> io::Result<Vec<String>> {
        let mut reader = bam::io::Reader::new(Cursor::new(data));
        let header = reader.read_header()?;
        match q {
            Qy::Unmapped => reader.query_unmapped(index)?.map(|r| r.map(|r| rec_name(&r))).collect(),
            Qy::Region(k, s, e) => {
                let region = Region::new(format!("r{k}"), interval(*s, *e));
                let query = reader.query(&header, index, &region)?;
                query.records().map(|r| r.map(|r| rec_name(&r))).collect()
            }
        }
    }))
}

struct Judge {
    verdict: Result<(), (String, String)>,
    nontrivial: bool,
}

impl Judge {
    fn fail(&mut self, tag: &str, detail: String) {
        if self.verdict.is_ok() {
            self.verdict = Err((tag.to_string(), detail));
        }
    }
}

/// the property evaluated on the implementation: region answer == scan filter by the
/// specification's span; unmapped answer: only flagged records, every unplaced flagged one, file order
fn judge_bam(j: &mut Judge, label: &str, recs: &[MRec], q: &Qy, got: &[String], maxq: u64) {
    let got: Vec<usize> = got.iter().filter_map(|n| n.parse().ok()).collect();
    match q {
        Qy::Region(k, s, e) => {
            let lo = s.unwrap_or(1);
            let hi = e.unwrap_or(u64::MAX);
            if hi != u64::MAX && hi > maxq {
                return;
            }
            let want: Vec<usize> = recs
                .iter()
                .enumerate()
                .filter(|(_, r)| r.rid == Some(*k) && r.span().map(|(rs, re)| rs <= hi && lo <= re).unwrap_or(false))
                .map(|(i, _)| i)
                .collect();
            if want != got {
                let cls = if want.iter().any(|i| !got.contains(i)) {
                    "missing-record"
                } else if got.iter().any(|i| !want.contains(i)) {
                    if got.iter().any(|i| !want.contains(i) && recs[*i].rid.is_some() && recs[*i].pos.is_none()) {
                        "returns-read-with-reference-but-no-position"
                    } else {
                        "extra-record"
                    }
                } else {
                    "order-or-duplicate"
                };
                j.fail(&format!("bamq-{label}-{cls}"), format!("region r{k}:{s:?}-{e:?} scan={want:?} query={got:?}"));
            }
            let on_ref = recs.iter().filter(|r| r.rid == Some(*k)).count();
            if !want.is_empty() && want.len() < on_ref {
                j.nontrivial = true;
            }
        }
        Qy::Unmapped => {
            if let Some(i) = got.iter().find(|i| !recs[**i].unm) {
                j.fail(&format!("bamq-{label}-unmapped-query-returns-mapped-record"), format!("record {i}"));
            }
            if got.windows(2).any(|w| w[0] >= w[1]) {
                j.fail(&format!("bamq-{label}-unmapped-query-order-or-duplicate"), format!("{got:?}"));
            }
            // the statement is about coordinate-sorted files: unplaced records last
            let sorted = recs.iter().skip_while(|r| r.placed()).all(|r| !r.placed());
            if sorted {
                for (i, r) in recs.iter().enumerate() {
                    if !r.placed() && r.unm && !got.contains(&i) {
                        j.fail(&format!("bamq-{label}-unmapped-query-misses-unplaced-record"), format!("record {i} of {got:?}"));
                        break;
                    }
                }
                if recs.iter().any(|r| !r.placed() && r.unm) && recs.iter().any(|r| r.placed()) {
                    j.nontrivial = true;
                }
            }
        }
    }
}

fn run_bamq(c: &Case) -> Obs {
    let binned = c.args[0] == "bin";
    let (ms, d, nref) = (c.u(1) as u8, c.u(2) as u8, c.u(3) as usize);
    let h0 = c.u(4);
    let recs = parse_recs(&c.args[5]);
    let queries = parse_queries(&c.args[6]);
    let full = (1u64 << (ms as u64 + 3 * d as u64)) - 1;
    let maxp = full.min((1 << 29) - 1);
    let data = match guarded(AssertUnwindSafe(|| build_bam(nref, maxp, &recs))) {
        Outcome::Done(Ok(x)) => x,
        Outcome::Done(Err(e)) => return Obs::fail("-", "bamq-write-error", format!("{e}")),
        Outcome::Panicked(m) => return Obs::fail("-", "bamq-write-panic", m),
    };
    match guarded(AssertUnwindSafe(|| bam_offsets(&data))) {
        Outcome::Done(Ok((h, offs))) => {
            let want: Vec<(u64, u64)> = recs.iter().map(|r| (r.a, r.b)).collect();
            if h != h0 || offs != want {
                return Obs::fail("-", "harness-bamq-offsets-differ-from-case", format!("h0 {h} vs {h0}"));
            }
        }
        Outcome::Done(Err(e)) => return Obs::fail("-", "bamq-scan-error", format!("{e}")),
        Outcome::Panicked(m) => return Obs::fail("-", "bamq-scan-panic", m),
    }
    let mut j = Judge { verdict: Ok(()), nontrivial: false };
    let mut obs = String::from("ok");
    macro_rules! answers {
        ($index:expr, $label:expr) => {{
            for q in &queries {
                obs.push('|');
                match bam_answer(&data, $index, q) {
                    Outcome::Done(Ok(names)) => {
                        judge_bam(&mut j, $label, &recs, q, &names, full);
                        obs.push_str(&names_to_offsets(names, &recs));
                    }
                    Outcome::Done(Err(e)) => {
                        let in_range = match q {
                            Qy::Region(_, s, e) => s.unwrap_or(1) <= full && e.unwrap_or(1) <= full,
                            Qy::Unmapped => true,
                        };
                        if in_range {
                            j.fail(&format!("bamq-{}-query-error", $label), format!("{q:?}: {e}"));
                        }
                        obs.push_str(&format!("Err:{}", errkind(&e)));
                    }
                    Outcome::Panicked(m) => {
                        j.fail(&format!("bamq-{}-query-panic", $label), format!("{q:?}: {m}"));
                        obs.push_str("Panic");
                    }
                }
            }
        }};
    }
    let rids_sorted = {
        let mut cur = 0u64;
        recs.iter().filter(|r| r.placed()).all(|r| {
            let ok = r.rid.unwrap() >= cur;
            cur = r.rid.unwrap();
            ok
        })
    };
    if binned {
        match guarded(AssertUnwindSafe(|| bam_csi_index(&data, ms, d))) {
            Outcome::Done(Ok(index)) => answers!(&index, "csi"),
            Outcome::Done(Err(e)) => {
                if rids_sorted {
                    j.fail("bamq-csi-index-build-fails", format!("{e}"));
                }
                obs = "IxErr".into();
            }
            Outcome::Panicked(m) => return Obs::fail("Panic", "bamq-csi-index-panic", m),
        }
    } else {
        let dir = std::env::temp_dir().join(format!("nv-c04q-{}-{}", std::process::id(), c.id));
        let _ = fs::remove_dir_all(&dir);
        if let Err(e) = fs::create_dir_all(&dir).and_then(|_| fs::write(dir.join("f.bam"), &data)) {
            return Obs::fail("-", "harness-tempdir", format!("{e}"));
        }
        let r = guarded(AssertUnwindSafe(|| bam::fs::index(dir.join("f.bam"))));
        let _ = fs::remove_dir_all(&dir);
        match r {
            Outcome::Done(Ok(index)) => answers!(&index, "bai"),
            Outcome::Done(Err(e)) => {
                if rids_sorted {
                    j.fail("bamq-bai-index-build-fails", format!("{e}"));
                }
                obs = "IxErr".into();
            }
            Outcome::Panicked(m) => return Obs::fail("Panic", "bamq-bai-index-panic", m),
        }
    }
    Obs::ok(obs, j.nontrivial).with_verdict(j.verdict)
}

// ---------------------------------------------------------------------------------------------
// bamc: the reading step alone.  csi::io::Query over the real bgzf::io::Reader, wrapped in
// bam::io::Reader, is given an ARBITRARY chunk list (starts and ends at record boundaries -- the
// reader tests the end at every fill_buf, also in the middle of a record -- or ends beyond the data;
// unsorted, overlapping, empty and repeated chunks included -- lists no index would produce) and
// must yield, chunk by chunk, the records whose start offset lies in the chunk, which is what
// NV.Index.Formats.chunk_read_f says.
//   bamc  nref eof recs chunks      eof = offset after the last record; chunks = a:b;a:b;...
//         obs = start offsets of the records read

fn gen_bamc(rng: &mut Rng, w: &mut CaseWriter) {
    let nref = 2usize;
    let n = rng.range(1, 30);
    let fat_every = rng.range(2, 5);
    let mut recs: Vec<MRec> = (0..n)
        .map(|i| MRec {
            rid: Some(0),
            pos: Some(1 + i * 10),
            cigar: vec![],
            unm: false,
            n: if i % fat_every == 0 { rng.range(2000, 40000) } else { rng.below(60) },
            a: 0,
            b: 0,
        })
        .collect();
    let built = guarded(AssertUnwindSafe(|| -> io::Result<(u64, Vec<(u64, u64)>)> {
        let data = build_bam(nref, (1 << 29) - 1, &recs)?;
        bam_offsets(&data)
    }));
    let (_, offs) = match built {
        Outcome::Done(Ok(x)) if x.1.len() == recs.len() => x,
        _ => return,
    };
    for (r, (a, b)) in recs.iter_mut().zip(offs) {
        r.a = a;
        r.b = b;
    }
    let bounds: Vec<u64> = recs.iter().map(|r| r.a).chain(recs.last().map(|r| r.b)).collect();
    let mut chunks = Vec::new();
    for _ in 0..rng.range(1, 6) {
        let i = rng.below(recs.len() as u64) as usize;
        let a = bounds[i];
        let b = match rng.below(6) {
            0 => a,                                   // empty
            1 => a.saturating_sub(rng.range(1, 1000)), // end before start
            2 | 3 => bounds[rng.below(bounds.len() as u64) as usize], // any boundary, also before the start
            4 => u64::MAX >> 1,
            _ => bounds[rng.range(i as u64, bounds.len() as u64 - 1) as usize],
        };
        chunks.push(format!("{a}:{b}"));
    }
    let eof = recs.last().map(|r| r.b).unwrap_or(0);
    w.push("bamc", vec![nref.to_string(), eof.to_string(), fmt_recs(&recs), chunks.join(";")]);
}

fn run_bamc(c: &Case) -> Obs {
    let nref = c.u(0) as usize;
    let eof = c.u(1);
    let recs = parse_recs(&c.args[2]);
    if recs.last().map(|r| r.b) != Some(eof) {
        return Obs::fail("-", "harness-bamc-eof-differs-from-case", "");
    }
    let chunks: Vec<(u64, u64)> = c.args[3]
        .split(';')
        .map(|p| {
            let (a, b) = p.split_once(':').unwrap();
            (a.parse().unwrap(), b.parse().unwrap())
        })
        .collect();
    let data = match guarded(AssertUnwindSafe(|| build_bam(nref, (1 << 29) - 1, &recs))) {
        Outcome::Done(Ok(x)) => x,
        _ => return Obs::fail("-", "bamc-write-error", ""),
    };
    match guarded(AssertUnwindSafe(|| bam_offsets(&data))) {
        Outcome::Done(Ok((_, offs))) if offs == recs.iter().map(|r| (r.a, r.b)).collect::<Vec<_>>() => {}
        _ => return Obs::fail("-", "harness-bamc-offsets-differ-from-case", ""),
    }
    let r = guarded(AssertUnwindSafe(|| -> io::Result<Vec<String>> {
        let mut inner = bgzf::io::Reader::new(Cursor::new(&data[..]));
        let cs: Vec<Chunk> = chunks
            .iter()
            .map(|(a, b)| Chunk::new(bgzf::VirtualPosition::from(*a), bgzf::VirtualPosition::from(*b)))
            .collect();
        let q = csi::io::Query::new(&mut inner, cs);
        let mut reader = bam::io::Reader::from(q);
        let mut record = bam::Record::default();
        let mut out = Vec::new();
        while reader.read_record(&mut record)? != 0 {
            out.push(rec_name(&record));
        }
        Ok(out)
    }));
    // the oracle: chunk by chunk, the records whose start offset is in [start, end)
    let want: Vec<String> = chunks
        .iter()
        .flat_map(|(a, b)| recs.iter().enumerate().filter(move |(_, r)| *a <= r.a && r.a < *b).map(|(i, _)| i.to_string()))
        .collect();
    match r {
        Outcome::Done(Ok(names)) => {
            let nontrivial = !names.is_empty() && names.len() != recs.len();
            let obs = names_to_offsets(names.clone(), &recs);
            // a chunk end beyond the end of the data is outside what an index can hold: the
            // reader stops for good there (modelled by chunk_read_eof), no verdict
            let in_contract = chunks.iter().all(|(_, b)| *b <= eof);
            if names == want || !in_contract {
                Obs::ok(obs, nontrivial && in_contract)
            } else {
                Obs::fail(obs, "bamc-chunk-read-differs-from-records-starting-in-chunks", format!("want {want:?} got {names:?}"))
            }
        }
        Outcome::Done(Err(e)) => Obs::fail(format!("Err:{}", errkind(&e)), "bamc-chunk-read-error", format!("{e}")),
        Outcome::Panicked(m) => Obs::fail("Panic", "bamc-chunk-read-panic", m),
    }
}

pub fn run(c: &Case) -> Option<Obs> {
    match c.kind.as_str() {
        "bamq" => Some(run_bamq(c)),
        "bamc" => Some(run_bamc(c)),
        "vcfq" => Some(run_vcfq(c)),
        _ => None,
    }
}

// ---------------------------------------------------------------------------------------------
// VCF.gz (tabix) / BCF (CSI)
//
//   vcfq  vcf|bcf ver nctg nsamp h0 recs queries
//         ver     = 43 | 44 | 45 (fileformat)
//         recs    = chrom:pos:reflen:end:svlen:len:alts:a:b,...
//                   chrom = index of the contig in the header; pos 0 = no POS (telomere);
//                   end "-" or INFO END; svlen "-" or x/x/.. (INFO SVLEN, "." = missing);
//                   len "-" (no LEN key) or x/x (FORMAT LEN per sample, "." = missing);
//                   alts = one letter per ALT allele: S sequence, D <DEL>, U <DUP>, V <INV>,
//                   C <CNV>, I <INS>, O <*>; "_" = none
//         queries = chrom:s:e;...

#[derive(Clone, Debug)]
struct VRec {
    chrom: u64,
    pos: u64,
    reflen: u64,
    end: Option<i64>,
    svlen: Option<Vec<Option<i64>>>,
    len: Option<Vec<Option<i64>>>,
    alts: Vec<u8>,
    a: u64,
    b: u64,
}

const TAG_DEL45: &str = "vcf45-svlen-end-one-base-short-of-spec";
const TAG_INS45: &str = "vcf45-ins-svlen-extends-span-beyond-spec";
const TAG_TABIX_EMPTY: &str = "vcf-tabix-query-on-contig-without-records-is-an-error";
const TAG_BCF_TELOMERE: &str = "bcf-index-panics-on-record-without-pos";

impl VRec {
    /// end per the VCF specification of the file's version (None: not defined)
    fn spec_end(&self, ver: u32) -> Option<u64> {
        if self.pos == 0 || self.reflen == 0 {
            return None;
        }
        if ver < 45 {
            return match self.end {
                Some(e) if e >= 1 => Some(e as u64),
                Some(_) => None,
                None => Some(self.pos + self.reflen - 1),
            };
        }
        let mut e = self.pos + self.reflen - 1;
        if let Some(sv) = &self.svlen {
            for (k, v) in self.alts.iter().zip(sv) {
                if let (b'D' | b'U' | b'V' | b'C', Some(l)) = (k, v) {
                    e = e.max(self.pos + (*l).max(0) as u64);
                }
            }
        }
        if let Some(ls) = &self.len {
            for l in ls.iter().flatten() {
                e = e.max((self.pos + (*l).max(0) as u64).saturating_sub(1));
            }
        }
        Some(e)
    }
}

impl VRec {
    /// end by the rule noodles documents for variant_end (and C09's model states), computed here
    /// from the record text: before 4.5 as the specification; from 4.5 on
    /// POS + max(|REF|, largest non-missing SVLEN value of ANY allele, largest FORMAT LEN) - 1
    /// (a negative value is an error).  It differs from spec_end exactly in the known vcf45-* classes.
    fn doc_end(&self, ver: u32) -> Option<u64> {
        if ver < 45 {
            return self.spec_end(ver);
        }
        if self.pos == 0 || self.reflen == 0 {
            return None;
        }
        let mut m = self.reflen as i64;
        for l in self.svlen.iter().flatten().flatten().chain(self.len.iter().flatten().flatten()) {
            if *l < 0 {
                return None;
            }
            m = m.max(*l);
        }
        Some(self.pos + m as u64 - 1)
    }

    /// input class of a record whose span comes from several values (for tags)
    fn span_class(&self) -> &'static str {
        let sv: Vec<i64> = self.svlen.iter().flatten().flatten().copied().collect();
        let has_len = self.len.iter().flatten().flatten().next().is_some();
        let max_len = self.len.iter().flatten().flatten().copied().max();
        let max_sv = sv.iter().map(|x| x.abs()).max();
        if !sv.is_empty() && has_len && max_len > max_sv {
            "-with-svlen-and-larger-format-len"
        } else if sv.len() >= 2 && sv.iter().map(|x| x.abs()).max() != sv.last().map(|x| x.abs()) {
            "-with-multi-valued-svlen-largest-not-last"
        } else if sv.len() >= 2 {
            "-with-multi-valued-svlen"
        } else if !sv.is_empty() && has_len {
            "-with-svlen-and-format-len"
        } else if !sv.is_empty() && self.end.is_some() {
            "-with-svlen-and-end"
        } else {
            ""
        }
    }
}

fn fmt_optlist(l: &Option<Vec<Option<i64>>>) -> String {
    match l {
        None => "-".into(),
        Some(v) => v.iter().map(|x| x.map(|n| n.to_string()).unwrap_or(".".into())).collect::<Vec<_>>().join("/"),
    }
}

fn parse_optlist(s: &str) -> Option<Vec<Option<i64>>> {
    if s == "-" {
        None
    } else {
        Some(s.split('/').map(|x| if x == "." { None } else { Some(x.parse().unwrap()) }).collect())
    }
}

fn fmt_vrecs(rs: &[VRec]) -> String {
    if rs.is_empty() {
        return "_".into();
    }
    rs.iter()
        .map(|r| {
            format!(
                "{}:{}:{}:{}:{}:{}:{}:{}:{}",
                r.chrom,
                r.pos,
                r.reflen,
                r.end.map(|e| e.to_string()).unwrap_or("-".into()),
                fmt_optlist(&r.svlen),
                fmt_optlist(&r.len),
                if r.alts.is_empty() { "_".to_string() } else { String::from_utf8_lossy(&r.alts).into_owned() },
                r.a,
                r.b
            )
        })
        .collect::<Vec<_>>()
        .join(",")
}

fn parse_vrecs(s: &str) -> Vec<VRec> {
    if s == "_" {
        return vec![];
    }
    s.split(',')
        .map(|p| {
            let f: Vec<&str> = p.split(':').collect();
            VRec {
                chrom: f[0].parse().unwrap(),
                pos: f[1].parse().unwrap(),
                reflen: f[2].parse().unwrap(),
                end: if f[3] == "-" { None } else { Some(f[3].parse().unwrap()) },
                svlen: parse_optlist(f[4]),
                len: parse_optlist(f[5]),
                alts: if f[6] == "_" { vec![] } else { f[6].as_bytes().to_vec() },
                a: f[7].parse().unwrap(),
                b: f[8].parse().unwrap(),
            }
        })
        .collect()
}

fn vcf_header(ver: u32, nctg: usize, nsamp: usize) -> Result<vcf::Header, String> {
    let mut s = format!("##fileformat=VCFv{}.{}\n", ver / 10, ver % 10);
    s += "##INFO=<ID=END,Number=1,Type=Integer,Description=\"End position\">\n";
    s += &format!(
        "##INFO=<ID=SVLEN,Number={},Type=Integer,Description=\"Length of structural variant\">\n",
        if ver == 43 { "." } else { "A" }
    );
    s += "##FILTER=<ID=PASS,Description=\"All filters passed\">\n";
    if nsamp > 0 {
        s += "##FORMAT=<ID=GT,Number=1,Type=String,Description=\"Genotype\">\n";
        s += "##FORMAT=<ID=LEN,Number=1,Type=Integer,Description=\"Length of reference block\">\n";
    }
    for k in 0..nctg {
        s += &format!("##contig=<ID=c{k},length=536870911>\n");
    }
    s += "#CHROM\tPOS\tID\tREF\tALT\tQUAL\tFILTER\tINFO";
    if nsamp > 0 {
        s += "\tFORMAT";
        for i in 0..nsamp {
            s += &format!("\ts{i}");
        }
    }
    s += "\n";
    s.parse::<vcf::Header>().map_err(|e| format!("{e:?}"))
}

fn vcf_record_buf(i: usize, nsamp: usize, r: &VRec) -> vcf::variant::RecordBuf {
    let mut info: Vec<(String, Option<IV>)> = Vec::new();
    if let Some(e) = r.end {
        info.push(("END".into(), Some(IV::Integer(e as i32))));
    }
    if let Some(l) = &r.svlen {
        info.push(("SVLEN".into(), Some(IV::Array(IA::Integer(l.iter().map(|x| x.map(|n| n as i32)).collect())))));
    }
    let mut x = (i as u64).wrapping_mul(0x9E3779B97F4A7C15) | 1;
    let refb: String = (0..r.reflen)
        .map(|_| {
            x ^= x << 13;
            x ^= x >> 7;
            x ^= x << 17;
            b"ACGT"[(x & 3) as usize] as char
        })
        .collect();
    let alts: Vec<String> = r
        .alts
        .iter()
        .map(|k| {
            match k {
                b'D' => "<DEL>",
                b'U' => "<DUP>",
                b'V' => "<INV>",
                b'C' => "<CNV>",
                b'I' => "<INS>",
                b'O' => "<*>",
                _ => "C",
            }
            .to_string()
        })
        .collect();
    let mut b = vcf::variant::RecordBuf::builder()
        .set_reference_sequence_name(format!("c{}", r.chrom))
        .set_ids([i.to_string()].into_iter().collect::<Ids>())
        .set_reference_bases(refb)
        .set_alternate_bases(AlternateBases::from(alts))
        .set_info(info.into_iter().collect::<Info>());
    if r.pos > 0 {
        b = b.set_variant_start(pos(r.pos));
    }
    let no_pos = r.pos == 0;
    if nsamp > 0 {
        let (keys, vals): (Vec<String>, Vec<Vec<Option<SV>>>) = match &r.len {
            Some(ls) => (
                vec!["GT".into(), "LEN".into()],
                (0..nsamp)
                    .map(|j| vec![Some(SV::String("0/0".into())), ls.get(j).copied().flatten().map(|n| SV::Integer(n as i32))])
                    .collect(),
            ),
            None => (vec!["GT".into()], (0..nsamp).map(|_| vec![Some(SV::String("0/1".into()))]).collect()),
        };
        b = b.set_samples(Samples::new(keys.into_iter().collect::<Keys>(), vals));
    }
    let mut rb = b.build();
    if no_pos {
        // the builder's default POS is 1; a telomere record has none
        *rb.variant_start_mut() = None;
    }
    rb
}

fn build_vcf(bcf_fmt: bool, ver: u32, nctg: usize, nsamp: usize, recs: &[VRec]) -> io::Result<Vec<u8>> {
    let header = vcf_header(ver, nctg, nsamp).map_err(|e| io::Error::new(io::ErrorKind::Other, e))?;
    if bcf_fmt {
        let mut w = bcf::io::Writer::new(Vec::new());
        w.write_header(&header)?;
        for (i, r) in recs.iter().enumerate() {
            w.write_variant_record(&header, &vcf_record_buf(i, nsamp, r))?;
        }
        w.try_finish()?;
        Ok(w.into_inner().into_inner())
    } else {
        let mut w = vcf::io::Writer::new(bgzf::io::Writer::new(Vec::new()));
        w.write_header(&header)?;
        for (i, r) in recs.iter().enumerate() {
            w.write_variant_record(&header, &vcf_record_buf(i, nsamp, r))?;
        }
        w.into_inner().finish()
    }
}

fn vcf_offsets(bcf_fmt: bool, data: &[u8]) -> io::Result<(u64, Vec<(u64, u64)>)> {
    let mut out = Vec::new();
    if bcf_fmt {
        let mut reader = bcf::io::Reader::new(data);
        reader.read_header()?;
        let h0 = u64::from(reader.get_ref().virtual_position());
        let mut record = bcf::Record::default();
        let mut start = h0;
        while reader.read_record(&mut record)? != 0 {
            let end = u64::from(reader.get_ref().virtual_position());
            out.push((start, end));
            start = end;
        }
        Ok((h0, out))
    } else {
        let mut reader = vcf::io::Reader::new(bgzf::io::Reader::new(data));
        reader.read_header()?;
        let h0 = u64::from(reader.get_ref().virtual_position());
        let mut record = vcf::Record::default();
        let mut start = h0;
        while reader.read_record(&mut record)? != 0 {
            let end = u64::from(reader.get_ref().virtual_position());
            out.push((start, end));
            start = end;
        }
        Ok((h0, out))
    }
}

fn gen_vcfq(rng: &mut Rng, w: &mut CaseWriter) {
    let bcf_fmt = rng.chance(1, 2);
    let ver = *rng.pick(&[43u32, 44, 45, 45]);
    let (ms, d) = (14u64, 5u64);
    let maxp = (1u64 << 29) - 1;
    let nctg = rng.range(1, 4) as usize;
    let nsamp = rng.below(3) as usize;
    let svd = ver == 45 && rng.chance(1, 6); // files with INFO SVLEN spans (known findings)
    // files with records whose span comes from SEVERAL values: multi-valued SVLEN (largest value
    // first / in the middle / last), alleles of different types, SVLEN with FORMAT LEN, END with SVLEN
    let msv = rng.chance(1, 3);
    let exotic = rng.chance(1, 8);
    let fat_every = if rng.chance(1, 2) { rng.range(2, 6) } else { 0 };
    let n = match rng.below(5) {
        0 => rng.range(0, 3),
        1 => rng.range(3, 10),
        _ => rng.range(8, 45),
    };
    let mut recs: Vec<VRec> = Vec::new();
    let mut chrom = if rng.chance(1, 4) { rng.below(nctg as u64) } else { 0 };
    let focus = edge_point(rng, ms, d, maxp);
    let mut s = if rng.chance(1, 2) { focus.saturating_sub(rng.below(1 << 16)).max(1) } else { rng.range(1, maxp) };
    for i in 0..n {
        if chrom + 1 < nctg as u64 && rng.chance(1, 8) {
            chrom += rng.range(1, nctg as u64 - chrom - 1);
            s = edge_point(rng, ms, d, maxp);
        } else if exotic && chrom > 0 && rng.chance(1, 25) {
            chrom -= 1;
        }
        s = (s + match rng.below(4) {
            0 => 0,
            1 => rng.below(50),
            2 => rng.below(1 << 14),
            _ => {
                let sh = rng.below(12);
                rng.below(1 + (maxp >> sh))
            }
        })
        .min(maxp - 40000);
        let fat = fat_every > 0 && i % fat_every == 0;
        let reflen = if fat { rng.range(2000, 30000) } else { rng.range(1, 30) };
        let span = match rng.below(6) {
            0 => rng.range(1, 200),
            1 => rng.range(1, 1 << 14),
            2 => (1u64 << (ms + 3 * rng.below(d + 1)).min(28)) + rng.below(3),
            3 => rng.range(1, maxp),
            _ => rng.range(1, 2000),
        }
        .min(maxp - s + 1)
        .max(1);
        let mut r = VRec { chrom, pos: s, reflen, end: None, svlen: None, len: None, alts: vec![b'S'], a: 0, b: 0 };
        match rng.below(6) {
            0 | 1 => {
                // symbolic allele with an explicit span
                let k = *rng.pick(b"DUVCI");
                r.alts = if rng.chance(1, 3) { vec![b'S', k] } else { vec![k] };
                if ver < 45 {
                    r.end = Some((s + span - 1) as i64);
                    if rng.chance(1, 2) {
                        let l = span as i64;
                        r.svlen = Some(r.alts.iter().map(|a| if *a == b'S' { None } else { Some(if ver == 43 && k == b'D' { -l } else { l }) }).collect());
                    }
                } else if svd {
                    r.svlen = Some(r.alts.iter().map(|a| if *a == b'S' { None } else { Some(span as i64) }).collect());
                }
            }
            2 if nsamp > 0 || ver < 45 => {
                // reference block
                r.alts = vec![b'O'];
                if ver < 45 {
                    r.end = Some((s + span - 1) as i64);
                } else {
                    r.len = Some((0..nsamp).map(|_| if rng.chance(1, 4) { None } else { Some(rng.range(0, span) as i64) }).collect());
                }
            }
            3 => r.alts = vec![b'S', b'S'],
            4 if rng.chance(1, 4) => r.alts = vec![],
            _ => {}
        }
        if msv && rng.chance(1, 3) {
            let n = rng.range(2, 4) as usize;
            let p = match rng.below(3) {
                0 => 0,
                1 => n - 1,
                _ => n / 2,
            };
            let l = span as i64;
            let mut alts = Vec::new();
            let mut sv = Vec::new();
            for k in 0..n {
                if k != p && rng.chance(1, 6) {
                    alts.push(b'S');
                    sv.push(None);
                    continue;
                }
                let a = if k != p && rng.chance(1, 6) { b'I' } else { *rng.pick(b"DUVC") };
                let x = if k == p { l } else { rng.range(1, span) as i64 };
                sv.push(Some(if ver == 43 && a == b'D' { -x } else { x }));
                alts.push(a);
            }
            r.len = None;
            if ver < 45 {
                // controls: INFO END governs, whatever SVLEN says
                r.end = Some((s + span - 1) as i64);
            } else {
                // END is not looked at from 4.5 on (here: a position before the real end)
                r.end = if rng.chance(1, 4) { Some((s + rng.below(span)) as i64) } else { None };
                if nsamp > 0 && rng.chance(1, 3) {
                    // SVLEN together with FORMAT LEN: below the SVLEN span or beyond it
                    alts.push(b'O');
                    sv.push(None);
                    let beyond = rng.chance(1, 2);
                    r.len = Some(
                        (0..nsamp)
                            .map(|_| {
                                if rng.chance(1, 4) {
                                    None
                                } else if beyond {
                                    Some(((span + 1 + rng.below(3000)).min(maxp - s + 1)) as i64)
                                } else {
                                    Some(rng.range(0, span) as i64)
                                }
                            })
                            .collect(),
                    );
                }
            }
            r.alts = alts;
            r.svlen = Some(sv);
        }
        if exotic && rng.chance(1, 10) {
            match rng.below(4) {
                0 => r.pos = 0,
                1 if ver < 45 => r.end = Some(0),
                2 if ver < 45 && s > 10 => r.end = Some((s - rng.range(1, 9)) as i64),
                _ => r.pos = 0,
            }
        }
        recs.push(r);
    }
    let built = guarded(AssertUnwindSafe(|| -> io::Result<(u64, Vec<(u64, u64)>)> {
        let data = build_vcf(bcf_fmt, ver, nctg, nsamp, &recs)?;
        vcf_offsets(bcf_fmt, &data)
    }));
    let (h0, offs) = match built {
        Outcome::Done(Ok(x)) if x.1.len() == recs.len() => x,
        _ => return,
    };
    for (r, (a, b)) in recs.iter_mut().zip(offs) {
        r.a = a;
        r.b = b;
    }
    let populated: Vec<u64> = (0..nctg as u64).filter(|c| recs.iter().any(|r| r.chrom == *c)).collect();
    let mut qs: Vec<Qy> = Vec::new();
    for _ in 0..rng.range(5, 11) {
        // contigs without records are queried rarely (tabix: known finding)
        let k = if populated.is_empty() || rng.chance(1, 60) { rng.below(nctg as u64) } else { *rng.pick(&populated) };
        let on: Vec<&VRec> = recs.iter().filter(|r| r.chrom == k && r.pos > 0).collect();
        let j = |rng: &mut Rng, x: u64| (x as i64 + rng.range(0, 4) as i64 - 2).clamp(1, maxp as i64) as u64;
        let q = match rng.below(8) {
            0 => (None, None),
            1 => (Some(edge_point(rng, ms, d, maxp)), None),
            2 => (None, Some(edge_point(rng, ms, d, maxp))),
            3 | 4 if !on.is_empty() => {
                let r = *rng.pick(&on);
                let s = r.pos;
                let e = r.spec_end(ver).unwrap_or(s).clamp(1, maxp);
                match rng.below(4) {
                    0 => {
                        let a = j(rng, e);
                        (Some(a), Some((a + rng.below(1 << 14)).min(maxp)))
                    }
                    1 => {
                        let b = j(rng, s);
                        (Some(b.saturating_sub(rng.below(1 << 14)).max(1)), Some(b))
                    }
                    2 => {
                        let p = j(rng, e);
                        (Some(p), Some(p))
                    }
                    _ => {
                        let p = j(rng, s);
                        (Some(p), Some(p))
                    }
                }
            }
            5 => {
                let lvl = rng.below(d + 1);
                let wd = 1u64 << (ms + 3 * lvl);
                let i = rng.below(maxp / wd + 1);
                (Some((i * wd + 1).min(maxp)), Some(((i + 1) * wd).min(maxp)))
            }
            6 if rng.chance(1, 3) => (Some(edge_point(rng, ms, d, maxp)), Some(maxp + rng.range(1, 3))),
            _ => {
                let a = edge_point(rng, ms, d, maxp);
                let sh = rng.below(16);
                (Some(a), Some((a + rng.below(1 + (maxp >> sh))).min(maxp)))
            }
        };
        let q = match q {
            (Some(a), Some(b)) if a > b => (Some(b), Some(a)),
            x => x,
        };
        qs.push(Qy::Region(k, q.0, q.1));
    }
    w.push(
        "vcfq",
        vec![
            if bcf_fmt { "bcf" } else { "vcf" }.into(),
            ver.to_string(),
            nctg.to_string(),
            nsamp.to_string(),
            h0.to_string(),
            fmt_vrecs(&recs),
            fmt_queries(&qs),
        ],
    );
}

fn vcf_answer<I: BinningIndex>(bcf_fmt: bool, data: &[u8], index: &I, k: u64, s: Option<u64>, e: Option<u64>) -> Outcome<io::Result<Vec<String>>> {
    guarded(AssertUnwindSafe(|| -> io::Result<Vec<String>> {
        let region = Region::new(format!("c{k}"), interval(s, e));
        if bcf_fmt {
            let mut reader = bcf::io::Reader::new(Cursor::new(data));
            let header = reader.read_header()?;
            let query = reader.query(&header, index, &region)?;
            query.records().map(|r| r.map(|r| String::from_utf8_lossy(r.ids().as_ref()).into_owned())).collect()
        } else {
            let mut reader = vcf::io::Reader::new(bgzf::io::Reader::new(Cursor::new(data)));
            let header = reader.read_header()?;
            let query = reader.query(&header, index, &region)?;
            query.records().map(|r| r.map(|r| r.ids().as_ref().to_string())).collect()
        }
    }))
}

fn run_vcfq(c: &Case) -> Obs {
    let bcf_fmt = c.args[0] == "bcf";
    let (ver, nctg, nsamp) = (c.u(1) as u32, c.u(2) as usize, c.u(3) as usize);
    let h0 = c.u(4);
    let recs = parse_vrecs(&c.args[5]);
    let queries = parse_queries(&c.args[6]);
    let full = (1u64 << 29) - 1;
    let label = if bcf_fmt { "bcf" } else { "vcfgz" };
    let data = match guarded(AssertUnwindSafe(|| build_vcf(bcf_fmt, ver, nctg, nsamp, &recs))) {
        Outcome::Done(Ok(x)) => x,
        Outcome::Done(Err(e)) => return Obs::fail("-", "vcfq-write-error", format!("{e}")),
        Outcome::Panicked(m) => return Obs::fail("-", "vcfq-write-panic", m),
    };
    match guarded(AssertUnwindSafe(|| vcf_offsets(bcf_fmt, &data))) {
        Outcome::Done(Ok((h, offs))) => {
            let want: Vec<(u64, u64)> = recs.iter().map(|r| (r.a, r.b)).collect();
            if h != h0 || offs != want {
                return Obs::fail("-", "harness-vcfq-offsets-differ-from-case", format!("h0 {h} vs {h0}"));
            }
        }
        Outcome::Done(Err(e)) => return Obs::fail("-", "vcfq-scan-error", format!("{e}")),
        Outcome::Panicked(m) => return Obs::fail("-", "vcfq-scan-panic", m),
    }
    let dir = std::env::temp_dir().join(format!("nv-c04v-{}-{}", std::process::id(), c.id));
    let _ = fs::remove_dir_all(&dir);
    let path = dir.join(if bcf_fmt { "f.bcf" } else { "f.vcf.gz" });
    if let Err(e) = fs::create_dir_all(&dir).and_then(|_| fs::write(&path, &data)) {
        return Obs::fail("-", "harness-tempdir", format!("{e}"));
    }
    let mut j = Judge { verdict: Ok(()), nontrivial: false };
    let mut obs = String::from("ok");
    // would a well-behaved indexer accept the file?  (sorted by contig, every span defined)
    let indexable = {
        let mut seen: Vec<u64> = Vec::new();
        let mut ok = true;
        for r in &recs {
            if seen.last() != Some(&r.chrom) {
                if seen.contains(&r.chrom) {
                    ok = false;
                }
                seen.push(r.chrom);
            }
            if r.spec_end(ver).is_none() {
                ok = false;
            }
        }
        if bcf_fmt {
            let mut cur = 0;
            for r in &recs {
                if r.chrom < cur {
                    ok = false;
                }
                cur = r.chrom;
            }
        }
        ok
    };
    macro_rules! answers {
        ($index:expr) => {{
            for q in &queries {
                let Qy::Region(k, s, e) = q else { continue };
                obs.push('|');
                let in_range = s.unwrap_or(1) <= full && e.unwrap_or(1) <= full;
                match vcf_answer(bcf_fmt, &data, $index, *k, *s, *e) {
                    Outcome::Done(Ok(names)) => {
                        let got: Vec<usize> = names.iter().filter_map(|n| n.parse().ok()).collect();
                        let lo = s.unwrap_or(1);
                        let hi = e.unwrap_or(u64::MAX);
                        let want: Vec<usize> = recs
                            .iter()
                            .enumerate()
                            .filter(|(_, r)| r.chrom == *k && r.spec_end(ver).map(|re| r.pos <= hi && lo <= re).unwrap_or(false))
                            .map(|(i, _)| i)
                            .collect();
                        if in_range && want != got {
                            // the same scan with the span by the rule noodles documents (independent
                            // of the implementation: from the record text)
                            let want2: Vec<usize> = recs
                                .iter()
                                .enumerate()
                                .filter(|(_, r)| r.chrom == *k && r.doc_end(ver).map(|re| r.pos <= hi && lo <= re).unwrap_or(false))
                                .map(|(i, _)| i)
                                .collect();
                            let tag = if got == want2 {
                                // exactly the difference between the two rules: the known 4.5 classes
                                // (a <DEL>-like allele ends one base early / an <INS> SVLEN extends the span)
                                if want.iter().any(|i| !got.contains(i)) { TAG_DEL45.to_string() } else { TAG_INS45.to_string() }
                            } else {
                                let miss = want2.iter().find(|i| !got.contains(i));
                                let extra = got.iter().find(|i| !want2.contains(i));
                                match (miss, extra) {
                                    (Some(i), _) => format!("vcfq-{label}-missing-record{}", recs[*i].span_class()),
                                    (None, Some(i)) => format!("vcfq-{label}-extra-record{}", recs.get(*i).map(|r| r.span_class()).unwrap_or("")),
                                    _ => format!("vcfq-{label}-order-or-duplicate"),
                                }
                            };
                            j.fail(&tag, format!("region c{k}:{s:?}-{e:?} scan={want:?} by-documented-rule={want2:?} query={got:?}"));
                        }
                        let on_ref = recs.iter().filter(|r| r.chrom == *k).count();
                        if !want.is_empty() && want.len() < on_ref {
                            j.nontrivial = true;
                        }
                        obs.push_str(&names_to_offsets_v(names, &recs));
                    }
                    Outcome::Done(Err(e)) => {
                        if in_range {
                            let empty = !recs.iter().any(|r| r.chrom == *k);
                            if !bcf_fmt && empty {
                                j.fail(TAG_TABIX_EMPTY, format!("{q:?}: {e}"));
                            } else {
                                j.fail(&format!("vcfq-{label}-query-error"), format!("{q:?}: {e}"));
                            }
                        }
                        obs.push_str(&format!("Err:{}", errkind(&e)));
                    }
                    Outcome::Panicked(m) => {
                        j.fail(&format!("vcfq-{label}-query-panic"), format!("{q:?}: {m}"));
                        obs.push_str("Panic");
                    }
                }
            }
        }};
    }
    if bcf_fmt {
        let r = guarded(AssertUnwindSafe(|| bcf::fs::index(&path)));
        let _ = fs::remove_dir_all(&dir);
        match r {
            Outcome::Done(Ok(index)) => answers!(&index),
            Outcome::Done(Err(e)) => {
                if indexable {
                    j.fail("vcfq-bcf-index-build-fails", format!("{e}"));
                }
                obs = "IxErr".into();
            }
            Outcome::Panicked(m) => {
                if recs.iter().any(|r| r.pos == 0) {
                    j.fail(TAG_BCF_TELOMERE, m);
                } else {
                    j.fail("vcfq-bcf-index-panic", m);
                }
                obs = "IxPanic".into();
            }
        }
    } else {
        let r = guarded(AssertUnwindSafe(|| vcf::fs::index(&path)));
        let _ = fs::remove_dir_all(&dir);
        match r {
            Outcome::Done(Ok(index)) => answers!(&index),
            Outcome::Done(Err(e)) => {
                if indexable {
                    j.fail("vcfq-vcfgz-index-build-fails", format!("{e}"));
                }
                obs = "IxErr".into();
            }
            Outcome::Panicked(m) => {
                j.fail("vcfq-vcfgz-index-panic", m);
                obs = "IxPanic".into();
            }
        }
    }
    Obs::ok(obs, j.nontrivial).with_verdict(j.verdict)
}

fn names_to_offsets_v(names: Vec<String>, recs: &[VRec]) -> String {
    if names.is_empty() {
        return "_".into();
    }
    names
        .iter()
        .map(|n| n.parse::<usize>().ok().and_then(|i| recs.get(i)).map(|r| r.a.to_string()).unwrap_or("?".into()))
        .collect::<Vec<_>>()
        .join(",")
}

/// kind `bcfb` (c04_bytes.rs): the uncompressed stream of a BCF file written by bcf::io::Writer
/// (magic, header text, records; with and without samples, short and long REF, END spans)
pub fn bcfb_raw_stream(rng: &mut Rng) -> io::Result<Vec<u8>> {
    use std::io::Read as _;
    let ver = *rng.pick(&[43u32, 44]);
    let nctg = rng.range(1, 3) as usize;
    let nsamp = rng.below(3) as usize;
    let n = match rng.below(4) {
        0 => rng.range(0, 2),
        1 => rng.range(2, 8),
        _ => rng.range(5, 30),
    };
    let mut recs: Vec<VRec> = Vec::new();
    let mut chrom = 0u64;
    let mut s = rng.range(1, 100_000);
    for _ in 0..n {
        if chrom + 1 < nctg as u64 && rng.chance(1, 8) {
            chrom += 1;
            s = rng.range(1, 100_000);
        }
        s += match rng.below(3) { 0 => 0, 1 => rng.below(50), _ => rng.below(1 << 15) };
        let reflen = if rng.chance(1, 10) { rng.range(500, 4000) } else { rng.range(1, 30) };
        let mut r = VRec { chrom, pos: s, reflen, end: None, svlen: None, len: None, alts: vec![b'S'], a: 0, b: 0 };
        if rng.chance(1, 4) {
            r.alts = vec![*rng.pick(b"DUVC")];
            r.end = Some((s + rng.range(1, 1 << 16)) as i64);
        } else if rng.chance(1, 8) {
            r.alts = vec![];
        }
        recs.push(r);
    }
    let data = build_vcf(true, ver, nctg, nsamp, &recs)?;
    let mut raw = Vec::new();
    flate2::read::MultiGzDecoder::new(&data[..]).read_to_end(&mut raw)?;
    Ok(raw)
}
