//! C10 `vb`: ONE RecordBuf through both real writers and both real (eager) readers, against the Coq
//! bridge NV.Bcf.Bridge (bcf_write / bcf_read) and C09's NV.Vcf.Line (write_line / read_eager).
//!   vb ver infodefs filters fmtdefs contigs ns rec ftab rlen
//!      infodefs / fmtdefs = id/num/ty/idx,...  (num = count|A|R|G|.; ty = I F B C S; idx = n or -), `-` = none
//!      filters / contigs  = id/idx,...
//!      rec  = chrom&pos&ids&ref&alts&qual&filters&info&keys&rows   (the format of C09's `line` kind)
//!      ftab = bits:hex(Display text):bits(parse of that text),...   the f32 text oracle of the VCF model
//!      rlen = variant_span of the record (an input of the BCF model)
//!      prev = the record a REUSED RecordBuf holds when the BCF record is read into it (last obs field,
//!             NV.Bcf.Bridge.bcf_read_into)
//!   obs = <bcf record hex | Err:kind | Panic> | <bcf re-read> | <vcf line hex | WErr> | <vcf re-read>
//!         | content(bcf re-read) | content(vcf re-read) | special/plain | <bcf re-read into the reused buffer>
//! Oracle: both writers accepted and the record is outside string-special-chars => both re-reads
//! succeed and have the same content.
use super::*;
use noodles_vcf::variant::Record as _;

fn lst(l: &[String]) -> String {
    if l.is_empty() { "~".into() } else { l.iter().map(|s| hex(s.as_bytes())).collect::<Vec<_>>().join(";") }
}

fn items<T>(xs: &[Option<T>], f: impl Fn(&T) -> String) -> String {
    xs.iter().map(|o| match o { None => ".".to_string(), Some(x) => f(x) }).collect::<Vec<_>>().join(",")
}

pub fn spec(v: &Option<V>) -> String {
    match v {
        None => "M".into(),
        Some(V::I(n)) => format!("I{n}"),
        Some(V::F(b)) => format!("F{b}"),
        Some(V::Flag) => "B".into(),
        Some(V::C(c)) => format!("C{}", *c as u32),
        Some(V::S(s)) => format!("S{}", hex(s.as_bytes())),
        Some(V::AI(l)) => format!("AI{}", items(l, |n| n.to_string())),
        Some(V::AF(l)) => format!("AF{}", items(l, |n| n.to_string())),
        Some(V::AC(l)) => format!("AC{}", items(l, |c| (*c as u32).to_string())),
        Some(V::AS(l)) => format!("AS{}", items(l, |s| hex(s.as_bytes()))),
        Some(V::GT(g)) => {
            let mut s = String::from("G");
            for (p, ph) in g {
                s.push(if *ph { '|' } else { '/' });
                match p {
                    Some(n) => s.push_str(&n.to_string()),
                    None => s.push('.'),
                }
            }
            s
        }
    }
}

fn parse_items<T>(s: &str, f: impl Fn(&str) -> T) -> Vec<Option<T>> {
    if s.is_empty() {
        return vec![];
    }
    s.split(',').map(|t| if t == "." { None } else { Some(f(t)) }).collect()
}

fn ustr(h: &str) -> String {
    String::from_utf8(unhex(h)).expect("utf8")
}

pub fn parse_spec(s: &str) -> Option<V> {
    let chr = |t: &str| char::from_u32(t.parse().unwrap()).unwrap();
    if s == "M" {
        return None;
    }
    Some(if s == "B" {
        V::Flag
    } else if let Some(r) = s.strip_prefix("AI") {
        V::AI(parse_items(r, |t| t.parse().unwrap()))
    } else if let Some(r) = s.strip_prefix("AF") {
        V::AF(parse_items(r, |t| t.parse().unwrap()))
    } else if let Some(r) = s.strip_prefix("AC") {
        V::AC(parse_items(r, chr))
    } else if let Some(r) = s.strip_prefix("AS") {
        V::AS(parse_items(r, ustr))
    } else if let Some(r) = s.strip_prefix('I') {
        V::I(r.parse().unwrap())
    } else if let Some(r) = s.strip_prefix('F') {
        V::F(r.parse().unwrap())
    } else if let Some(r) = s.strip_prefix('C') {
        V::C(chr(r))
    } else if let Some(r) = s.strip_prefix('S') {
        V::S(ustr(r))
    } else if let Some(r) = s.strip_prefix('G') {
        let mut g = vec![];
        let b = r.as_bytes();
        let mut i = 0;
        while i < b.len() {
            let ph = b[i] == b'|';
            let mut j = i + 1;
            while j < b.len() && b[j] != b'|' && b[j] != b'/' {
                j += 1;
            }
            let t = &r[i + 1..j];
            g.push((if t == "." { None } else { Some(t.parse().unwrap()) }, ph));
            i = j;
        }
        V::GT(g)
    } else {
        panic!("spec {s}")
    })
}

pub fn rec_str(c: &Rec) -> String {
    let info = if c.info.is_empty() {
        "~".to_string()
    } else {
        c.info.iter().map(|(k, v)| format!("{}={}", hex(k.as_bytes()), spec(v))).collect::<Vec<_>>().join(";")
    };
    let row = |r: &Vec<Option<V>>| if r.is_empty() { "_".to_string() } else { r.iter().map(spec).collect::<Vec<_>>().join(";") };
    let rows = if c.samples.is_empty() { "~".to_string() } else { c.samples.iter().map(row).collect::<Vec<_>>().join("!") };
    [
        hex(c.chrom.as_bytes()),
        c.pos.to_string(),
        lst(&c.ids),
        hex(c.refb.as_bytes()),
        lst(&c.alts),
        c.qual.map(|b| b.to_string()).unwrap_or(".".into()),
        lst(&c.filters),
        info,
        lst(&c.keys),
        rows,
    ]
    .join("&")
}

fn unlst(s: &str) -> Vec<String> {
    if s == "~" { vec![] } else { s.split(';').map(ustr).collect() }
}

pub fn rec_parse(s: &str) -> Rec {
    let p: Vec<&str> = s.split('&').collect();
    Rec {
        chrom: ustr(p[0]),
        pos: p[1].parse().unwrap(),
        ids: unlst(p[2]),
        refb: ustr(p[3]),
        alts: unlst(p[4]),
        qual: if p[5] == "." { None } else { Some(p[5].parse().unwrap()) },
        filters: unlst(p[6]),
        info: if p[7] == "~" {
            vec![]
        } else {
            p[7].split(';').map(|kv| { let (k, v) = kv.split_once('=').unwrap(); (ustr(k), parse_spec(v)) }).collect()
        },
        keys: unlst(p[8]),
        samples: if p[9] == "~" {
            vec![]
        } else {
            p[9].split('!').map(|r| if r == "_" { vec![] } else { r.split(';').map(parse_spec).collect() }).collect()
        },
    }
}

fn ty_letter(t: Ty) -> &'static str {
    match t { Ty::Int => "I", Ty::Float => "F", Ty::Flag => "B", Ty::Char => "C", Ty::Str => "S" }
}

fn idx_s(i: &Option<usize>) -> String {
    i.map(|i| i.to_string()).unwrap_or("-".into())
}

fn defs_str(ds: &[Def]) -> String {
    if ds.is_empty() {
        return "-".into();
    }
    ds.iter().map(|d| format!("{}/{}/{}/{}", d.id, num_text(d.num), ty_letter(d.ty), idx_s(&d.idx))).collect::<Vec<_>>().join(",")
}

fn pairs_str(ps: &[(String, Option<usize>)]) -> String {
    if ps.is_empty() {
        return "-".into();
    }
    ps.iter().map(|(n, i)| format!("{n}/{}", idx_s(i))).collect::<Vec<_>>().join(",")
}

fn parse_defs(s: &str) -> Vec<Def> {
    if s == "-" {
        return vec![];
    }
    s.split(',')
        .map(|d| {
            let p: Vec<&str> = d.split('/').collect();
            Def {
                id: p[0].into(),
                num: match p[1] { "A" => Num::A, "R" => Num::R, "G" => Num::G, "." => Num::Dot, n => Num::Count(n.parse().unwrap()) },
                ty: match p[2] { "I" => Ty::Int, "F" => Ty::Float, "B" => Ty::Flag, "C" => Ty::Char, _ => Ty::Str },
                idx: if p[3] == "-" { None } else { Some(p[3].parse().unwrap()) },
            }
        })
        .collect()
}

fn parse_pairs(s: &str) -> Vec<(String, Option<usize>)> {
    if s == "-" {
        return vec![];
    }
    s.split(',').map(|d| { let (n, i) = d.split_once('/').unwrap(); (n.to_string(), if i == "-" { None } else { Some(i.parse().unwrap()) }) }).collect()
}

fn floats_of(r: &Rec) -> Vec<u32> {
    let mut out = vec![];
    let mut add = |v: &Option<V>| match v {
        Some(V::F(b)) => out.push(*b),
        Some(V::AF(l)) => out.extend(l.iter().flatten().copied()),
        _ => {}
    };
    for (_, v) in &r.info {
        add(v);
    }
    for v in r.samples.iter().flatten() {
        add(v);
    }
    if let Some(q) = r.qual {
        out.push(q);
    }
    out.sort_unstable();
    out.dedup();
    out
}

fn ftab(r: &Rec) -> String {
    let bits = floats_of(r);
    if bits.is_empty() {
        return "-".into();
    }
    bits.iter()
        .map(|b| {
            let t = format!("{}", f32::from_bits(*b));
            let back = t.parse::<f32>().map(f32::to_bits).unwrap_or(0);
            format!("{b}:{}:{back}", hex(t.as_bytes()))
        })
        .collect::<Vec<_>>()
        .join(",")
}

/// the case arguments of (h, r); None when the record is outside what the models cover
pub fn vb_args(h: &Hdr, r: &Rec, prev: &Rec) -> Option<Vec<String>> {
    let nonascii = |v: &Option<V>| match v {
        Some(V::C(c)) => !c.is_ascii(),
        Some(V::AC(l)) => l.iter().flatten().any(|c| !c.is_ascii()),
        _ => false,
    };
    // a genotype without alleles has no VCF text (outside the property's domain; the model's block
    // walk does not cover the zero-length GT descriptor either)
    let empty_gt = |v: &Option<V>| matches!(v, Some(V::GT(g)) if g.is_empty());
    if r.info.iter().any(|(_, v)| nonascii(v))
        || r.samples.iter().flatten().any(|v| nonascii(v) || empty_gt(v))
        || r.pos == 0
        || prev.info.iter().any(|(_, v)| nonascii(v))
        || prev.samples.iter().flatten().any(nonascii)
        || prev.pos == 0
    {
        return None;
    }
    let header = parse_header(&header_text(h)).ok()?;
    let rb = to_buf(r);
    let rlen = match guarded(AssertUnwindSafe(|| rb.variant_span(&header))) {
        Outcome::Done(Ok(n)) => n,
        _ => return None,
    };
    Some(vec![
        format!("{}.{}", h.ff.0, h.ff.1),
        defs_str(&h.infos),
        pairs_str(&h.filters),
        defs_str(&h.formats),
        pairs_str(&h.contigs),
        h.samples.len().to_string(),
        rec_str(r),
        ftab(r),
        rlen.to_string(),
        rec_str(prev),
    ])
}

fn cbase(b: u8) -> u8 {
    let up = |c: u8| -> Option<u8> {
        match c {
            b'A' | b'W' | b'M' | b'R' | b'D' | b'H' | b'V' => Some(b'A'),
            b'C' | b'S' | b'Y' | b'B' => Some(b'C'),
            b'G' | b'K' => Some(b'G'),
            b'T' => Some(b'T'),
            b'N' => Some(b'N'),
            _ => None,
        }
    };
    if b.is_ascii_lowercase() { up(b - 32).map(|x| x + 32).unwrap_or(b) } else { up(b).unwrap_or(b) }
}

/// the normal form NV.Bcf.Bridge.content, written independently
pub fn content(v44: bool, r: &Rec) -> Rec {
    let mut c = r.clone();
    c.refb = String::from_utf8_lossy(&r.refb.bytes().map(cbase).collect::<Vec<u8>>()).to_string();
    let lone = |v: &Option<V>| match v {
        Some(V::AI(l)) => l.len() == 1 && l[0].is_none(),
        Some(V::AF(l)) => l.len() == 1 && l[0].is_none(),
        Some(V::AC(l)) => l.len() == 1 && l[0].is_none(),
        Some(V::AS(l)) => l.len() == 1 && l[0].is_none(),
        _ => false,
    };
    for (_, v) in c.info.iter_mut() {
        if lone(v) {
            *v = None;
        }
    }
    for row in c.samples.iter_mut() {
        for v in row.iter_mut() {
            if lone(v) {
                *v = None;
            }
            match v {
                Some(V::GT(g)) if !v44 && g.len() == 1 && g[0].0.is_none() => *v = None,
                Some(V::GT(g)) if !v44 && !g.is_empty() => {
                    let rest_phased = g.iter().skip(1).all(|a| a.1);
                    g[0].1 = rest_phased;
                }
                _ => {}
            }
        }
        while row.last().map(|v| v.is_none()).unwrap_or(false) {
            row.pop();
        }
    }
    c
}

/// the class string-special-chars (NV.Bcf.Bridge.bcf_special), written independently: exactly the
/// values BCF cannot represent
pub fn special(r: &Rec) -> bool {
    // per-sample vector elements: `.`, or holding `,` / NUL; INFO vector elements: `.` or holding `,`
    let elt_f = |s: &String| s == "." || s.contains(',') || s.contains('\0');
    let elt_i = |s: &String| s == "." || s.contains(',');
    let info = |v: &Option<V>| match v {
        Some(V::S(s)) => s.is_empty(),
        Some(V::AC(l)) => l.iter().flatten().any(|c| matches!(*c, '.' | ',')),
        Some(V::AS(l)) => (l.len() == 1 && l[0].as_deref() == Some("")) || l.iter().flatten().any(elt_i),
        _ => false,
    };
    let fmt = |v: &Option<V>| match v {
        Some(V::C(c)) => *c == '.' || *c == '\0',
        Some(V::S(s)) => s == "." || s.contains('\0'),
        Some(V::AC(l)) => l.iter().flatten().any(|c| matches!(*c, '.' | ',' | '\0')),
        Some(V::AS(l)) => l.iter().flatten().any(elt_f),
        _ => false,
    };
    r.info.iter().any(|(_, v)| info(v)) || r.samples.iter().flatten().any(fmt)
}

/// inputs outside the domain of the agreement property (named by the input alone): only a panic
/// counts for them
fn outside(h: &Hdr, r: &Rec) -> Option<&'static str> {
    // a Flag key with the value `.`: a Flag has no value in VCF (BCF stores presence only, so the
    // record comes back as the Flag being set)
    for (k, v) in &r.info {
        if v.is_none() && h.infos.iter().any(|d| &d.id == k && d.ty == Ty::Flag) {
            return Some("info-flag-missing-value");
        }
    }
    // the record does not have one row per header sample (neither re-read can succeed)
    if r.samples.len() != h.samples.len() {
        return Some("sample-count-mismatch");
    }
    // a float whose Display text does not parse back to the same bits (NaN payloads): the VCF text
    // cannot carry it (C09's domain FOK)
    for b in floats_of(r) {
        let t = format!("{}", f32::from_bits(b));
        if t.parse::<f32>().map(f32::to_bits).ok() != Some(b) {
            return Some("vcf-float-text-lossy");
        }
    }
    None
}

fn vcf_read_eager(header: &vcf::Header, line: &str) -> Result<RecordBuf, String> {
    match guarded(AssertUnwindSafe(|| -> std::io::Result<RecordBuf> {
        let data = format!("{line}\n");
        let mut rd = vcf::io::Reader::new(data.as_bytes());
        let mut rb = RecordBuf::default();
        match rd.read_record_buf(header, &mut rb)? {
            0 => Err(std::io::Error::new(std::io::ErrorKind::UnexpectedEof, "no record")),
            _ => Ok(rb),
        }
    })) {
        Outcome::Done(Ok(x)) => Ok(x),
        Outcome::Done(Err(e)) => Err(format!("Err {}", e.to_string().replace(['\t', '\n'], " "))),
        Outcome::Panicked(m) => Err(format!("Panic {m}")),
    }
}

fn read_into(stream: &[u8], mut rb: RecordBuf) -> Result<RecordBuf, String> {
    match guarded(AssertUnwindSafe(move || -> std::io::Result<RecordBuf> {
        let mut rd = bcf::io::Reader::from(stream);
        let h = rd.read_header()?;
        if rd.read_record_buf(&h, &mut rb)? == 0 {
            return Err(std::io::Error::new(std::io::ErrorKind::UnexpectedEof, "no record"));
        }
        Ok(rb)
    })) {
        Outcome::Done(Ok(x)) => Ok(x),
        Outcome::Done(Err(e)) => Err(format!("Err {e}")),
        Outcome::Panicked(m) => Err(format!("Panic {m}")),
    }
}

pub fn run_vb(c: &Case) -> Obs {
    let ff: Vec<u32> = c.args[0].split('.').map(|x| x.parse().unwrap()).collect();
    let ns: usize = c.args[5].parse().unwrap();
    let h = Hdr {
        ff: (ff[0], ff[1]),
        infos: parse_defs(&c.args[1]),
        filters: parse_pairs(&c.args[2]),
        formats: parse_defs(&c.args[3]),
        contigs: parse_pairs(&c.args[4]),
        samples: (0..ns).map(|i| format!("s{i}")).collect(),
    };
    let r = rec_parse(&c.args[6]);
    let prev = rec_parse(&c.args[9]);
    let v44 = h.ff >= (4, 4);
    let header = match parse_header(&header_text(&h)) {
        Ok(x) => x,
        Err(e) => return Obs::fail("-", "header-rejected", &e),
    };
    let rb = to_buf(&r);
    let sp = special(&r);
    let out = outside(&h, &r);
    // FORMAT keys in a record without sample rows, header without samples: the writer emits
    // n_fmt = number of keys and no FORMAT block
    let keys_no_rows = !r.keys.is_empty() && r.samples.is_empty() && h.samples.is_empty();
    let class = if sp { Some("string-special-chars") } else if keys_no_rows { Some("format-keys-without-sample-rows") } else { None };
    let tag = |generic: &str| class.map(|c| c.to_string()).unwrap_or_else(|| generic.to_string());

    let mut verdict: Result<(), (String, String)> = Ok(());
    let mut fail = |t: String, d: String| {
        if verdict.is_ok() {
            verdict = Err((t, d));
        }
    };
    // BCF
    let mut reused: Option<Rec> = None;
    let (wobs, bback) = match write_bcf(&header, &rb) {
        WriteRes::Err(k) => (format!("Err:{k}"), None),
        WriteRes::Panic(m) => {
            fail(tag("vb-bcf-writer-panic"), format!("Panic {m}"));
            ("Panic".to_string(), None)
        }
        WriteRes::Ok { stream, hlen } => {
            let back = match read_via_buf(&stream) {
                Ok((_, b)) => Some(of_buf(&b)),
                Err(e) => {
                    fail(tag("vb-bcf-reread-fails"), e);
                    None
                }
            };
            // the same bytes read into a RecordBuf that holds another record
            reused = match read_into(&stream, to_buf(&prev)) {
                Ok(b) => Some(of_buf(&b)),
                Err(_) => None,
            };
            if reused.as_ref().map(rec_str) != back.as_ref().map(rec_str) {
                fail("reused-recordbuf-differs".to_string(), format!("fresh {:?} reused {:?}", back.as_ref().map(rec_str), reused.as_ref().map(rec_str)));
            }
            (hex(&stream[hlen..]), back)
        }
    };
    let bcf_written = !wobs.starts_with("Err") && wobs != "Panic";
    // VCF
    let (tobs, vback) = match vcf_text_raw(&header, &rb) {
        Err(_) => ("WErr".to_string(), None),
        Ok(line) => {
            let back = match vcf_read_eager(&header, &line) {
                Ok(b) => Some(of_buf(&b)),
                Err(_) => None,
            };
            (hex(line.as_bytes()), back)
        }
    };
    let vcf_written = tobs != "WErr";
    let show = |o: &Option<Rec>| o.as_ref().map(rec_str).unwrap_or("Err".into());
    let showc = |o: &Option<Rec>| o.as_ref().map(|x| rec_str(&content(v44, x))).unwrap_or("-".into());
    let (cb, cv) = (showc(&bback), showc(&vback));
    let mut nontrivial = false;
    if bcf_written && vcf_written && vback.is_some() {
        nontrivial = true;
        if bback.is_some() && cb != cv {
            fail(tag("vb-content-differs"), format!("bcf {cb} != vcf {cv}"));
        }
    }
    if out.is_some() {
        // outside the domain: only a panic is a failure
        nontrivial = false;
        if let Err((_, d)) = &verdict {
            if !d.starts_with("Panic") {
                verdict = Ok(());
            }
        }
    }
    let obs = [wobs, show(&bback), tobs, show(&vback), cb, cv, (if sp { "special" } else { "plain" }).to_string(), show(&reused)].join("|");
    finish(Obs::ok(obs, nontrivial), verdict)
}

/// the VCF line exactly as written (no trimming), without its LF
fn vcf_text_raw(header: &vcf::Header, rb: &RecordBuf) -> Result<String, String> {
    match guarded(AssertUnwindSafe(|| -> std::io::Result<Vec<u8>> {
        let mut w = vcf::io::Writer::new(Vec::new());
        w.write_variant_record(header, rb)?;
        Ok(w.into_inner())
    })) {
        Outcome::Done(Ok(b)) => {
            let mut s = String::from_utf8(b).map_err(|e| e.to_string())?;
            if s.ends_with('\n') {
                s.pop();
            }
            Ok(s)
        }
        Outcome::Done(Err(e)) => Err(format!("Err {e}")),
        Outcome::Panicked(m) => Err(format!("Panic {m}")),
    }
}

pub fn gen_vb(rng: &mut Rng, tier: &str, w: &mut CaseWriter) {
    let n = if tier == "thorough" { 12000 } else { 900 };
    for i in 0..n {
        let profile = match i % 12 {
            0 => "infomissing",
            1 => "gtwild",
            2 => "fmtallmissing",
            3 | 4 => "special",
            5 => "idxperm",
            _ => "clean",
        };
        let mut h = gen_header(rng, profile == "idxperm");
        let mut r = gen_record(rng, &h, profile);
        // REF with IUPAC codes / lower case (the VCF writer resolves them, the BCF writer does not)
        if rng.chance(1, 6) {
            r.refb = (0..rng.range(1, 5)).map(|_| *rng.pick(&['A', 'c', 'R', 'y', 'N', 'k', 'T', 'w'])).collect();
        }
        // a Flag whose value is missing
        if rng.chance(1, 25) {
            if let Some(d) = h.infos.iter().find(|d| d.ty == Ty::Flag) {
                let id = d.id.clone();
                r.info.retain(|(k, _)| k != &id);
                r.info.push((id, None));
            }
        }
        // value of the wrong variant for its key (the BCF writer checks FORMAT, not INFO)
        if rng.chance(1, 30) && !r.samples.is_empty() && !r.keys.is_empty() {
            let j = rng.below(r.keys.len() as u64) as usize;
            let s = rng.below(r.samples.len() as u64) as usize;
            // (not under a Float key: the VCF re-read would parse text the float oracle of the
            // VCF model has no entry for)
            let is_float = h.formats.iter().any(|d| d.id == r.keys[j] && d.ty == Ty::Float);
            if j < r.samples[s].len() && !is_float {
                r.samples[s][j] = Some(match rng.below(3) { 0 => V::I(3), 1 => V::S("x".into()), _ => V::AI(vec![Some(1), None]) });
            }
        }
        // no samples although the header has some / keys without rows
        if rng.chance(1, 30) {
            r.samples.clear();
            if rng.chance(1, 2) {
                r.keys.clear();
            }
        }
        // FORMAT keys but no sample at all, under a header without samples
        if rng.chance(1, 25) && !h.formats.is_empty() {
            h.samples.clear();
            r.samples.clear();
            if r.keys.is_empty() {
                r.keys.push(h.formats[0].id.clone());
            }
        }
        // what the reused RecordBuf holds when the record is read into it
        let prev = gen_record(rng, &h, "clean");
        if let Some(args) = vb_args(&h, &r, &prev) {
            w.push("vb", args);
        }
    }
}

// ---------------------------------------------------------------------------------------------
// `mr`: several records of ONE BCF file read into reused buffers (implementation-side oracle).
//   mr seed        header + 3..7 records derived from the seed, alternating rich / poor in every
//                  column (IDs, ALT, QUAL, FILTER, INFO fields, FORMAT keys, per-sample values);
//                  the records the writer accepts are written to one file, which is read
//                  (A) with ONE RecordBuf through a read_record_buf loop, (B) through record_bufs(),
//                  (C) with a fresh RecordBuf per record, (D) with ONE lazy bcf::Record (converted by
//                  RecordBuf::try_from_variant_record).  Oracle: A = B = C record by record, and D = C.

fn poor_of(rng: &mut Rng, h: &Hdr, rich: &Rec) -> Rec {
    let mut r = Rec { chrom: rich.chrom.clone(), pos: rich.pos.max(1), refb: "A".into(), ..Rec::default() };
    let ns = h.samples.len();
    match rng.below(3) {
        // nothing at all but the rows the header demands
        0 => r.samples = vec![vec![]; ns],
        // the same keys, every value missing (GT kept: it cannot be missing)
        1 => {
            r.keys = rich.keys.clone();
            r.samples = rich
                .samples
                .iter()
                .map(|row| row.iter().enumerate().map(|(j, v)| if r.keys.get(j).map(|k| k == "GT").unwrap_or(false) { v.clone() } else { None }).collect())
                .collect();
            if r.samples.len() != ns {
                r.keys.clear();
                r.samples = vec![vec![]; ns];
            }
        }
        // the first key only
        _ => {
            if let Some(k) = rich.keys.first() {
                r.keys = vec![k.clone()];
                r.samples = rich.samples.iter().map(|row| row.iter().take(1).cloned().collect()).collect();
            }
            if r.samples.len() != ns {
                r.keys.clear();
                r.samples = vec![vec![]; ns];
            }
        }
    }
    r
}

fn read_all(stream: &[u8], mode: u8) -> Result<Vec<Rec>, String> {
    match guarded(AssertUnwindSafe(|| -> std::io::Result<Vec<Rec>> {
        let mut rd = bcf::io::Reader::from(stream);
        let h = rd.read_header()?;
        let mut out = vec![];
        match mode {
            b'A' => {
                let mut rb = RecordBuf::default();
                while rd.read_record_buf(&h, &mut rb)? != 0 {
                    out.push(of_buf(&rb));
                }
            }
            b'B' => {
                for result in rd.record_bufs(&h) {
                    out.push(of_buf(&result?));
                }
            }
            b'C' => loop {
                let mut rb = RecordBuf::default();
                if rd.read_record_buf(&h, &mut rb)? == 0 {
                    break;
                }
                out.push(of_buf(&rb));
            },
            _ => {
                let mut rec = bcf::Record::default();
                while rd.read_record(&mut rec)? != 0 {
                    out.push(of_buf(&RecordBuf::try_from_variant_record(&h, &rec)?));
                }
            }
        }
        Ok(out)
    })) {
        Outcome::Done(Ok(x)) => Ok(x),
        Outcome::Done(Err(e)) => Err(format!("Err {}", e.to_string().replace(['\t', '\n'], " "))),
        Outcome::Panicked(m) => Err(format!("Panic {m}")),
    }
}

pub fn run_mr(c: &Case) -> Obs {
    let mut rng = Rng::new(c.u(0));
    let h = gen_header(&mut rng, false);
    let n = rng.range(3, 7) as usize;
    let mut recs: Vec<Rec> = vec![];
    let mut last_rich = gen_record(&mut rng, &h, "clean");
    for i in 0..n {
        if i % 2 == 0 {
            let profile = if rng.chance(1, 4) { "infomissing" } else { "clean" };
            last_rich = gen_record(&mut rng, &h, profile);
            recs.push(last_rich.clone());
        } else {
            recs.push(poor_of(&mut rng, &h, &last_rich));
        }
    }
    if rng.chance(1, 2) {
        recs.reverse(); // poor first
    }
    let header = match parse_header(&header_text(&h)) {
        Ok(x) => x,
        Err(e) => return Obs::fail("-", "header-rejected", &e),
    };
    // keep the records the writer accepts and that are inside the property's domain
    let recs: Vec<Rec> = recs
        .into_iter()
        .filter(|r| outside_domain(r).is_none() && known_class(&h, r).is_none() && matches!(write_bcf(&header, &to_buf(r)), WriteRes::Ok { .. }))
        .collect();
    if recs.len() < 2 {
        return Obs::ok("-", false);
    }
    let mut w = bcf::io::Writer::from(Vec::new());
    let written = guarded(AssertUnwindSafe(|| -> std::io::Result<()> {
        w.write_header(&header)?;
        for r in &recs {
            w.write_variant_record(&header, &to_buf(r))?;
        }
        Ok(())
    }));
    if !matches!(written, Outcome::Done(Ok(()))) {
        return Obs::fail("-", "mr-writer-fails", "a record accepted alone is rejected in sequence");
    }
    let stream = w.into_inner();
    let fresh = match read_all(&stream, b'C') {
        Ok(x) => x,
        Err(e) => return Obs::fail("-", "mr-fresh-read-fails", &e),
    };
    if fresh.len() != recs.len() {
        return Obs::fail("-", "mr-record-count", format!("{} written, {} read", recs.len(), fresh.len()));
    }
    for (mode, tag) in [(b'A', "reused-recordbuf-differs"), (b'B', "record-bufs-iterator-differs"), (b'D', "reused-lazy-record-differs")] {
        let got = match read_all(&stream, mode) {
            Ok(x) => x,
            Err(e) => return Obs::fail("-", tag, format!("read fails: {e}")),
        };
        if got.len() != fresh.len() {
            return Obs::fail("-", tag, format!("{} records instead of {}", got.len(), fresh.len()));
        }
        for (i, (a, b)) in got.iter().zip(fresh.iter()).enumerate() {
            // the reused eager paths must agree exactly; the lazy view up to the canonical text
            let d = if mode == b'D' { first_diff(&canon(b), &canon(a)) } else if rec_str(a) != rec_str(b) { Some(format!("{} != {}", rec_str(a), rec_str(b))) } else { None };
            if let Some(d) = d {
                return Obs::fail("-", tag, format!("record {i} of {}: {d}", fresh.len()));
            }
        }
    }
    // and the fresh read is the written record
    for (i, (a, b)) in recs.iter().zip(fresh.iter()).enumerate() {
        if let Some(d) = first_diff(&canon(a), &canon(b)) {
            return Obs::fail("-", "mr-fresh-differs-from-written", format!("record {i}: {d}"));
        }
    }
    Obs::ok("-", true)
}

pub fn gen_mr(rng: &mut Rng, tier: &str, w: &mut CaseWriter) {
    let n = if tier == "thorough" { 6000 } else { 500 };
    for _ in 0..n {
        w.push("mr", vec![rng.next().to_string()]);
    }
}
