//! C07 `file` kind (L2 for NV.CramRec.File + L3): a stream of records through the real writer with
//! records_per_slice = rps (one slice per container) and back through the real reader.
//!
//!   file rps refs recs        refs / recs as in the `mates` kind; the records were generated slice by
//!                             slice (templates inside a slice and across slices)
//!   obs = `<layout> <recs>`:  layout = ','-joined record counts of the data containers of the FILE as the
//!         independent walker reads them (container header n_records; one slice per container),
//!         recs = ';'-joined  flag,rid,pos,rl?,cigar,seqhex,mrid,mpos,tlen  of the records read back,
//!         where for a record flagged unmapped cigar = `_` and seqhex = `-` (its bases travel in the BA
//!         series, which the model does not hold); or Err:<kind> (writer) / ReadErr:<kind> (reader) / Panic
//!   verdict: every column read back = the column written (CIGAR with =/X as M and adjacent ops merged,
//!         bases up to case), layout = chunks of rps records
use super::mates::{MRec, fmt_mrecs, gen_recs, header_of, name_bytes, parse_mrecs, record_of};
use super::*;

fn cols(r: &RecordBuf) -> (u16, i64, usize, String, Vec<u8>, i64, usize, i32, Option<Vec<u8>>) {
    let cig: String = r.cigar().as_ref().iter().map(|op| format!("{}{}", op.len(), kind_char(op.kind()))).collect();
    (
        u16::from(r.flags()),
        r.reference_sequence_id().map(|x| x as i64).unwrap_or(-1),
        r.alignment_start().map(usize::from).unwrap_or(0),
        cig,
        r.sequence().as_ref().to_vec(),
        r.mate_reference_sequence_id().map(|x| x as i64).unwrap_or(-1),
        r.mate_alignment_start().map(usize::from).unwrap_or(0),
        r.template_length(),
        r.name().map(|n| { let b: &[u8] = n.as_ref(); b.to_vec() }),
    )
}

pub fn run_file(c: &Case) -> Obs {
    let rps = c.u(0) as usize;
    let refs = parse_refs(&c.args[1]);
    let ms = parse_mrecs(&c.args[2]);
    let h = header_of(&refs);
    let recs: Vec<RecordBuf> = ms.iter().map(record_of).collect();
    let o = Opts { names: true, deltas: true, rps, enc: "all:none".into() };
    type Row = (u16, i64, usize, String, Vec<u8>, i64, usize, i32, Option<Vec<u8>>);
    let res = nv::guarded(AssertUnwindSafe(|| -> Result<(Vec<usize>, Vec<Row>, String), String> {
        let file = write_cram(&o, &refs, &h, &recs).map_err(|e| format!("Err:{}", nv::errkind(&e)))?;
        let (_, back) = read_cram(&refs, &file).map_err(|e| format!("ReadErr:{}", nv::errkind(&e)))?;
        let w = walk::walk_file(&file).map_err(|e| format!("Walk:{e}"))?;
        let layout: Vec<usize> = w.containers.iter().skip(1).map(|c| c.n_records as usize).collect();
        if w.containers.iter().skip(1).any(|c| c.landmarks.len() != 1) {
            return Err("Walk:slices per container".into());
        }
        // the raw RN block (external, content id 7) of every slice
        let mut names = Vec::new();
        for c in w.containers.iter().skip(1) {
            let mut raw = Vec::new();
            for b in c.blocks.iter().filter(|b| b.ctype == 4 && b.cid == 7) {
                if b.method != 0 {
                    return Err("Walk:RN block is compressed".into());
                }
                raw.extend_from_slice(&file[b.data.0..b.data.1]);
            }
            names.push(hex(&raw));
        }
        Ok((layout, back.iter().map(cols).collect(), names.join("/")))
    }));
    match res {
        Outcome::Panicked(m) => Obs::fail("Panic", "file-panic", m),
        Outcome::Done(Err(e)) => {
            // the generator only makes the writer refuse a mate position that is not an i32
            // ... or (once /repo refuses it: fixes 09 / 10) a name holding a NUL byte
            let big = ms.iter().any(|r| r.mpos > i32::MAX as usize || r.name.contains("^@"));
            let o = Obs::ok(e.clone(), false);
            if big && e == "Err:InvalidInput" { o } else { o.with_verdict(fail("file-rejected", e)) }
        }
        Outcome::Done(Ok((layout, rows, name_blocks))) => {
            let obs = format!(
                "{} {} N:{name_blocks}",
                layout.iter().map(|n| n.to_string()).collect::<Vec<_>>().join(","),
                rows.iter()
                    .map(|(f, r, p, cg, sq, mr, mp, t, nm)| {
                        let un = f & 4 != 0;
                        format!(
                            "{f},{r},{p},{},{},{mr},{mp},{t},{}",
                            if un || cg.is_empty() { "_".to_string() } else { cg.clone() },
                            if un { "-".to_string() } else { hex(sq) },
                            match nm { Some(n) => hex(n), None => "*".to_string() }
                        )
                    })
                    .collect::<Vec<_>>()
                    .join(";")
            );
            let mut verdict = Ok(());
            // layout: chunks of rps records
            let mut want = Vec::new();
            let mut left = ms.len();
            while left > 0 {
                want.push(left.min(rps));
                left -= left.min(rps);
            }
            if layout != want {
                verdict = fail("file-slice-layout", format!("rps {rps}, {} records: {layout:?}", ms.len()));
            } else if rows.len() != ms.len() {
                verdict = fail("file-record-count", format!("{} written, {} read", ms.len(), rows.len()));
            } else {
                for (i, (m, a)) in ms.iter().zip(&rows).enumerate() {
                    let un = m.flag & 4 != 0;
                    let want_c = if un || m.cigar == "*" { String::new() } else { norm_cigar(&m.cigar) };
                    let same = m.flag == a.0
                        && m.rid == a.1
                        && m.pos == a.2
                        && want_c == a.3
                        && m.seq.eq_ignore_ascii_case(&a.4)
                        && m.mrid == a.5
                        && m.mpos == a.6
                        && m.tlen == a.7;
                    let name_same = m.name == "*" || a.8.as_deref() == Some(&name_bytes(&m.name)[..]);
                    if same && !name_same {
                        // the RN series is NUL-terminated: a NUL inside a name of the same slice cuts that
                        // name in two and shifts every later name of the slice
                        let lo = i / rps * rps;
                        let nul = ms[lo..(lo + rps).min(ms.len())].iter().any(|r| r.name.contains("^@"));
                        verdict = fail(
                            if nul { "cram-read-name-with-nul-byte-shifts-names" } else { "file-name-changed" },
                            format!("record {i} of {} (rps {rps}): wrote name {:?} read {:?}", ms.len(), m.name, a.8),
                        );
                        break;
                    }
                    if !same {
                        verdict = fail(
                            "file-record-changed",
                            format!("record {i} of {} (rps {rps}): wrote {m:?} read {a:?}", ms.len()),
                        );
                        break;
                    }
                }
            }
            Obs::ok(obs, layout.len() >= 2).with_verdict(verdict)
        }
    }
}

pub fn push_file(rng: &mut Rng, w: &mut CaseWriter) {
    let nrefs = rng.range(1, 2) as usize;
    let refs: Refs = (0..nrefs)
        .map(|i| {
            let len = rng.range(60, 160) as usize;
            (format!("r{i}"), cgen::gen_ref(rng, len))
        })
        .collect();
    let rps = rng.range(1, 6) as usize;
    let slices = rng.range(1, 4) as usize;
    let mut rs: Vec<MRec> = Vec::new();
    for k in 0..slices {
        let n = if k + 1 == slices { rng.range(1, rps as u64) as usize } else { rps };
        rs.extend(gen_recs(rng, &refs, n));
    }
    // every 40th stream: a NUL byte inside one name (`^@` in the case text), or the name `*` itself
    if rng.chance(1, 40) {
        let i = rng.below(rs.len() as u64) as usize;
        rs[i].name = match rng.below(4) {
            0 => "^@".to_string(),
            1 => "x^@".to_string(),
            2 => "^@y".to_string(),
            _ => "x^@y^@z".to_string(),
        };
    }
    w.push("file", vec![rps.to_string(), fmt_refs(&refs), fmt_mrecs(&rs)]);
}
