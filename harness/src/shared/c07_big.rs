//! C07 `big` kind: LARGE slices whose block sizes sweep the ITF8 width boundaries (127/128,
//! 16383/16384, 2097151/2097152) of the raw-size and compressed-size fields of the block header
//! (io/writer/container/block.rs Block::size -> itf8_size_of, write_block -> write_itf8), for
//! several data series: quality scores + bases (QS/BA), read names (RN), a tag value series, and
//! the feature series of mapped reads.
//!
//!   big series n len enc target blocks
//!        the records are rebuilt deterministically from (series, n, len): n records, each with a
//!        payload of `len` bytes in the series; `target` = which size was aimed at (informative);
//!        `blocks` = the block descriptors of the data container seen at generation time (`-` when
//!        the file written at generation time could not be walked: the case is kept, so that a
//!        writer whose container lengths are wrong is reported, not skipped).
//!   obs = len / block count / landmarks of the data container as the independent walker reads them
//!         (model: NV.CramRec.Container.build_container on `blocks`, i.e. Block::size with
//!         itf8_size_of for every size field)
//!   verdict: the structural walk of `rt` (declared container length, landmarks = real offsets,
//!         CRC-32, raw sizes, counters, EOF) and the record round trip of `rt`.
use super::*;

fn lcg(seed: u64) -> impl FnMut() -> u64 {
    let mut s = seed.wrapping_mul(0x9E37_79B9_7F4A_7C15).wrapping_add(0x1234_5678_9ABC_DEF1);
    move || {
        s = s.wrapping_mul(6364136223846793005).wrapping_add(1442695040888963407);
        s >> 33
    }
}

/// SAM text of the stream (one reference r0)
pub fn big_text(series: &str, n: usize, len: usize) -> (Refs, Vec<u8>) {
    let mut next = lcg((n as u64) << 24 ^ len as u64 ^ (series.len() as u64) << 56);
    let reflen = if series == "map" { len + 150 } else { 40 };
    let refb: Vec<u8> = (0..reflen).map(|_| b"ACGT"[(next() % 4) as usize]).collect();
    let mut t = format!("@HD\tVN:1.6\n@SQ\tSN:r0\tLN:{reflen}\n").into_bytes();
    let bases = |next: &mut dyn FnMut() -> u64, l: usize| -> Vec<u8> { (0..l).map(|_| b"ACGT"[(next() % 4) as usize]).collect() };
    let quals = |next: &mut dyn FnMut() -> u64, l: usize| -> Vec<u8> { (0..l).map(|_| 33 + (next() % 41) as u8).collect() };
    for i in 0..n {
        let mut line: Vec<u8> = Vec::new();
        match series {
            "qs" => {
                line.extend_from_slice(format!("q{i}\t4\t*\t0\t0\t*\t*\t0\t0\t").as_bytes());
                line.extend(bases(&mut next, len));
                line.push(b'\t');
                line.extend(quals(&mut next, len));
            }
            "rn" => {
                let mut name = format!("n{i}").into_bytes();
                while name.len() < len {
                    name.push(b'a' + (next() % 26) as u8);
                }
                name.truncate(len.max(1));
                line.extend(name);
                line.extend_from_slice(b"\t4\t*\t0\t0\t*\t*\t0\t0\tA\tI");
            }
            "tag" => {
                line.extend_from_slice(format!("t{i}\t4\t*\t0\t0\t*\t*\t0\t0\tA\tI\tXZ:Z:").as_bytes());
                line.extend((0..len).map(|_| b'a' + (next() % 26) as u8));
            }
            "map" => {
                // a forward read with a substitution at every 4th base
                let pos = 1 + i % 100;
                let mut s: Vec<u8> = refb[pos - 1..pos - 1 + len].to_vec();
                for k in (0..len).step_by(4) {
                    s[k] = match s[k] {
                        b'A' => b'C',
                        b'C' => b'G',
                        b'G' => b'T',
                        _ => b'A',
                    };
                }
                line.extend_from_slice(format!("m{i}\t0\tr0\t{pos}\t30\t{len}M\t*\t0\t0\t").as_bytes());
                line.extend(s);
                line.push(b'\t');
                line.extend(quals(&mut next, len));
            }
            other => panic!("big series {other}"),
        }
        line.push(b'\n');
        t.extend(line);
    }
    (vec![("r0".to_string(), refb)], t)
}

fn big_opts(n: usize, enc: &str) -> Opts {
    Opts { names: true, deltas: true, rps: n + 1, enc: enc.to_string() }
}

/// the content id whose block the case aims at
fn series_cid(series: &str) -> Option<i32> {
    match series {
        "qs" => Some(28),
        "rn" => Some(7),
        "map" => Some(15), // FC: one byte per feature
        _ => None,         // tag: the only block with an id above the data series ids
    }
}

struct Written {
    file: Vec<u8>,
    h: sam::Header,
    recs: Vec<RecordBuf>,
    refs: Refs,
}

fn write_big(series: &str, n: usize, len: usize, enc: &str) -> Result<Written, String> {
    let (refs, text) = big_text(series, n, len);
    let (h, recs) = parse_sam(&text).map_err(|e| format!("parse: {e}"))?;
    let file = write_cram(&big_opts(n, enc), &refs, &h, &recs).map_err(|e| format!("write: {e}"))?;
    Ok(Written { file, h, recs, refs })
}

/// (compressed size, raw size) of the aimed block in the data container
fn aimed_sizes(series: &str, file: &[u8]) -> Option<(i32, i32)> {
    let w = walk::walk_file(file).ok()?;
    let c = w.containers.get(1)?;
    let b = match series_cid(series) {
        Some(cid) => c.blocks.iter().find(|b| b.ctype == 4 && b.cid == cid)?,
        None => c.blocks.iter().filter(|b| b.ctype == 4).max_by_key(|b| b.cid)?,
    };
    Some((b.csize, b.rsize))
}

fn push_one(w: &mut CaseWriter, series: &str, n: usize, len: usize, enc: &str, target: &str) {
    let descr = match nv::guarded(AssertUnwindSafe(|| write_big(series, n, len, enc))) {
        Outcome::Done(Ok(wr)) => match walk::walk_file(&wr.file) {
            Ok(wk) if wk.containers.len() == 2 => describe_blocks(&sorted_container(&wk.containers[1])),
            _ => "-".to_string(),
        },
        _ => "-".to_string(),
    };
    w.push("big", vec![series.to_string(), n.to_string(), len.to_string(), enc.to_string(), target.to_string(), descr]);
}

/// n * unit = b with unit in 2..=250 (names and tag values stay short), n smallest; (1, b) otherwise
fn factor(b: usize) -> (usize, usize) {
    for unit in (2..=250usize).rev() {
        if b % unit == 0 {
            return (b / unit, unit);
        }
    }
    (1, b)
}

/// smallest len (n = 1 record, or n records of len each for rn) whose aimed block has a compressed
/// size >= target; None if the search fails
fn search_len(series: &str, enc: &str, target: i32, per: usize) -> Option<usize> {
    let size = |l: usize| -> Option<i32> {
        let (n, len) = if series == "qs" { (1, l) } else { (l.div_ceil(per).max(1), per) };
        let wr = write_big(series, n, len, enc).ok()?;
        aimed_sizes(series, &wr.file).map(|x| x.0)
    };
    let (mut lo, mut hi) = (1usize, (target as usize) * 5 + 64);
    if size(hi)? < target {
        return None;
    }
    while lo < hi {
        let mid = (lo + hi) / 2;
        if size(mid)? >= target { hi = mid } else { lo = mid + 1 }
    }
    Some(lo)
}

pub fn push_big(_rng: &mut Rng, tier: &str, w: &mut CaseWriter) {
    let thorough = tier == "thorough";
    let bounds: &[usize] = if thorough { &[128, 16384, 2097152] } else { &[128, 16384] };
    for &b in bounds {
        // raw sizes b-1, b, b+1 (the ITF8 form changes between b-1 and b)
        for t in [b - 1, b, b + 1] {
            // one long unmapped read: QS and BA blocks of exactly t bytes
            push_one(w, "qs", 1, t, "all:none", &format!("raw={t}"));
            // names: n * (len + 1) bytes in RN; tag values likewise
            let (n, unit) = factor(t);
            if unit <= 250 {
                push_one(w, "rn", n, unit - 1, "all:none", &format!("raw={t}"));
                push_one(w, "tag", n, unit - 1, "all:none", &format!("raw~{t}"));
            }
        }
        // many records (the same sizes through the multi-record path)
        let (n, unit) = factor(b);
        push_one(w, "qs", n, unit, "all:none", &format!("raw={b}"));
        push_one(w, "qs", n, unit, "all:gz6", &format!("raw={b}"));
        // compressed sizes around b: search the payload length whose gzip output reaches b
        for (series, per) in [("qs", 1usize), ("rn", 9)] {
            if b > 200_000 && series == "rn" {
                continue;
            }
            let found = nv::guarded(AssertUnwindSafe(|| search_len(series, "all:gz6", b as i32, per)));
            if let Outcome::Done(Some(l)) = found {
                // gzip output is not monotone in the input length: look at a window around the
                // crossing and keep one payload per compressed size in b-2 ..= b+1
                let mut seen: Vec<i32> = Vec::new();
                for d in -8i64..=8 {
                    let l = (l as i64 + d * per as i64).max(1) as usize;
                    let (n, len) = if series == "qs" { (1, l) } else { (l.div_ceil(per).max(1), per) };
                    let cs = match nv::guarded(AssertUnwindSafe(|| write_big(series, n, len, "all:gz6").ok().and_then(|wr| aimed_sizes(series, &wr.file)))) {
                        Outcome::Done(Some((cs, _))) => cs,
                        _ => continue,
                    };
                    if (cs - b as i32).abs() <= 2 && cs <= b as i32 + 1 && !seen.contains(&cs) {
                        seen.push(cs);
                        push_one(w, series, n, len, "all:gz6", &format!("compressed={cs}"));
                    }
                }
                if seen.is_empty() {
                    let (n, len) = if series == "qs" { (1, l) } else { (l.div_ceil(per).max(1), per) };
                    push_one(w, series, n, len, "all:gz6", &format!("compressed~{b}"));
                }
            }
        }
        // mapped reads: FC (one byte per feature) around b, other feature series of the same order
        if b <= 20_000 {
            // one substitution per 4-base read: FC / FP / BS / BF / CF / RL / MQ ... all hold t values
            for t in [b - 1, b, b + 1] {
                push_one(w, "map", t, 4, "all:none", &format!("raw={t}"));
            }
            push_one(w, "map", b + 1, 4, "all:gz6", &format!("raw={}", b + 1));
        }
    }
}

pub fn run_big(c: &Case) -> Obs {
    let series = c.args[0].as_str();
    let n: usize = c.args[1].parse().unwrap();
    let len: usize = c.args[2].parse().unwrap();
    let enc = c.args[3].as_str();
    let wr = match nv::guarded(AssertUnwindSafe(|| write_big(series, n, len, enc))) {
        Outcome::Panicked(m) => return Obs::fail("Panic", "big-write-panic", m),
        Outcome::Done(Err(e)) => return Obs::fail("Err", "big-write-rejected", e),
        Outcome::Done(Ok(x)) => x,
    };
    let o = big_opts(n, enc);
    // structure first: a wrong length or landmark is what this kind is for
    let structure = nv::guarded(AssertUnwindSafe(|| check_structure(&o, &wr.refs, &wr.h, &wr.recs, &wr.file)));
    let content = nv::guarded(AssertUnwindSafe(|| rt_content(&o, &wr.refs, &wr.h, &wr.recs, &wr.file)));
    let verdict: Result<(), Fail> = match (structure, content) {
        (Outcome::Panicked(m), _) => fail("big-walk-panic", m),
        (Outcome::Done(Err(e)), _) => Err(e),
        (_, Outcome::Panicked(m)) => fail("big-read-panic", m),
        (_, Outcome::Done(Err(e))) => Err(e),
        _ => Ok(()),
    };
    let (obs, nontrivial) = match walk::walk_file(&wr.file) {
        Ok(wk) if wk.containers.len() == 2 => {
            let sc = sorted_container(&wk.containers[1]);
            let d = describe_blocks(&sc);
            if d != c.args[5] {
                let v = if verdict.is_err() { verdict } else { fail("big-regenerate", format!("block descriptors changed: {d}")) };
                return Obs::ok(cont_obs(&wk.containers[1]), true).with_verdict(v);
            }
            // non-trivial: some size field of some block sits right at an ITF8 width boundary
            let near = |x: i32| [127, 128, 16383, 16384, 2097151, 2097152].contains(&x);
            let hit = sc.blocks.iter().any(|b| near(b.csize) || near(b.rsize) || (16384..32768).contains(&b.csize) || (16384..32768).contains(&b.rsize));
            (cont_obs(&wk.containers[1]), hit)
        }
        Ok(wk) => ("-".to_string(), wk.containers.len() > 1),
        Err(_) => ("-".to_string(), true),
    };
    Obs::ok(obs, nontrivial).with_verdict(verdict)
}
