//! C20 shared helpers: sources with a chosen first-read window, the DEFLATE oracle, verdict type.

use std::io::{self, BufReader, Cursor, Read};

use nv::adversary::{Deliver, ScriptedReader};

pub type V = Result<(), (String, String)>;

pub fn bad<T>(tag: impl Into<String>, detail: impl Into<String>) -> Result<T, (String, String)> {
    Err((tag.into(), detail.into()))
}

/// What flate2's MultiGzDecoder delivers from `w`: up to `want` bytes, and how it stops: "Eof" for a
/// clean end (read returns Ok(0)), else the error kind.  When `want` bytes were delivered the stop
/// is not reached and is reported as "Eof".
pub fn gz_oracle(w: &[u8], want: usize) -> (Vec<u8>, String) {
    let mut d = flate2::bufread::MultiGzDecoder::new(w);
    let mut out = Vec::new();
    let mut b = [0u8; 1];
    while out.len() < want {
        match d.read(&mut b) {
            Ok(0) => return (out, "Eof".into()),
            Ok(_) => out.push(b[0]),
            Err(e) if e.kind() == io::ErrorKind::Interrupted => continue,
            Err(e) => return (out, nv::errkind(&e)),
        }
    }
    (out, "Eof".into())
}

/// A source over `data`:
///   c        Cursor (one read delivers everything asked for)
///   b<cap>   std BufReader with capacity cap over a Cursor
///   s<k>     the first read delivers k bytes, later reads everything asked for
///   t<k>     every read delivers at most k bytes
pub fn make_reader(kind: &str, data: Vec<u8>) -> Box<dyn Read> {
    let (k, n) = kind.split_at(1);
    let n: usize = n.parse().unwrap_or(0);
    match k {
        "b" => Box::new(BufReader::with_capacity(n.max(1), Cursor::new(data))),
        "s" => Box::new(ScriptedReader::new(data, vec![Deliver::Bytes(n.max(1))])),
        "t" => {
            let len = data.len() + 2;
            Box::new(ScriptedReader::new(data, vec![Deliver::Bytes(n.max(1)); len]))
        }
        _ => Box::new(Cursor::new(data)),
    }
}

/// length of the first fill_buf window of std BufReader::new over make_reader(kind, data)
pub fn first_window_len(kind: &str, len: usize) -> usize {
    let (k, n) = kind.split_at(1);
    let n: usize = n.parse().unwrap_or(0);
    let full = len.min(8192);
    match k {
        "s" | "t" => full.min(n.max(1)),
        _ => full,
    }
}

pub fn is_gz(bytes: &[u8]) -> bool {
    bytes.len() >= 2 && bytes[0] == 0x1f && bytes[1] == 0x8b
}

pub fn show(bs: &[u8]) -> String {
    let s: String = bs
        .iter()
        .take(120)
        .map(|&b| if (0x20..0x7f).contains(&b) { b as char } else if b == b'\t' { '|' } else { '?' })
        .collect();
    s
}

pub fn first_diff(exp: &[Vec<u8>], got: &[Vec<u8>]) -> Option<String> {
    if exp.len() != got.len() {
        return Some(format!("record count {} != {}", got.len(), exp.len()));
    }
    for (i, (a, b)) in exp.iter().zip(got).enumerate() {
        if a != b {
            return Some(format!("record {i}: expected `{}` got `{}`", show(a), show(b)));
        }
    }
    None
}

/// which tab-separated column (0-based) of two lines differs first
pub fn diff_column(a: &[u8], b: &[u8]) -> usize {
    let ca: Vec<&[u8]> = a.split(|&c| c == b'\t').collect();
    let cb: Vec<&[u8]> = b.split(|&c| c == b'\t').collect();
    for i in 0..ca.len().max(cb.len()) {
        if ca.get(i) != cb.get(i) {
            return i;
        }
    }
    usize::MAX
}

/// an AsyncWrite sink whose bytes survive the writer
#[derive(Clone, Default)]
pub struct AsyncSink(pub std::sync::Arc<std::sync::Mutex<Vec<u8>>>);
impl tokio::io::AsyncWrite for AsyncSink {
    fn poll_write(self: std::pin::Pin<&mut Self>, _: &mut std::task::Context<'_>, buf: &[u8]) -> std::task::Poll<io::Result<usize>> {
        self.0.lock().unwrap().extend_from_slice(buf);
        std::task::Poll::Ready(Ok(buf.len()))
    }
    fn poll_flush(self: std::pin::Pin<&mut Self>, _: &mut std::task::Context<'_>) -> std::task::Poll<io::Result<()>> {
        std::task::Poll::Ready(Ok(()))
    }
    fn poll_shutdown(self: std::pin::Pin<&mut Self>, _: &mut std::task::Context<'_>) -> std::task::Poll<io::Result<()>> {
        std::task::Poll::Ready(Ok(()))
    }
}

pub fn block_on<F: std::future::Future>(f: F) -> F::Output {
    tokio::runtime::Builder::new_current_thread().build().unwrap().block_on(f)
}
