//! C14, fourth deepening wave: which call of the multithreaded writer reports a failure (`mta`).
//!
//!   mta pool script ops seed frames plan
//!       one life of bgzf::io::MultithreadedWriter (ops W<n>/F, then finish()) under the script, with
//!       the schedule forced through `noodles_bgzf::verif_gate`: the gate holds every compress task
//!       (so the writer thread cannot write anything) except at the synchronisation points of the
//!       plan -- plan[i] = 1: after op i has returned, open the gate and wait until the writer thread
//!       has written every block submitted so far or has exited, then close the gate again.  The gate
//!       is opened for good before finish().  obs = the result of EVERY API call (so: which call
//!       returned the error), number of inner calls, sink bytes; compared with
//!       NV.Sinks.MtApp.mta_model run under the same plan.

use super::*;
use std::sync::Condvar;
use std::time::Instant;

/// sink wrapper that tells when the writer thread has dropped it (= the thread's closure returned)
struct DropSink {
    inner: TSink,
    dropped: Arc<AtomicBool>,
}
impl Write for DropSink {
    fn write(&mut self, buf: &[u8]) -> io::Result<usize> {
        self.inner.write(buf)
    }
    fn flush(&mut self) -> io::Result<()> {
        self.inner.flush()
    }
}
impl Drop for DropSink {
    fn drop(&mut self) {
        self.dropped.store(true, Ordering::SeqCst);
    }
}

struct Gate {
    open: Mutex<bool>,
    cv: Condvar,
}
impl Gate {
    fn set(&self, open: bool) {
        *self.open.lock().unwrap() = open;
        self.cv.notify_all();
    }
    fn pass(&self) {
        let mut g = self.open.lock().unwrap();
        let deadline = Instant::now() + Duration::from_secs(8);
        while !*g {
            let now = Instant::now();
            if now >= deadline {
                break;
            }
            g = self.cv.wait_timeout(g, deadline - now).unwrap().0;
        }
    }
}

/// staging arithmetic of the application thread (schedule control only: how many blocks have been
/// submitted after each op); None if a block count would not fit the plan's window
pub fn blocks_after(ops: &[BOp]) -> Vec<usize> {
    let (mut staged, mut blocks) = (0usize, 0usize);
    let mut v = Vec::new();
    for o in ops {
        match o {
            BOp::W(n) => {
                staged += n;
                blocks += staged / MAX_BUF_SIZE;
                staged %= MAX_BUF_SIZE;
            }
            _ => {
                if staged > 0 {
                    blocks += 1;
                    staged = 0;
                }
            }
        }
        v.push(blocks);
    }
    v
}

pub struct MtaOut {
    pub out: RunOut,
    pub sync_timeouts: usize,
}

/// `frame_lens` = lengths of the frames of the fault-free life (to know when the writer thread has
/// written everything it was given)
pub fn run_mta_bops(ops: Vec<BOp>, seed: u64, script: Vec<Fault>, plan: Vec<bool>, frame_lens: Vec<usize>) -> Option<MtaOut> {
    if MT_HUNG.load(Ordering::SeqCst) {
        return None;
    }
    let _g = MT_LOCK.lock().unwrap_or_else(|e| e.into_inner());
    let pool = MT_POOL.get_or_init(|| rayon::ThreadPoolBuilder::new().num_threads(3).build().unwrap());
    let gate = Arc::new(Gate {
        open: Mutex::new(false),
        cv: Condvar::new(),
    });
    {
        let g = gate.clone();
        bgzf::verif_gate::set(Some(Arc::new(move |k, _seq| {
            if k == bgzf::verif_gate::Kind::Deflate {
                g.pass();
            }
        })));
    }
    let (tx, rx) = mpsc::channel();
    let gate2 = gate.clone();
    pool.spawn(move || {
        let gate = gate2;
        let total: usize = ops.iter().map(|o| if let BOp::W(n) = o { *n } else { 0 }).sum();
        let data = pattern(seed, total);
        let sink = TSink::new(script, false);
        let dropped = Arc::new(AtomicBool::new(false));
        let mut tr = Tr {
            sink: sink.clone(),
            results: vec![],
            marks: vec![],
        };
        let after = blocks_after(&ops);
        let mut prefix = vec![0usize];
        for l in &frame_lens {
            prefix.push(prefix.last().unwrap() + l);
        }
        let mut sync_timeouts = 0usize;
        let ds = DropSink {
            inner: sink.clone(),
            dropped: dropped.clone(),
        };
        let out = guarded(AssertUnwindSafe(|| {
            let tr = &mut tr;
            let mut w = bgzf::io::MultithreadedWriter::new(ds);
            let mut at = 0;
            for (i, o) in ops.iter().enumerate() {
                match o {
                    BOp::W(n) => {
                        let buf = &data[at..at + n];
                        at += n;
                        op!(tr, w.write_all(buf));
                    }
                    _ => op!(tr, w.flush()),
                }
                if plan.get(i).copied().unwrap_or(false) {
                    // synchronisation point: everything submitted so far is compressed and written
                    // (or the writer thread has exited) before the next call is made
                    gate.set(true);
                    let want = prefix[after[i].min(prefix.len() - 1)];
                    let deadline = Instant::now() + Duration::from_secs(5);
                    loop {
                        if dropped.load(Ordering::SeqCst) {
                            // the closure's receiver goes away with it: give it a moment
                            std::thread::sleep(Duration::from_millis(2));
                            break;
                        }
                        if sink.inner.bytes().len() >= want {
                            break;
                        }
                        if Instant::now() >= deadline {
                            sync_timeouts += 1;
                            break;
                        }
                        std::thread::sleep(Duration::from_micros(100));
                    }
                    gate.set(false);
                }
            }
            gate.set(true);
            op!(tr, w.finish().map(|_| ()));
        }));
        gate.set(true);
        let st = sink.inner.0.lock().unwrap();
        let _ = tx.send(MtaOut {
            out: RunOut {
                results: tr.results,
                marks: tr.marks,
                bytes: st.bytes.clone(),
                calls: st.write_calls + st.flush_calls,
                failures: st.failures_injected,
                panicked: match out {
                    Outcome::Done(()) => None,
                    Outcome::Panicked(m) => Some(m),
                },
                log: vec![],
            },
            sync_timeouts,
        });
    });
    let r = match rx.recv_timeout(Duration::from_secs(30)) {
        Ok(o) => Some(o),
        Err(_) => {
            MT_HUNG.store(true, Ordering::SeqCst);
            None
        }
    };
    gate.set(true);
    bgzf::verif_gate::set(None);
    r
}

pub fn fmt_plan(p: &[bool]) -> String {
    if p.is_empty() { "_".into() } else { p.iter().map(|b| if *b { '1' } else { '0' }).collect() }
}
pub fn parse_plan(s: &str) -> Vec<bool> {
    if s == "_" { vec![] } else { s.bytes().map(|b| b == b'1').collect() }
}

pub fn gen_mta(rng: &mut Rng, thorough: bool, w: &mut CaseWriter) {
    let scale = if thorough { 10 } else { 1 };
    for i in 0..30 * scale {
        let nops = rng.range(1, 6);
        let mut ops = Vec::new();
        let big = i % 4 != 3;
        for _ in 0..nops {
            ops.push(if rng.chance(1, 4) {
                BOp::F
            } else if big && rng.chance(1, 2) {
                BOp::W(*rng.pick(&[MAX_BUF_SIZE - 1, MAX_BUF_SIZE, MAX_BUF_SIZE + 1, 2 * MAX_BUF_SIZE, 3 * MAX_BUF_SIZE + 7]))
            } else {
                BOp::W(rng.below(60) as usize)
            });
        }
        let seed = rng.next() >> 8;
        let Some(rf) = run_mt_bops(ops.clone(), seed, vec![]) else {
            w.push("sweep", vec!["mt".into(), "M".into(), seed.to_string(), "2".into()]);
            continue;
        };
        let frames = data_frames(&rf.bytes);
        let after = blocks_after(&ops);
        if after[0] > 3 {
            continue;
        }
        let n = rf.calls;
        let sc = match i % 6 {
            0 => {
                let sl = rng.below(n as u64 + 3) as usize;
                gen_script(rng, sl, true)
            }
            1 if i % 12 == 1 => vec![],
            2 | 3 => {
                // a failure inside the first frame: every later send() / join can observe it
                let mut v = vec![Fault::Full; rng.below(14.min(n as u64)) as usize];
                v.push(Fault::Fail(code_kind(*rng.pick(INJECT))));
                v
            }
            _ => {
                // a failure at a uniformly chosen call of the fault-free life
                let mut v = vec![Fault::Full; rng.below(n as u64) as usize];
                v.push(Fault::Fail(code_kind(*rng.pick(INJECT))));
                v
            }
        };
        // the same life under three plans: gate closed until finish() (finish reports), a
        // synchronisation point after every op (the first send() after the failure reports), and
        // a random plan; never more than 3 blocks (the channel's capacity on the 3-thread pool)
        // submitted while the gate is closed, so that the application thread is never blocked
        for style in 0..3 {
            let mut plan = Vec::new();
            let mut synced = 0usize;
            for j in 0..ops.len() {
                let next = if j + 1 < ops.len() { after[j + 1] } else { after[j] };
                let want = match style {
                    0 => false,
                    1 => true,
                    _ => rng.chance(1, 2),
                };
                let sync = want || next - synced > 3;
                if sync {
                    synced = after[j];
                }
                plan.push(sync);
            }
            w.push(
                "mta",
                vec![
                    "3".into(),
                    fmt_script(&sc),
                    fmt_bops(&ops),
                    seed.to_string(),
                    fmt_frames(&frames),
                    fmt_plan(&plan),
                ],
            );
        }
    }
}

pub fn run_mta(c: &Case) -> Obs {
    let script = parse_script(&c.args[1]);
    let ops = parse_bops(&c.args[2]);
    let seed = c.u(3);
    let plan = parse_plan(&c.args[5]);
    let frame_lens: Vec<usize> = if c.args[4] == "_" { vec![] } else { c.args[4].split(',').map(|f| f.len() / 2).collect() };
    let Some(r) = run_mta_bops(ops.clone(), seed, script.clone(), plan, frame_lens) else {
        return Obs::fail("-", "mt-finish-hang", format!("ops={} script={} plan={}", c.args[2], c.args[1], c.args[5]));
    };
    let out = r.out;
    if let Some(p) = &out.panicked {
        return Obs::fail("Panic", "mt-panic-on-sink-error", p);
    }
    if r.sync_timeouts > 0 {
        return Obs::fail("-", "mt-writer-thread-stalled", format!("ops={} plan={} timeouts={}", c.args[2], c.args[5], r.sync_timeouts));
    }
    let Some(rf) = run_mt_bops(ops.clone(), seed, vec![]) else {
        return Obs::fail("-", "mt-finish-hang", "fault-free run");
    };
    let mut v = verdict_scripted(&script, &out, &rf.bytes, "M").map_err(|(t, d)| (format!("mt-{t}"), d));
    // attribution: every call before the reporting one returned Ok (the harness stops at the first
    // Err), and a consumed failure is the result of the last call made
    let real = script.iter().any(|f| matches!(f, Fault::Fail(k) if *k != io::ErrorKind::Interrupted));
    if v.is_ok() && out.failures > 0 && real && !out.results.last().map(|r| r.is_err()).unwrap_or(false) {
        v = Err(("mt-sink-error-not-returned".into(), format!("results={}", out.fmt_results())));
    }
    Obs::ok(obs_of(&out), !script.is_empty() && !ops.is_empty()).with_verdict(v)
}

// ---------------------------------------------------------------------------------------------
// `ixc`: BAI / GZI write_index as the sequence of write_all calls computed by the MODEL from the
// index itself (NV.Sinks.IndexCalls.c_bai / c_gzi, bytes = C17's layout models):
//   ixc bai script unplaced refs     refs = ref/ref/..; ref = bins|meta|intervals; bins = id:b-e+b-e,..
//   ixc gzi script entries           entries = c-u,c-u,..
// obs = result | inner calls | sink bytes.  The index is rebuilt from the case text through the
// public builders, so a bin id that does not fit u32 (the encoder's own InvalidInput) can be made.

use noodles_csi::binning_index::{BinningIndex, ReferenceSequence as _, index::reference_sequence::{Bin, Metadata}};

pub struct BRef {
    bins: Vec<(usize, Vec<(u64, u64)>)>,
    meta: Option<(u64, u64, u64, u64)>,
    intervals: Vec<u64>,
}

pub fn bai_struct(ix: &bam::bai::Index) -> (Vec<BRef>, Option<u64>) {
    let refs = ix
        .reference_sequences()
        .iter()
        .map(|r| BRef {
            bins: r
                .bins()
                .iter()
                .map(|(id, b)| (*id, b.chunks().iter().map(|c| (u64::from(c.start()), u64::from(c.end()))).collect()))
                .collect(),
            meta: r.metadata().map(|m| {
                (u64::from(m.start_position()), u64::from(m.end_position()), m.mapped_record_count(), m.unmapped_record_count())
            }),
            intervals: r.index().iter().map(|v| u64::from(*v)).collect(),
        })
        .collect();
    (refs, ix.unplaced_unmapped_record_count())
}

pub fn bai_build(refs: &[BRef], unplaced: Option<u64>) -> bam::bai::Index {
    let rs: Vec<_> = refs
        .iter()
        .map(|r| {
            let bins = r
                .bins
                .iter()
                .map(|(id, cs)| (*id, Bin::new(cs.iter().map(|(a, b)| Chunk::new(VP::from(*a), VP::from(*b))).collect())))
                .collect();
            let index: LinearIndex = r.intervals.iter().map(|v| VP::from(*v)).collect();
            let meta = r.meta.map(|(a, b, c, d)| Metadata::new(VP::from(a), VP::from(b), c, d));
            binning_index::index::ReferenceSequence::new(bins, index, meta)
        })
        .collect();
    let mut b = bam::bai::Index::builder().set_reference_sequences(rs);
    if let Some(n) = unplaced {
        b = b.set_unplaced_unmapped_record_count(n);
    }
    b.build()
}

fn fmt_refs(refs: &[BRef]) -> String {
    if refs.is_empty() {
        return "_".into();
    }
    refs.iter()
        .map(|r| {
            let bins = if r.bins.is_empty() {
                "_".to_string()
            } else {
                r.bins
                    .iter()
                    .map(|(id, cs)| {
                        let c = if cs.is_empty() {
                            "_".to_string()
                        } else {
                            cs.iter().map(|(a, b)| format!("{a}-{b}")).collect::<Vec<_>>().join("+")
                        };
                        format!("{id}:{c}")
                    })
                    .collect::<Vec<_>>()
                    .join(",")
            };
            let meta = r.meta.map(|(a, b, c, d)| format!("{a}-{b}-{c}-{d}")).unwrap_or("_".into());
            let iv = if r.intervals.is_empty() {
                "_".to_string()
            } else {
                r.intervals.iter().map(|v| v.to_string()).collect::<Vec<_>>().join(",")
            };
            format!("{bins}|{meta}|{iv}")
        })
        .collect::<Vec<_>>()
        .join("/")
}

fn parse_refs(s: &str) -> Vec<BRef> {
    if s == "_" {
        return vec![];
    }
    s.split('/')
        .map(|r| {
            let p: Vec<&str> = r.split('|').collect();
            let bins = if p[0] == "_" {
                vec![]
            } else {
                p[0].split(',')
                    .map(|b| {
                        let (id, cs) = b.split_once(':').unwrap();
                        let cs = if cs == "_" {
                            vec![]
                        } else {
                            cs.split('+')
                                .map(|c| {
                                    let (a, b) = c.split_once('-').unwrap();
                                    (a.parse().unwrap(), b.parse().unwrap())
                                })
                                .collect()
                        };
                        (id.parse().unwrap(), cs)
                    })
                    .collect()
            };
            let meta = if p[1] == "_" {
                None
            } else {
                let v: Vec<u64> = p[1].split('-').map(|x| x.parse().unwrap()).collect();
                Some((v[0], v[1], v[2], v[3]))
            };
            let intervals = if p[2] == "_" { vec![] } else { p[2].split(',').map(|x| x.parse().unwrap()).collect() };
            BRef { bins, meta, intervals }
        })
        .collect()
}

fn n_calls_bai(refs: &[BRef], unplaced: Option<u64>) -> usize {
    2 + refs
        .iter()
        .map(|r| 1 + r.bins.iter().map(|(_, cs)| 2 + 2 * cs.len()).sum::<usize>() + if r.meta.is_some() { 6 } else { 0 } + 1 + r.intervals.len())
        .sum::<usize>()
        + unplaced.is_some() as usize
}

pub fn ixc_scripts(rng: &mut Rng, n: usize, every: bool) -> Vec<Vec<Fault>> {
    let mut scripts = vec![vec![]];
    let ks: Vec<usize> = if every { (0..n).collect() } else { (0..4).map(|_| rng.below(n as u64) as usize).collect() };
    for k in ks {
        let mut v = vec![Fault::Full; k];
        v.push(Fault::Fail(code_kind(INJECT[k % INJECT.len()])));
        scripts.push(v);
    }
    for j in 0..3 {
        let sl = rng.below(2 * n as u64 + 3) as usize;
        scripts.push(gen_script(rng, sl, j != 0));
    }
    scripts
}

pub fn gen_ixc(rng: &mut Rng, thorough: bool, w: &mut CaseWriter) {
    let rounds = if thorough { 36 } else { 6 };
    for round in 0..rounds {
        // BAI
        let (mut refs, mut unplaced) = (vec![], None);
        for _ in 0..6 {
            let Fx::Bai(ix) = fixture("bai", rng.next() >> 8) else { unreachable!() };
            (refs, unplaced) = bai_struct(&ix);
            if round % 3 != 2 || refs.iter().any(|r| !r.bins.is_empty()) {
                break;
            }
        }
        // (the model's sink appends in time linear in what it already holds: keep the linear
        // indices of the fixture short)
        for r in refs.iter_mut() {
            let keep = 8 + rng.below(40) as usize;
            r.intervals.truncate(keep);
        }
        if round % 3 == 2 {
            // the encoder's own error: a bin id that does not fit u32
            let cands: Vec<usize> = (0..refs.len()).filter(|i| !refs[*i].bins.is_empty()).collect();
            if !cands.is_empty() {
                let r = *rng.pick(&cands);
                let j = rng.below(refs[r].bins.len() as u64) as usize;
                refs[r].bins[j].0 += 1 << 32;
            }
        }
        let n = n_calls_bai(&refs, unplaced);
        let every = n <= 400 || thorough;
        for sc in ixc_scripts(rng, n, every) {
            w.push(
                "ixc",
                vec!["bai".into(), fmt_script(&sc), unplaced.map(|n| n.to_string()).unwrap_or("_".into()), fmt_refs(&refs)],
            );
        }
        // a small synthetic BAI index: a failure at EVERY call
        {
            let mut off = rng.below(1 << 30);
            let mut vp = |rng: &mut Rng| {
                off += rng.range(1, 1 << 20);
                off
            };
            let refs: Vec<BRef> = (0..rng.below(4))
                .map(|_| {
                    let mut ids: Vec<usize> = Vec::new();
                    for _ in 0..rng.below(4) {
                        let id = rng.below(37449) as usize;
                        if !ids.contains(&id) {
                            ids.push(id);
                        }
                    }
                    BRef {
                        bins: ids
                            .into_iter()
                            .map(|id| (id, (0..rng.below(4)).map(|_| (vp(rng), vp(rng))).collect()))
                            .collect(),
                        meta: rng.chance(1, 2).then(|| (vp(rng), vp(rng), rng.below(1000), rng.below(50))),
                        intervals: (0..rng.below(5)).map(|_| vp(rng)).collect(),
                    }
                })
                .collect();
            let unplaced = rng.chance(1, 2).then(|| rng.below(100));
            let n = n_calls_bai(&refs, unplaced);
            for sc in ixc_scripts(rng, n, true) {
                w.push(
                    "ixc",
                    vec!["bai".into(), fmt_script(&sc), unplaced.map(|n| n.to_string()).unwrap_or("_".into()), fmt_refs(&refs)],
                );
            }
        }
        // GZI
        let Fx::Gzi(gx) = fixture("gzi", rng.next() >> 8) else { unreachable!() };
        let ents: &[(u64, u64)] = gx.as_ref();
        let txt = if ents.is_empty() { "_".to_string() } else { ents.iter().map(|(a, b)| format!("{a}-{b}")).collect::<Vec<_>>().join(",") };
        for sc in ixc_scripts(rng, 1 + 2 * ents.len(), true) {
            w.push("ixc", vec!["gzi".into(), fmt_script(&sc), txt.clone()]);
        }
    }
}

pub fn run_ixc(c: &Case) -> Obs {
    let fmt = c.args[0].as_str();
    let script = parse_script(&c.args[1]);
    let run = |script: Vec<Fault>| -> (Outcome<io::Result<()>>, TSink) {
        let sink = TSink::new(script, false);
        let s2 = sink.clone();
        let r = guarded(AssertUnwindSafe(|| match fmt {
            "bai" => {
                let unplaced = if c.args[2] == "_" { None } else { Some(c.args[2].parse().unwrap()) };
                let ix = bai_build(&parse_refs(&c.args[3]), unplaced);
                bam::bai::io::Writer::new(s2).write_index(&ix)
            }
            _ => {
                let v: Vec<(u64, u64)> = if c.args[2] == "_" {
                    vec![]
                } else {
                    c.args[2]
                        .split(',')
                        .map(|e| {
                            let (a, b) = e.split_once('-').unwrap();
                            (a.parse().unwrap(), b.parse().unwrap())
                        })
                        .collect()
                };
                bgzf::gzi::io::Writer::new(s2).write_index(&bgzf::gzi::Index::from(v))
            }
        }));
        (r, sink)
    };
    let (r, sink) = run(script.clone());
    let res = match &r {
        Outcome::Panicked(p) => return Obs::fail("Panic", &format!("{fmt}-panic-on-sink-error"), p),
        Outcome::Done(Ok(())) => "Ok".to_string(),
        Outcome::Done(Err(e)) => format!("E{}", kind_code(*kind_chain(e).last().unwrap())),
    };
    let obs = format!("{res}|calls={}|{}", sink.inner.calls(), fmt_bytes(&sink.inner.bytes()));
    // oracle: against the fault-free run of the same index
    let (r0, sink0) = run(vec![]);
    let want = sink0.inner.bytes();
    let got = sink.inner.bytes();
    let real = script.iter().any(|f| matches!(f, Fault::Fail(k) if *k != io::ErrorKind::Interrupted));
    let enc_err = matches!(r0, Outcome::Done(Err(_)));
    let v = if sink.inner.failures() > 0 && real && res == "Ok" && got != want {
        Err((format!("{fmt}-sink-error-swallowed"), format!("script={}", c.args[1])))
    } else if !real && !enc_err && (res != "Ok" || got != want) {
        Err((format!("{fmt}-short-write-corrupts"), format!("script={} res={res}", c.args[1])))
    } else if enc_err && res == "Ok" {
        Err((format!("{fmt}-encoder-error-lost"), format!("script={}", c.args[1])))
    } else if !want.starts_with(&got) {
        Err((format!("{fmt}-sink-not-a-prefix"), format!("script={} res={res}", c.args[1])))
    } else {
        Ok(())
    };
    Obs::ok(obs, !script.is_empty()).with_verdict(v)
}

// ---------------------------------------------------------------------------------------------
// async writers over a faulty tokio AsyncWrite destination (NV.Sinks.AsyncSink):
//   awa script buf        tokio::io::AsyncWriteExt::write_all on the sink
//   afq script records    noodles_fastq::r#async::io::Writer::write_record per record (the caller
//                         stops at the first Err); records = name:desc:seq:qual (hex) joined by ','
// script events: P (Pending), A<k> (accept min(max(k,1), len)), E<code> (error); one event per poll
// of poll_write; exhausted script = accept everything.  obs = results | polls | sink bytes.

use std::pin::Pin;
use std::task::{Context, Poll};
use tokio::io::{AsyncWrite, AsyncWriteExt};

#[derive(Clone, Copy, Debug)]
pub enum AEv {
    P,
    A(usize),
    E(io::ErrorKind),
}

#[derive(Default)]
pub struct AState {
    script: Vec<AEv>,
    at: usize,
    bytes: Vec<u8>,
    polls: usize,
    errors: usize,
    other_polls: usize,
    /// buffers offered to poll_write (recorded in fault-free reference runs)
    log: Option<Vec<Vec<u8>>>,
}

#[derive(Clone)]
pub struct AFaultySink(Arc<Mutex<AState>>);

impl AsyncWrite for AFaultySink {
    fn poll_write(self: Pin<&mut Self>, cx: &mut Context<'_>, buf: &[u8]) -> Poll<io::Result<usize>> {
        let mut s = self.0.lock().unwrap();
        s.polls += 1;
        if let Some(l) = s.log.as_mut() {
            l.push(buf.to_vec());
        }
        let ev = if s.at < s.script.len() {
            s.at += 1;
            s.script[s.at - 1]
        } else {
            AEv::A(usize::MAX)
        };
        match ev {
            AEv::P => {
                cx.waker().wake_by_ref();
                Poll::Pending
            }
            AEv::A(k) => {
                let n = k.max(1).min(buf.len());
                s.bytes.extend_from_slice(&buf[..n]);
                Poll::Ready(Ok(n))
            }
            AEv::E(k) => {
                s.errors += 1;
                Poll::Ready(Err(io::Error::new(k, "injected")))
            }
        }
    }
    fn poll_flush(self: Pin<&mut Self>, _cx: &mut Context<'_>) -> Poll<io::Result<()>> {
        self.0.lock().unwrap().other_polls += 1;
        Poll::Ready(Ok(()))
    }
    fn poll_shutdown(self: Pin<&mut Self>, _cx: &mut Context<'_>) -> Poll<io::Result<()>> {
        self.0.lock().unwrap().other_polls += 1;
        Poll::Ready(Ok(()))
    }
}

fn fmt_ascript(sc: &[AEv]) -> String {
    if sc.is_empty() {
        return "_".into();
    }
    sc.iter()
        .map(|e| match e {
            AEv::P => "P".to_string(),
            AEv::A(k) => format!("A{k}"),
            AEv::E(k) => format!("E{}", kind_code(*k)),
        })
        .collect::<Vec<_>>()
        .join(",")
}
fn parse_ascript(s: &str) -> Vec<AEv> {
    if s == "_" {
        return vec![];
    }
    s.split(',')
        .map(|t| match t.as_bytes()[0] {
            b'P' => AEv::P,
            b'A' => AEv::A(t[1..].parse().unwrap()),
            _ => AEv::E(code_kind(t[1..].parse().unwrap())),
        })
        .collect()
}

fn gen_ascript(rng: &mut Rng, n: usize, fail: Option<usize>) -> Vec<AEv> {
    let mut v: Vec<AEv> = (0..n)
        .map(|_| match rng.below(6) {
            0 | 1 => AEv::P,
            2 => AEv::A(1),
            3 => AEv::A(rng.range(0, 9) as usize),
            _ => AEv::A(4096),
        })
        .collect();
    if let Some(k) = fail {
        // any kind, Interrupted included: tokio's write_all does not retry it
        let code = if rng.chance(1, 6) { 0 } else { *rng.pick(INJECT) };
        if k < v.len() {
            v[k] = AEv::E(code_kind(code));
        } else {
            v.push(AEv::E(code_kind(code)));
        }
    }
    v
}

fn block_on<F: std::future::Future>(f: F) -> F::Output {
    tokio::runtime::Builder::new_current_thread().build().unwrap().block_on(f)
}

type FqRec = (Vec<u8>, Vec<u8>, Vec<u8>, Vec<u8>);

fn fq_n_calls(recs: &[FqRec]) -> usize {
    recs.iter().map(|r| 9 + if r.1.is_empty() { 0 } else { 2 }).sum()
}

pub fn gen_async(rng: &mut Rng, thorough: bool, w: &mut CaseWriter) {
    let scale = if thorough { 12 } else { 1 };
    for i in 0..60 * scale {
        let len = match i % 4 {
            0 => rng.below(3),
            _ => rng.range(1, 40),
        } as usize;
        let buf = rng.bytes(len);
        let n = rng.below(2 * len as u64 + 3) as usize;
        let fail = (i % 3 != 0).then(|| rng.below(n as u64 + 1) as usize);
        let sc = gen_ascript(rng, n, fail);
        w.push("awa", vec![fmt_ascript(&sc), hex(&buf)]);
    }
    for i in 0..40 * scale {
        let recs: Vec<FqRec> = (0..rng.below(4))
            .map(|_| {
                let l = rng.below(12) as usize;
                (
                    word(rng, 0, 6).into_bytes(),
                    if rng.chance(1, 2) { word(rng, 1, 5).into_bytes() } else { vec![] },
                    bases(rng, l).into_bytes(),
                    (0..l).map(|_| b'!' + rng.below(40) as u8).collect(),
                )
            })
            .collect();
        let txt = if recs.is_empty() {
            "_".to_string()
        } else {
            recs.iter().map(|r| format!("{}:{}:{}:{}", hex(&r.0), hex(&r.1), hex(&r.2), hex(&r.3))).collect::<Vec<_>>().join(",")
        };
        let ncalls = fq_n_calls(&recs);
        let mut scripts: Vec<Vec<AEv>> = Vec::new();
        if i % 4 == 0 {
            // an error at EVERY poll of the fault-free life (one poll per non-empty buffer)
            for k in 0..ncalls {
                let mut v = vec![AEv::A(4096); k];
                v.push(AEv::E(code_kind(INJECT[k % INJECT.len()])));
                scripts.push(v);
            }
        }
        scripts.push(vec![]);
        for j in 0..3 {
            let n = rng.below(3 * ncalls as u64 + 3) as usize;
            let fail = (j != 0).then(|| rng.below(n as u64 + 1) as usize);
            scripts.push(gen_ascript(rng, n, fail));
        }
        for sc in scripts {
            w.push("afq", vec![fmt_ascript(&sc), txt.clone()]);
        }
    }
}

fn ares(r: &io::Result<()>) -> String {
    match r {
        Ok(()) => "Ok".into(),
        Err(e) => format!("E{}", kind_code(*kind_chain(e).last().unwrap())),
    }
}

pub fn run_async(c: &Case) -> Obs {
    let script = parse_ascript(&c.args[0]);
    let run = |script: Vec<AEv>| -> Outcome<(Vec<String>, Vec<u8>, usize, usize)> {
        let sink = AFaultySink(Arc::new(Mutex::new(AState { script, ..Default::default() })));
        let s2 = sink.clone();
        let kind = c.kind.clone();
        let arg = c.args[1].clone();
        guarded(AssertUnwindSafe(move || {
            let mut results = Vec::new();
            if kind == "awa" {
                let buf = nv::unhex(&arg);
                let mut w = s2;
                let r = block_on(w.write_all(&buf));
                results.push(ares(&r));
            } else {
                let mut w = fastq::r#async::io::Writer::new(s2);
                if arg != "_" {
                    for r in arg.split(',') {
                        let f: Vec<Vec<u8>> = r.split(':').map(nv::unhex).collect();
                        let rec = fastq::Record::new(fastq::record::Definition::new(f[0].clone(), f[1].clone()), f[2].clone(), f[3].clone());
                        let res = block_on(w.write_record(&rec));
                        results.push(ares(&res));
                        if res.is_err() {
                            break;
                        }
                    }
                }
            }
            let st = sink.0.lock().unwrap();
            (results, st.bytes.clone(), st.polls, st.errors)
        }))
    };
    let (results, bytes, polls, errors) = match run(script.clone()) {
        Outcome::Panicked(p) => return Obs::fail("Panic", &format!("async-{}-panic-on-sink-error", c.kind), p),
        Outcome::Done(x) => x,
    };
    let rs = if results.is_empty() { "_".to_string() } else { results.join(",") };
    let obs = format!("{rs}|calls={polls}|{}", fmt_bytes(&bytes));
    let want = match run(vec![]) {
        Outcome::Done(x) => x.1,
        Outcome::Panicked(p) => return Obs::fail("Panic", &format!("async-{}-panic", c.kind), p),
    };
    let any_err = results.iter().any(|r| r != "Ok");
    let v = if errors > 0 && !any_err {
        Err((format!("async-{}-sink-error-swallowed", c.kind), format!("script={}", c.args[0])))
    } else if errors == 0 && (any_err || bytes != want) {
        Err((format!("async-{}-partial-write-corrupts", c.kind), format!("script={} results={rs}", c.args[0])))
    } else if !want.starts_with(&bytes) {
        Err((format!("async-{}-sink-not-a-prefix", c.kind), format!("script={} results={rs}", c.args[0])))
    } else {
        Ok(())
    };
    Obs::ok(obs, !script.is_empty()).with_verdict(v)
}


// ---------------------------------------------------------------------------------------------
//   awfmt fmt seed script ops     async fasta / sam / vcf writers (fmt = afasta, asam, avcf) under
//                                 the poll script; `ops` = the buffers each explicit operation
//                                 offers in the fault-free life (hex, ',' within an op, ';' between)

struct ALife {
    results: Vec<String>,
    bytes: Vec<u8>,
    polls: usize,
    errors: usize,
    per_op: Vec<Vec<Vec<u8>>>,
}

fn run_alife(fmt: &str, fx: &Fx, script: Vec<AEv>, log: bool) -> Outcome<ALife> {
    let sink = AFaultySink(Arc::new(Mutex::new(AState {
        script,
        log: log.then(Vec::new),
        ..Default::default()
    })));
    let s2 = sink.clone();
    guarded(AssertUnwindSafe(move || {
        let mut results: Vec<String> = Vec::new();
        let mut marks: Vec<usize> = Vec::new();
        let mark = |sink: &AFaultySink| sink.0.lock().unwrap().log.as_ref().map(|l| l.len()).unwrap_or(0);
        macro_rules! aop {
            ($e:expr) => {{
                let r: io::Result<()> = block_on($e);
                results.push(ares(&r));
                marks.push(mark(&sink));
                r.is_ok()
            }};
        }
        match (fmt, fx) {
            ("afasta", Fx::Fasta(recs)) => {
                let mut w = fasta::r#async::io::Writer::new(s2);
                for r in recs {
                    if !aop!(w.write_record(r)) {
                        break;
                    }
                }
            }
            ("asam", Fx::Sam(h, recs)) => {
                let mut w = sam::r#async::io::Writer::new(s2);
                if aop!(w.write_header(h)) {
                    for r in recs {
                        if !aop!(w.write_alignment_record(h, r)) {
                            break;
                        }
                    }
                }
            }
            ("avcf", Fx::Vcf(h, recs)) => {
                let mut w = vcf::r#async::io::Writer::new(s2);
                if aop!(w.write_header(h)) {
                    for r in recs {
                        if !aop!(w.write_variant_record(h, r)) {
                            break;
                        }
                    }
                }
            }
            _ => panic!("awfmt {fmt}"),
        }
        let st = sink.0.lock().unwrap();
        let mut per_op = Vec::new();
        if let Some(l) = &st.log {
            let mut at = 0;
            for m in &marks {
                per_op.push(l[at..*m].to_vec());
                at = *m;
            }
        }
        ALife {
            results,
            bytes: st.bytes.clone(),
            polls: st.polls,
            errors: st.errors,
            per_op,
        }
    }))
}

fn afmt_fixture(fmt: &str, seed: u64) -> Fx {
    fixture(match fmt { "afasta" => "fasta", "asam" => "sam", _ => "vcf" }, seed)
}

pub fn gen_awfmt(rng: &mut Rng, thorough: bool, w: &mut CaseWriter) {
    let rounds = if thorough { 10 } else { 2 };
    for _ in 0..rounds {
        for fmt in ["afasta", "asam", "avcf"] {
            let mut seed = rng.next() >> 8;
            if seed % 7 == 0 {
                seed += 1; // (seed % 7 == 0 selects the `big` fixture class)
            }
            let fx = afmt_fixture(fmt, seed);
            let Outcome::Done(rf) = run_alife(fmt, &fx, vec![], true) else { continue };
            if rf.results.iter().any(|r| r != "Ok") {
                continue;
            }
            let ops = if rf.per_op.is_empty() {
                "_".to_string()
            } else {
                rf.per_op
                    .iter()
                    .map(|o| if o.is_empty() { "-".to_string() } else { o.iter().map(|b| hex(b)).collect::<Vec<_>>().join(",") })
                    .collect::<Vec<_>>()
                    .join(";")
            };
            if ops.len() > 60_000 {
                continue;
            }
            let n = rf.polls;
            let mut scripts: Vec<Vec<AEv>> = vec![vec![]];
            let ks: Vec<usize> = if n <= 40 { (0..n).collect() } else { (0..6).map(|_| rng.below(n as u64) as usize).collect() };
            for k in ks {
                let mut v = vec![AEv::A(4096); k];
                v.push(AEv::E(code_kind(INJECT[k % INJECT.len()])));
                scripts.push(v);
            }
            for j in 0..3 {
                let sl = rng.below(2 * n as u64 + 3) as usize;
                let fail = (j != 0).then(|| rng.below(sl as u64 + 1) as usize);
                scripts.push(gen_ascript(rng, sl, fail));
            }
            for sc in scripts {
                w.push("awfmt", vec![fmt.to_string(), seed.to_string(), fmt_ascript(&sc), ops.clone()]);
            }
        }
    }
}

pub fn run_awfmt(c: &Case) -> Obs {
    let (fmt, seed) = (c.args[0].as_str(), c.u(1));
    let script = parse_ascript(&c.args[2]);
    let fx = afmt_fixture(fmt, seed);
    let out = match run_alife(fmt, &fx, script.clone(), false) {
        Outcome::Panicked(p) => return Obs::fail("Panic", &format!("async-{fmt}-panic-on-sink-error"), p),
        Outcome::Done(x) => x,
    };
    let want = match run_alife(fmt, &fx, vec![], false) {
        Outcome::Done(x) => x.bytes,
        Outcome::Panicked(p) => return Obs::fail("Panic", &format!("async-{fmt}-panic"), p),
    };
    let rs = if out.results.is_empty() { "_".to_string() } else { out.results.join(",") };
    let obs = format!("{rs}|calls={}|{}", out.polls, fmt_bytes(&out.bytes));
    let any_err = out.results.iter().any(|r| r != "Ok");
    let v = if out.errors > 0 && !any_err {
        Err((format!("async-{fmt}-sink-error-swallowed"), format!("script={}", c.args[2])))
    } else if out.errors == 0 && (any_err || out.bytes != want) {
        Err((format!("async-{fmt}-partial-write-corrupts"), format!("script={} results={rs}", c.args[2])))
    } else if !want.starts_with(&out.bytes) {
        Err((format!("async-{fmt}-sink-not-a-prefix"), format!("script={} results={rs}", c.args[2])))
    } else {
        Ok(())
    };
    Obs::ok(obs, !script.is_empty()).with_verdict(v)
}

// ---------------------------------------------------------------------------------------------
// wave 7, implementation-side oracle only (obs "-"): the ASYNC BGZF writer
// (noodles_bgzf::r#async::io::Writer: staging buffer -> futures Buffer of deflate tasks on the
// blocking pool -> Deflater -> FramedWrite -> destination) over the scripted AsyncWrite sink.
//   abz seed script ops     ops = W<n> (write_all of n bytes) / F (flush), then shutdown()
// An injected poll_write error must be returned by some awaited call (the caller stops at the first
// Err); with no error event every call returns Ok and the destination holds exactly the file the
// SYNC writer produces for the same calls + finish(); in every case the destination holds a prefix
// of that file.

struct AbzOut {
    results: Vec<io::Result<()>>,
    bytes: Vec<u8>,
    polls: usize,
    errors: usize,
}

fn run_abz_life(ops: &[BOp], seed: u64, script: Vec<AEv>) -> Outcome<AbzOut> {
    let total: usize = ops.iter().map(|o| if let BOp::W(n) = o { *n } else { 0 }).sum();
    let data = pattern(seed, total);
    let sink = AFaultySink(Arc::new(Mutex::new(AState { script, ..Default::default() })));
    let s2 = sink.clone();
    let r = guarded(AssertUnwindSafe(|| {
        block_on(async {
            let mut results = Vec::new();
            let mut w = bgzf::r#async::io::Writer::new(s2);
            let mut at = 0;
            for o in ops {
                let r = match o {
                    BOp::W(n) => {
                        let b = &data[at..at + n];
                        at += n;
                        w.write_all(b).await
                    }
                    _ => w.flush().await,
                };
                let bad = r.is_err();
                results.push(r);
                if bad {
                    return results;
                }
            }
            results.push(w.shutdown().await);
            results
        })
    }));
    let st = sink.0.lock().unwrap();
    match r {
        Outcome::Panicked(p) => Outcome::Panicked(p),
        Outcome::Done(results) => Outcome::Done(AbzOut { results, bytes: st.bytes.clone(), polls: st.polls, errors: st.errors }),
    }
}

pub fn gen_abz(rng: &mut Rng, thorough: bool, w: &mut CaseWriter) {
    for i in 0..(if thorough { 400 } else { 40 }) {
        let mut ops = Vec::new();
        for j in 0..rng.range(0, 5) {
            ops.push(if rng.chance(1, 5) {
                BOp::F
            } else if i % 8 == 0 && j == 0 {
                BOp::W(*rng.pick(&[MAX_BUF_SIZE - 1, MAX_BUF_SIZE, MAX_BUF_SIZE + 1, 2 * MAX_BUF_SIZE + 1]))
            } else {
                BOp::W(rng.below(80) as usize)
            });
        }
        let seed = rng.next() >> 8;
        let n = match run_abz_life(&ops, seed, vec![]) {
            Outcome::Done(o) => o.polls,
            _ => 1,
        };
        let sc = match i % 4 {
            0 => {
                let mut v = vec![AEv::A(usize::MAX >> 1); rng.below(n as u64) as usize];
                v.push(AEv::E(code_kind(*rng.pick(INJECT))));
                v
            }
            1 | 2 => {
                let k = rng.below(n as u64 + 1) as usize;
                gen_ascript(rng, n + 2, Some(k))
            }
            _ => gen_ascript(rng, 2 * n + 2, None),
        };
        w.push("abz", vec![seed.to_string(), fmt_ascript(&sc), fmt_bops(&ops)]);
    }
}

pub fn run_abz(c: &Case) -> Obs {
    let seed = c.u(0);
    let script = parse_ascript(&c.args[1]);
    let ops = parse_bops(&c.args[2]);
    let out = match run_abz_life(&ops, seed, script.clone()) {
        Outcome::Panicked(p) => return Obs::fail("-", "async-bgzf-panic-on-sink-error", p),
        Outcome::Done(o) => o,
    };
    // the sync writer's file for the same calls
    let mut sops = ops.clone();
    sops.push(BOp::X);
    let want = run_bops(&sops, seed, vec![]).bytes;
    let all_ok = out.results.iter().all(|r| r.is_ok());
    let res: Vec<String> = out.results.iter().map(ares).collect();
    let v = if out.errors > 0 && all_ok {
        Err(("async-bgzf-sink-error-swallowed".to_string(), format!("script={} results={res:?}", c.args[1])))
    } else if out.errors == 0 && !all_ok {
        Err(("async-bgzf-error-without-sink-error".to_string(), format!("script={} results={res:?}", c.args[1])))
    } else if out.errors == 0 && out.bytes != want {
        Err(("async-bgzf-differs-from-sync".to_string(), format!("script={} got {} want {} bytes", c.args[1], out.bytes.len(), want.len())))
    } else if !want.starts_with(&out.bytes) {
        Err(("async-bgzf-sink-not-a-prefix".to_string(), format!("script={} results={res:?}", c.args[1])))
    } else {
        Ok(())
    };
    Obs::ok("-", !script.is_empty() && !ops.is_empty()).with_verdict(v)
}
