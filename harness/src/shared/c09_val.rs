//! C09 shared: canonical value specs, conversions to/from noodles-vcf values, header text helper.
#![allow(dead_code)]

use std::io;

use noodles_vcf::{
    self as vcf,
    variant::{
        record::{
            info::field::{Value as LInfo, value::Array as LInfoArr},
            samples::series::{Value as LSmp, value::Array as LSmpArr, value::genotype::Phasing},
        },
        record_buf::{
            info::field::{Value as BInfo, value::Array as BInfoArr},
            samples::sample::{
                Value as BSmp,
                value::{Array as BSmpArr, Genotype, genotype::Allele},
            },
        },
    },
};

#[derive(Clone, Debug, PartialEq)]
pub enum V {
    Int(i32),
    Float(u32),
    Flag,
    Char(char),
    Str(String),
    AI(Vec<Option<i32>>),
    AF(Vec<Option<u32>>),
    AC(Vec<Option<char>>),
    AS(Vec<Option<String>>),
    Gt(Vec<(Option<usize>, bool)>),
}

pub type OV = Option<V>;

fn items<T>(xs: &[Option<T>], f: impl Fn(&T) -> String) -> String {
    xs.iter()
        .map(|o| match o {
            None => ".".to_string(),
            Some(x) => f(x),
        })
        .collect::<Vec<_>>()
        .join(",")
}

pub fn spec(v: &OV) -> String {
    match v {
        None => "M".into(),
        Some(V::Int(n)) => format!("I{n}"),
        Some(V::Float(b)) => format!("F{b}"),
        Some(V::Flag) => "B".into(),
        Some(V::Char(c)) => format!("C{}", *c as u32),
        Some(V::Str(s)) => format!("S{}", nv::hex(s.as_bytes())),
        Some(V::AI(l)) => format!("AI{}", items(l, |n| n.to_string())),
        Some(V::AF(l)) => format!("AF{}", items(l, |n| n.to_string())),
        Some(V::AC(l)) => format!("AC{}", items(l, |c| (*c as u32).to_string())),
        Some(V::AS(l)) => format!("AS{}", items(l, |s| nv::hex(s.as_bytes()))),
        Some(V::Gt(g)) => {
            let mut s = String::from("G");
            for (p, ph) in g {
                s.push(if *ph { '|' } else { '/' });
                match p {
                    Some(n) => s.push_str(&n.to_string()),
                    None => s.push('.'),
                }
            }
            s
        }
    }
}

fn parse_items<T>(s: &str, f: impl Fn(&str) -> T) -> Vec<Option<T>> {
    if s.is_empty() {
        return vec![];
    }
    s.split(',').map(|t| if t == "." { None } else { Some(f(t)) }).collect()
}

pub fn parse_spec(s: &str) -> OV {
    let ustr = |h: &str| String::from_utf8(nv::unhex(h)).expect("utf8 spec");
    let chr = |t: &str| char::from_u32(t.parse().unwrap()).unwrap();
    if s == "M" {
        return None;
    }
    Some(if s == "B" {
        V::Flag
    } else if let Some(r) = s.strip_prefix("AI") {
        V::AI(parse_items(r, |t| t.parse().unwrap()))
    } else if let Some(r) = s.strip_prefix("AF") {
        V::AF(parse_items(r, |t| t.parse().unwrap()))
    } else if let Some(r) = s.strip_prefix("AC") {
        V::AC(parse_items(r, chr))
    } else if let Some(r) = s.strip_prefix("AS") {
        V::AS(parse_items(r, ustr))
    } else if let Some(r) = s.strip_prefix('I') {
        V::Int(r.parse().unwrap())
    } else if let Some(r) = s.strip_prefix('F') {
        V::Float(r.parse().unwrap())
    } else if let Some(r) = s.strip_prefix('C') {
        V::Char(chr(r))
    } else if let Some(r) = s.strip_prefix('S') {
        V::Str(ustr(r))
    } else if let Some(r) = s.strip_prefix('G') {
        let mut g = vec![];
        let b = r.as_bytes();
        let mut i = 0;
        while i < b.len() {
            let ph = b[i] == b'|';
            i += 1;
            let st = i;
            while i < b.len() && b[i] != b'|' && b[i] != b'/' {
                i += 1;
            }
            let t = &r[st..i];
            g.push((if t == "." { None } else { Some(t.parse().unwrap()) }, ph));
        }
        V::Gt(g)
    } else {
        panic!("bad spec {s}")
    })
}

fn f(b: u32) -> f32 {
    f32::from_bits(b)
}

pub fn to_binfo(v: &V) -> BInfo {
    match v {
        V::Int(n) => BInfo::Integer(*n),
        V::Float(b) => BInfo::Float(f(*b)),
        V::Flag => BInfo::Flag,
        V::Char(c) => BInfo::Character(*c),
        V::Str(s) => BInfo::String(s.clone()),
        V::AI(l) => BInfo::Array(BInfoArr::Integer(l.clone())),
        V::AF(l) => BInfo::Array(BInfoArr::Float(l.iter().map(|o| o.map(f)).collect())),
        V::AC(l) => BInfo::Array(BInfoArr::Character(l.clone())),
        V::AS(l) => BInfo::Array(BInfoArr::String(l.clone())),
        V::Gt(_) => panic!("genotype in INFO"),
    }
}

pub fn to_bsmp(v: &V) -> BSmp {
    match v {
        V::Int(n) => BSmp::Integer(*n),
        V::Float(b) => BSmp::Float(f(*b)),
        V::Flag => panic!("flag in FORMAT"),
        V::Char(c) => BSmp::Character(*c),
        V::Str(s) => BSmp::String(s.clone()),
        V::AI(l) => BSmp::Array(BSmpArr::Integer(l.clone())),
        V::AF(l) => BSmp::Array(BSmpArr::Float(l.iter().map(|o| o.map(f)).collect())),
        V::AC(l) => BSmp::Array(BSmpArr::Character(l.clone())),
        V::AS(l) => BSmp::Array(BSmpArr::String(l.clone())),
        V::Gt(g) => BSmp::Genotype(
            g.iter()
                .map(|(p, ph)| Allele::new(*p, if *ph { Phasing::Phased } else { Phasing::Unphased }))
                .collect::<Genotype>(),
        ),
    }
}

pub fn from_binfo(v: &BInfo) -> V {
    match v {
        BInfo::Integer(n) => V::Int(*n),
        BInfo::Float(x) => V::Float(x.to_bits()),
        BInfo::Flag => V::Flag,
        BInfo::Character(c) => V::Char(*c),
        BInfo::String(s) => V::Str(s.clone()),
        BInfo::Array(BInfoArr::Integer(l)) => V::AI(l.clone()),
        BInfo::Array(BInfoArr::Float(l)) => V::AF(l.iter().map(|o| o.map(f32::to_bits)).collect()),
        BInfo::Array(BInfoArr::Character(l)) => V::AC(l.clone()),
        BInfo::Array(BInfoArr::String(l)) => V::AS(l.clone()),
    }
}

pub fn from_bsmp(v: &BSmp) -> V {
    match v {
        BSmp::Integer(n) => V::Int(*n),
        BSmp::Float(x) => V::Float(x.to_bits()),
        BSmp::Character(c) => V::Char(*c),
        BSmp::String(s) => V::Str(s.clone()),
        BSmp::Genotype(g) => V::Gt(
            g.as_ref()
                .iter()
                .map(|a| (a.position(), a.phasing() == Phasing::Phased))
                .collect(),
        ),
        BSmp::Array(BSmpArr::Integer(l)) => V::AI(l.clone()),
        BSmp::Array(BSmpArr::Float(l)) => V::AF(l.iter().map(|o| o.map(f32::to_bits)).collect()),
        BSmp::Array(BSmpArr::Character(l)) => V::AC(l.clone()),
        BSmp::Array(BSmpArr::String(l)) => V::AS(l.clone()),
    }
}

/// forces the lazy iterators; Err(()) when any element fails
pub fn from_linfo(v: LInfo<'_>) -> Result<V, ()> {
    Ok(match v {
        LInfo::Integer(n) => V::Int(n),
        LInfo::Float(x) => V::Float(x.to_bits()),
        LInfo::Flag => V::Flag,
        LInfo::Character(c) => V::Char(c),
        LInfo::String(s) => V::Str(s.into_owned()),
        LInfo::Array(LInfoArr::Integer(vs)) => V::AI(vs.iter().collect::<io::Result<_>>().map_err(|_| ())?),
        LInfo::Array(LInfoArr::Float(vs)) => V::AF(
            vs.iter()
                .map(|r| r.map(|o| o.map(f32::to_bits)))
                .collect::<io::Result<_>>()
                .map_err(|_| ())?,
        ),
        LInfo::Array(LInfoArr::Character(vs)) => V::AC(vs.iter().collect::<io::Result<_>>().map_err(|_| ())?),
        LInfo::Array(LInfoArr::String(vs)) => V::AS(
            vs.iter()
                .map(|r| r.map(|o| o.map(|c| c.into_owned())))
                .collect::<io::Result<_>>()
                .map_err(|_| ())?,
        ),
    })
}

pub fn from_lsmp(v: LSmp<'_>) -> Result<V, ()> {
    Ok(match v {
        LSmp::Integer(n) => V::Int(n),
        LSmp::Float(x) => V::Float(x.to_bits()),
        LSmp::Character(c) => V::Char(c),
        LSmp::String(s) => V::Str(s.into_owned()),
        LSmp::Genotype(g) => V::Gt(
            g.iter()
                .map(|r| r.map(|(p, ph)| (p, ph == Phasing::Phased)))
                .collect::<io::Result<_>>()
                .map_err(|_| ())?,
        ),
        LSmp::Array(LSmpArr::Integer(vs)) => V::AI(vs.iter().collect::<io::Result<_>>().map_err(|_| ())?),
        LSmp::Array(LSmpArr::Float(vs)) => V::AF(
            vs.iter()
                .map(|r| r.map(|o| o.map(f32::to_bits)))
                .collect::<io::Result<_>>()
                .map_err(|_| ())?,
        ),
        LSmp::Array(LSmpArr::Character(vs)) => V::AC(vs.iter().collect::<io::Result<_>>().map_err(|_| ())?),
        LSmp::Array(LSmpArr::String(vs)) => V::AS(
            vs.iter()
                .map(|r| r.map(|o| o.map(|c| c.into_owned())))
                .collect::<io::Result<_>>()
                .map_err(|_| ())?,
        ),
    })
}

pub fn ty_name(t: &str) -> &'static str {
    match t {
        "I" => "Integer",
        "F" => "Float",
        "B" => "Flag",
        "C" => "Character",
        "S" => "String",
        _ => panic!("type {t}"),
    }
}

/// header text -> Header via the real parser
pub fn mk_header(ver: &str, infos: &[(String, String, String)], formats: &[(String, String, String)], samples: &[String]) -> io::Result<vcf::Header> {
    let text = header_text(ver, infos, formats, samples);
    let mut r = vcf::io::Reader::new(text.as_bytes());
    r.read_header()
}

pub fn header_text(ver: &str, infos: &[(String, String, String)], formats: &[(String, String, String)], samples: &[String]) -> String {
    let mut t = format!("##fileformat=VCFv{ver}\n");
    for (k, n, ty) in infos {
        t.push_str(&format!("##INFO=<ID={k},Number={n},Type={},Description=\"d\">\n", ty_name(ty)));
    }
    for (k, n, ty) in formats {
        t.push_str(&format!("##FORMAT=<ID={k},Number={n},Type={},Description=\"d\">\n", ty_name(ty)));
    }
    t.push_str("#CHROM\tPOS\tID\tREF\tALT\tQUAL\tFILTER\tINFO");
    if !samples.is_empty() {
        t.push_str("\tFORMAT");
        for s in samples {
            t.push('\t');
            t.push_str(s);
        }
    }
    t.push('\n');
    t
}

/// does the writer escape this character when it is a Character value?
pub fn chr_reserved(info: bool, c: char) -> bool {
    c.is_ascii_control() || matches!(c, '%' | ',' | '.') || (info && matches!(c, ';' | '=')) || (!info && c == ':')
}

pub fn has_reserved_char(info: bool, v: &OV) -> bool {
    match v {
        Some(V::Char(c)) => chr_reserved(info, *c),
        Some(V::AC(l)) => l.iter().flatten().any(|c| chr_reserved(info, *c)),
        _ => false,
    }
}

pub fn has_nonascii_char(v: &OV) -> bool {
    match v {
        Some(V::Char(c)) => !c.is_ascii(),
        Some(V::AC(l)) => l.iter().flatten().any(|c| !c.is_ascii()),
        _ => false,
    }
}

pub fn float_text(bits: u32) -> String {
    format!("{}", f32::from_bits(bits))
}

pub fn collect_floats(v: &OV, out: &mut Vec<u32>) {
    match v {
        Some(V::Float(b)) => out.push(*b),
        Some(V::AF(l)) => out.extend(l.iter().flatten().copied()),
        _ => {}
    }
}

pub fn ftab(vs: &[OV]) -> String {
    let mut bits = vec![];
    for v in vs {
        collect_floats(v, &mut bits);
    }
    bits.sort_unstable();
    bits.dedup();
    if bits.is_empty() {
        return "-".into();
    }
    bits.iter()
        .map(|b| {
            // oracle pair: Display text of the bits, and what str::parse::<f32> makes of that text
            let t = float_text(*b);
            let back = t.parse::<f32>().map(f32::to_bits).unwrap_or(0);
            format!("{b}:{}:{back}", nv::hex(t.as_bytes()))
        })
        .collect::<Vec<_>>()
        .join(",")
}
