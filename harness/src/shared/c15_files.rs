//! C15: one small, feature-dense valid file per format / index, produced with noodles' own
//! writers from fixed contents (so that `mut <fmt> ...` cases are reproducible from the case line
//! alone), the re-sealers that carry a corrupted payload past the container checksums, and the
//! base encodings for the CRAM codec mutation cases.

use std::io::Write;
use std::num::NonZero;

use noodles_bam as bam;
use noodles_bcf as bcf;
use noodles_bgzf as bgzf;
use noodles_core::Position;
use noodles_cram as cram;
use noodles_csi::{
    self as csi,
    binning_index::{
        self, Indexer,
        index::{
            Header,
            reference_sequence::{bin::Chunk, index::BinnedIndex, index::LinearIndex},
        },
    },
};
use noodles_fasta as fasta;
use noodles_sam as sam;
use noodles_tabix as tabix;
use noodles_vcf as vcf;
use nv::Rng;

type VP = bgzf::VirtualPosition;

pub const SQ0: &[u8] = b"ACGTTGCAAGGCTTAACCGGATATCGCGTTAAGGCCTTAGACCATGGTACCGATTGCAAGTCCGGAATTCCGGTTAACGTACGATCGATCGGCTAAGCTTGGCCAATTGGCATGCATGCCGTAACGGTTAACCGGATCCAAGTTCGAACGTTAGGCTAGCATCGGATTACCGGTTAAGGCCAATTCCGGAACCTTGGAACGTAC";
pub const SQ1: &[u8] = b"TTGCATTGCAGGCCTTAAGGTACCGGATTCAAGCTTGCATGCCTGCAGGTCGACTCTAGAGGATCCCCGGGTACCGAGCTCGAATTCACTGGCCGTCGTTTTACAACGTCGTGACTGGG";

pub fn sam_text() -> Vec<u8> {
    let mut s = String::new();
    s.push_str("@HD\tVN:1.6\tSO:coordinate\n");
    s.push_str(&format!("@SQ\tSN:sq0\tLN:{}\n@SQ\tSN:sq1\tLN:{}\n", SQ0.len(), SQ1.len()));
    s.push_str("@RG\tID:rg0\tSM:s\n@PG\tID:pg0\tPN:nv\n@CO\tc x\n");
    // r0: matches with an insertion, a deletion, a mismatch; all scalar aux types
    s.push_str("r0\t0\tsq0\t5\t30\t4M2I3M1D2M\t*\t0\t0\tTGCATTAGGGT\tIIIIHHHGGFF\tNH:i:1\tXA:A:c\tXF:f:1.5\tXH:H:1AE3\tXZ:Z:hello\tRG:Z:rg0\n");
    // r1: paired, soft clip, arrays of every subtype
    s.push_str("r1\t99\tsq0\t20\t60\t2S6M\t=\t40\t30\tNNTAAGGC\t!!IIIIII\tXB:B:c,1,-2\tXC:B:C,200,3\tXs:B:s,-300\tXS:B:S,1,65535\tXI:B:i,-70000,5\tXU:B:I,4000000000\tXG:B:f,1.5,2\n");
    // r2: reverse strand, every integer width
    s.push_str("r2\t147\tsq0\t40\t255\t3M2N3M\t=\t20\t-30\tGACTAT\t*\tX1:i:-1\tX2:i:200\tX3:i:-200\tX4:i:40000\tX5:i:-40000\tX6:i:3000000000\n");
    s.push_str("r3\t16\tsq1\t6\t0\t1H5M1P2M2H\t*\t0\t0\tTTGCAGG\tABCDEFG\n");
    s.push_str("r4\t4\t*\t0\t0\t*\t*\t0\t0\tACGT\t*\n");
    s.push_str("r5\t4\t*\t0\t0\t*\t*\t0\t0\t*\t*\tXZ:Z:\n");
    s.into_bytes()
}

pub fn parse_sam(text: &[u8]) -> (sam::Header, Vec<sam::alignment::RecordBuf>) {
    let mut r = sam::io::Reader::new(text);
    let h = r.read_header().expect("generated SAM header");
    let recs = r.record_bufs(&h).collect::<Result<Vec<_>, _>>().expect("generated SAM records");
    (h, recs)
}

/// uncompressed BAM stream
pub fn bam_raw() -> Vec<u8> {
    use sam::alignment::io::Write as _;
    let (h, recs) = parse_sam(&sam_text());
    let mut w = bam::io::Writer::from(Vec::new());
    w.write_header(&h).unwrap();
    for r in &recs {
        w.write_alignment_record(&h, r).unwrap();
    }
    w.into_inner()
}

pub fn repository() -> fasta::Repository {
    let refs = vec![
        fasta::Record::new(fasta::record::Definition::new("sq0", None), fasta::record::Sequence::from(SQ0.to_vec())),
        fasta::Record::new(fasta::record::Definition::new("sq1", None), fasta::record::Sequence::from(SQ1.to_vec())),
    ];
    fasta::Repository::new(refs)
}

pub fn cram_file() -> Vec<u8> {
    use sam::alignment::io::Write as _;
    let (h, recs) = parse_sam(&sam_text());
    let mut w = cram::io::writer::Builder::default()
        .set_reference_sequence_repository(repository())
        .build_from_writer(Vec::new());
    w.write_header(&h).unwrap();
    for r in &recs {
        w.write_alignment_record(&h, r).unwrap();
    }
    w.try_finish(&h).unwrap();
    w.get_ref().clone()
}

pub fn vcf_text() -> Vec<u8> {
    let mut s = String::new();
    s.push_str("##fileformat=VCFv4.3\n");
    s.push_str("##contig=<ID=sq0,length=1000>\n##contig=<ID=sq1,length=2000>\n");
    s.push_str("##INFO=<ID=DP,Number=1,Type=Integer,Description=\"d\">\n");
    s.push_str("##INFO=<ID=AF,Number=A,Type=Float,Description=\"a\">\n");
    s.push_str("##INFO=<ID=DB,Number=0,Type=Flag,Description=\"b\">\n");
    s.push_str("##INFO=<ID=AA,Number=1,Type=String,Description=\"s\">\n");
    s.push_str("##INFO=<ID=CH,Number=1,Type=Character,Description=\"c\">\n");
    s.push_str("##INFO=<ID=IV,Number=.,Type=Integer,Description=\"v\">\n");
    s.push_str("##INFO=<ID=SV,Number=.,Type=String,Description=\"w\">\n");
    s.push_str("##INFO=<ID=END,Number=1,Type=Integer,Description=\"e\">\n");
    s.push_str("##FILTER=<ID=q10,Description=\"q\">\n");
    s.push_str("##FORMAT=<ID=GT,Number=1,Type=String,Description=\"g\">\n");
    s.push_str("##FORMAT=<ID=GQ,Number=1,Type=Integer,Description=\"q\">\n");
    s.push_str("##FORMAT=<ID=PL,Number=G,Type=Integer,Description=\"p\">\n");
    s.push_str("##FORMAT=<ID=HQ,Number=2,Type=Integer,Description=\"h\">\n##FORMAT=<ID=FA,Number=2,Type=Float,Description=\"h\">\n##FORMAT=<ID=CA,Number=.,Type=Character,Description=\"h\">\n##FORMAT=<ID=SA,Number=.,Type=String,Description=\"h\">\n");
    s.push_str("##FORMAT=<ID=FT,Number=1,Type=String,Description=\"f\">\n");
    s.push_str("#CHROM\tPOS\tID\tREF\tALT\tQUAL\tFILTER\tINFO\tFORMAT\ts0\ts1\n");
    s.push_str("sq0\t10\tid0;id1\tA\tC\t30\tPASS\tDP=14;AF=0.5;DB;AA=T;CH=x;IV=1,300,70000\tGT:GQ:PL:HQ:FT:FA:CA:SA\t0/1:40:0,10,100:15,25:ok:1.5,2.5:a,b:xy,z\t1|1:.:.:.:.:.:.:.\n");
    s.push_str("sq0\t20\t.\tAT\tG,T\t.\tq10\tAF=0.1,0.2;SV=a,b\tGT:GQ\t0/2:3\t./.:9\n");
    s.push_str("sq1\t30\t.\tG\t.\t.\t.\t.\tGT\t0\t1\n");
    s.push_str("sq1\t40\tid3\tC\t<DEL>\t5\t.\tEND=100;DP=7\tGQ:HQ:FA\t300:.,1:.,0.5\t-5:2,300:1e3,.\n");
    s.into_bytes()
}

/// uncompressed BCF stream
pub fn bcf_raw() -> Vec<u8> {
    use vcf::variant::io::Write as _;
    let text = vcf_text();
    let mut r = vcf::io::Reader::new(&text[..]);
    let h = r.read_header().expect("generated VCF header");
    let recs = r.record_bufs(&h).collect::<Result<Vec<_>, _>>().expect("generated VCF records");
    let mut w = bcf::io::Writer::from(Vec::new());
    w.write_header(&h).unwrap();
    for rec in &recs {
        w.write_variant_record(&h, rec).unwrap();
    }
    w.into_inner()
}

pub fn fasta_text() -> Vec<u8> {
    b">sq0 first one\nACGTACGTAC\nGGTTAACCGG\nACG\n>sq1\nTTGCA\n\n>sq2 d\r\nAC\r\nGT\r\n".to_vec()
}

pub fn fastq_text() -> Vec<u8> {
    b"@r0 d0\nACGT\n+\nIIII\n@r1\nAC\n+r1\n!~\n@r2/1 x y\nNNNNNN\n+\nABCDEF\n".to_vec()
}

pub fn gff_text() -> Vec<u8> {
    let mut s = String::new();
    s.push_str("##gff-version 3\n##sequence-region sq0 1 1000\n#comment\n");
    s.push_str("sq0\tsrc\tgene\t10\t200\t.\t+\t.\tID=g0;Name=n%3Bx;Alias=a,b\n");
    s.push_str("sq0\tsrc\tCDS\t20\t90\t1.5\t-\t2\tID=c0;Parent=g0\n");
    s.push_str("\n###\n");
    s.push_str("sq%201\t.\texon\t5\t6\t3e2\t?\t0\tDbxref=x:1,y:2;Note=%41\n");
    s.push_str("##FASTA\n>sq0\nACGT\n");
    s.into_bytes()
}

pub fn gtf_text() -> Vec<u8> {
    let mut s = String::new();
    s.push_str("#comment\n");
    s.push_str("sq0\tsrc\texon\t10\t200\t.\t+\t.\tgene_id \"g0\"; transcript_id \"t0\";\n");
    s.push_str("sq1\tsrc\tCDS\t20\t90\t1.5\t-\t2\tgene_id \"g1\"; transcript_id \"t1\"; tag \"a b\"; n 5;\n");
    s.push_str("sq1\t.\tstop_codon\t5\t7\t.\t.\t0\tgene_id \"\";\n");
    s.into_bytes()
}

pub fn bed_text() -> Vec<u8> {
    b"#c\ntrack name=x\nsq0\t0\t10\nsq0\t5\t20\tn1\t500\t+\tx\ty\nsq1\t7\t8\tn2\t0\t-\n\nsq1\t9\t30\tn3\t1000\t.\n".to_vec()
}

// ---------------------------------------------------------------------------------------------
// indexes

fn pos(n: u64) -> Position {
    Position::try_from(n as usize).unwrap()
}

fn build_index<I>(rng: &mut Rng, ms: u8, d: u8, nref: usize, hdr: Option<Header>) -> binning_index::Index<I>
where
    I: binning_index::index::reference_sequence::Index + Default,
{
    let maxp = (1u64 << (ms as u64 + 3 * d as u64)) - 1;
    let mut ix = Indexer::<I>::new(ms, d);
    if let Some(h) = hdr {
        ix = ix.set_header(h);
    }
    let mut off = rng.below(1 << 20);
    for r in 0..nref {
        let mut s = rng.range(1, 1000.min(maxp));
        for _ in 0..rng.range(2, 5) {
            s = (s + rng.below(1 + maxp / 8)).min(maxp);
            let sh = rng.below(20);
            let e = (s + rng.below(1 + (maxp >> sh))).min(maxp);
            let a = off;
            off += rng.range(1, 70000);
            ix.add_record(Some((r, pos(s), pos(e), rng.chance(9, 10))), Chunk::new(VP::from(a), VP::from(off)))
                .unwrap();
        }
    }
    for _ in 0..2 {
        ix.add_record(None, Chunk::new(VP::from(off), VP::from(off + 1))).unwrap();
    }
    ix.build(nref)
}

pub fn bai_file() -> Vec<u8> {
    let mut rng = Rng::new(15_001);
    let index: bam::bai::Index = build_index::<LinearIndex>(&mut rng, 14, 5, 2, None);
    let mut buf = Vec::new();
    bam::bai::io::Writer::new(&mut buf).write_index(&index).unwrap();
    buf
}

/// uncompressed CSI payload
pub fn csi_raw() -> Vec<u8> {
    let mut rng = Rng::new(15_002);
    let hdr = Some(csi::binning_index::index::header::Builder::vcf().build());
    let index: csi::Index = build_index::<BinnedIndex>(&mut rng, 14, 5, 2, hdr);
    let mut w = csi::io::Writer::new(Vec::new());
    w.write_index(&index).unwrap();
    gunzip_bgzf(&w.into_inner().finish().unwrap())
}

/// uncompressed tabix payload
pub fn tabix_raw() -> Vec<u8> {
    let mut rng = Rng::new(15_003);
    let names: csi::binning_index::index::header::ReferenceSequenceNames =
        (0..2).map(|i| bstr::BString::from(format!("sq{i}"))).collect();
    let hdr = csi::binning_index::index::header::Builder::vcf()
        .set_reference_sequence_names(names)
        .build();
    let index: tabix::Index = build_index::<LinearIndex>(&mut rng, 14, 5, 2, Some(hdr));
    let mut w = tabix::io::Writer::new(Vec::new());
    w.write_index(&index).unwrap();
    gunzip_bgzf(&w.into_inner().finish().unwrap())
}

pub fn gzi_file() -> Vec<u8> {
    let mut rng = Rng::new(15_004);
    let (mut c, mut u) = (0u64, 0u64);
    let v: Vec<(u64, u64)> = (0..5)
        .map(|_| {
            c += rng.range(28, 65536);
            u += rng.range(1, 65280);
            (c, u)
        })
        .collect();
    let index = bgzf::gzi::Index::from(v);
    let mut buf = Vec::new();
    bgzf::gzi::io::Writer::new(&mut buf).write_index(&index).unwrap();
    buf
}

pub fn fai_file() -> Vec<u8> {
    let recs = vec![
        fasta::fai::Record::new("sq0", 23, 15, NonZero::new(10).unwrap(), NonZero::new(11).unwrap()),
        fasta::fai::Record::new("sq1", 5, 45, NonZero::new(5).unwrap(), NonZero::new(6).unwrap()),
        fasta::fai::Record::new("sq2", 4, 59, NonZero::new(2).unwrap(), NonZero::new(4).unwrap()),
    ];
    let index = fasta::fai::Index::from(recs);
    let mut buf = Vec::new();
    fasta::fai::io::Writer::new(&mut buf).write_index(&index).unwrap();
    buf
}

/// crai text (the file is this text gzip-compressed)
pub fn crai_text() -> Vec<u8> {
    let recs = vec![
        cram::crai::Record::new(Some(0), Position::new(5), 40, 26, 150, 300),
        cram::crai::Record::new(Some(0), Position::new(40), 10, 26, 450, 200),
        cram::crai::Record::new(Some(1), Position::new(6), 8, 900, 150, 120),
        cram::crai::Record::new(None, None, 0, 1500, 150, 90),
    ];
    let mut w = cram::crai::io::Writer::new(Vec::new());
    w.write_index(&recs).unwrap();
    let gz = w.finish().unwrap();
    let mut out = Vec::new();
    std::io::Read::read_to_end(&mut flate2::read::MultiGzDecoder::new(&gz[..]), &mut out).unwrap();
    out
}

// ---------------------------------------------------------------------------------------------
// sealing

pub fn gunzip_bgzf(file: &[u8]) -> Vec<u8> {
    let mut out = Vec::new();
    std::io::Read::read_to_end(&mut bgzf::io::Reader::new(file), &mut out).unwrap();
    out
}

/// BGZF-compress a payload with noodles' own writer (valid BSIZE / CRC32 / ISIZE), EOF block added.
pub fn bgzip(payload: &[u8]) -> Vec<u8> {
    let mut w = bgzf::io::Writer::new(Vec::new());
    w.write_all(payload).unwrap();
    w.finish().unwrap()
}

/// Several blocks: a block boundary every `step` bytes.
pub fn bgzip_blocks(payload: &[u8], step: usize) -> Vec<u8> {
    let mut w = bgzf::io::Writer::new(Vec::new());
    for c in payload.chunks(step.max(1)) {
        w.write_all(c).unwrap();
        w.flush().unwrap();
    }
    w.finish().unwrap()
}

pub fn gzip(payload: &[u8]) -> Vec<u8> {
    let mut e = flate2::write::GzEncoder::new(Vec::new(), flate2::Compression::default());
    e.write_all(payload).unwrap();
    e.finish().unwrap()
}

fn itf8_at(b: &[u8], p: usize) -> Option<(i64, usize)> {
    let b0 = *b.get(p)? as u32;
    let n = if b0 < 0x80 {
        0
    } else if b0 < 0xc0 {
        1
    } else if b0 < 0xe0 {
        2
    } else if b0 < 0xf0 {
        3
    } else {
        4
    };
    if p + n >= b.len() {
        return None;
    }
    let g = |i: usize| b[p + i] as u32;
    let v: u32 = match n {
        0 => b0,
        1 => (b0 & 0x7f) << 8 | g(1),
        2 => (b0 & 0x3f) << 16 | g(1) << 8 | g(2),
        3 => (b0 & 0x1f) << 24 | g(1) << 16 | g(2) << 8 | g(3),
        _ => (b0 & 0x0f) << 28 | g(1) << 20 | g(2) << 12 | g(3) << 4 | (g(4) & 0x0f),
    };
    Some((v as i32 as i64, p + n + 1))
}

fn ltf8_skip(b: &[u8], p: usize) -> Option<usize> {
    let b0 = *b.get(p)?;
    let n = b0.leading_ones() as usize; // number of continuation bytes (0..=8)
    if p + n + 1 > b.len() {
        None
    } else {
        Some(p + n + 1)
    }
}

fn crc32(bs: &[u8]) -> u32 {
    let mut c = flate2::Crc::new();
    c.update(bs);
    c.sum()
}

/// Recompute the CRC32 of every container header and block that can still be located by walking
/// the CRAM 3.x layout of the (possibly corrupted) bytes; stops quietly where the layout no
/// longer parses.  Returns the number of checksums rewritten.
pub fn cram_reseal(b: &mut Vec<u8>) -> usize {
    let mut fixed = 0;
    let mut p = 26usize;
    while p + 4 <= b.len() {
        let start = p;
        let len = i32::from_le_bytes([b[p], b[p + 1], b[p + 2], b[p + 3]]);
        p += 4;
        let mut q = p;
        let mut nblocks = 0i64;
        let mut ok = true;
        for i in 0..8 {
            if i == 4 || i == 5 {
                match ltf8_skip(b, q) {
                    Some(n) => q = n,
                    None => {
                        ok = false;
                        break;
                    }
                }
            } else {
                match itf8_at(b, q) {
                    Some((v, n)) => {
                        q = n;
                        if i == 6 {
                            nblocks = v;
                        }
                        if i == 7 {
                            // landmarks
                            for _ in 0..v.clamp(0, 10_000) {
                                match itf8_at(b, q) {
                                    Some((_, n)) => q = n,
                                    None => {
                                        ok = false;
                                        break;
                                    }
                                }
                            }
                        }
                    }
                    None => {
                        ok = false;
                        break;
                    }
                }
            }
        }
        if !ok || q + 4 > b.len() {
            return fixed;
        }
        let c = crc32(&b[start..q]);
        b[q..q + 4].copy_from_slice(&c.to_le_bytes());
        fixed += 1;
        q += 4;
        if len < 0 {
            return fixed;
        }
        let end = q.saturating_add(len as usize);
        let lim = end.min(b.len());
        let mut k = 0i64;
        while q + 2 < lim && k < nblocks.clamp(0, 100_000) {
            let bstart = q;
            q += 2;
            let Some((_, n)) = itf8_at(b, q) else { return fixed };
            q = n;
            let Some((csize, n)) = itf8_at(b, q) else { return fixed };
            q = n;
            let Some((_, n)) = itf8_at(b, q) else { return fixed };
            q = n;
            if csize < 0 {
                break;
            }
            let dend = q.saturating_add(csize as usize);
            if dend + 4 > b.len() {
                break;
            }
            let c = crc32(&b[bstart..dend]);
            b[dend..dend + 4].copy_from_slice(&c.to_le_bytes());
            fixed += 1;
            q = dend + 4;
            k += 1;
        }
        if end <= start {
            return fixed;
        }
        p = end;
    }
    fixed
}

// ---------------------------------------------------------------------------------------------
// a BGZF-compressed BAM (several blocks) with valid BAI / CSI, and a bgzipped VCF with a valid
// tabix index, for the "query with an arbitrary index" cases

pub fn bam_blocks() -> Vec<u8> {
    bgzip_blocks(&bam_raw(), 200)
}

pub fn vcfgz_blocks() -> Vec<u8> {
    bgzip_blocks(&vcf_text(), 300)
}

pub fn bam_index<I>(data: &[u8], ms: u8, d: u8) -> binning_index::Index<I>
where
    I: binning_index::index::reference_sequence::Index + Default,
{
    let mut r = bam::io::Reader::new(data);
    let h = r.read_header().unwrap();
    let mut ix = Indexer::<I>::new(ms, d);
    let mut rec = bam::Record::default();
    let mut start = r.get_ref().virtual_position();
    while r.read_record(&mut rec).unwrap() != 0 {
        let end = r.get_ref().virtual_position();
        let ctx = match (rec.reference_sequence_id(), rec.alignment_start(), sam::alignment::Record::alignment_end(&rec)) {
            (Some(Ok(id)), Some(Ok(s)), Some(Ok(e))) => Some((id, s, e, !rec.flags().is_unmapped())),
            _ => None,
        };
        ix.add_record(ctx, Chunk::new(start, end)).unwrap();
        start = end;
    }
    ix.build(h.reference_sequences().len())
}

pub fn bam_bai() -> Vec<u8> {
    let index: bam::bai::Index = bam_index::<LinearIndex>(&bam_blocks(), 14, 5);
    let mut buf = Vec::new();
    bam::bai::io::Writer::new(&mut buf).write_index(&index).unwrap();
    buf
}

pub fn bam_csi_raw() -> Vec<u8> {
    let index: csi::Index = bam_index::<BinnedIndex>(&bam_blocks(), 14, 5);
    let mut w = csi::io::Writer::new(Vec::new());
    w.write_index(&index).unwrap();
    gunzip_bgzf(&w.into_inner().finish().unwrap())
}

pub fn vcf_tbi_raw() -> Vec<u8> {
    use vcf::variant::Record as _;
    let data = vcfgz_blocks();
    let mut r = vcf::io::Reader::new(bgzf::io::Reader::new(&data[..]));
    let h = r.read_header().unwrap();
    let names: csi::binning_index::index::header::ReferenceSequenceNames =
        ["sq0", "sq1"].iter().map(|s| bstr::BString::from(*s)).collect();
    let hdr = csi::binning_index::index::header::Builder::vcf()
        .set_reference_sequence_names(names)
        .build();
    let mut ix = Indexer::<LinearIndex>::new(14, 5).set_header(hdr);
    let mut rec = vcf::Record::default();
    let mut start = r.get_ref().virtual_position();
    while r.read_record(&mut rec).unwrap() != 0 {
        let end = r.get_ref().virtual_position();
        let name = rec.reference_sequence_name().to_string();
        let id = if name == "sq0" { 0 } else { 1 };
        let s = rec.variant_start().unwrap().unwrap();
        let e = rec.variant_end(&h).unwrap();
        ix.add_record(Some((id, s, e, true)), Chunk::new(start, end)).unwrap();
        start = end;
    }
    let index: tabix::Index = ix.build(2);
    let mut w = tabix::io::Writer::new(Vec::new());
    w.write_index(&index).unwrap();
    gunzip_bgzf(&w.into_inner().finish().unwrap())
}

// ---------------------------------------------------------------------------------------------
// CRAM codec base encodings

pub const CODECS: &[&str] = &[
    "rans4x8o0", "rans4x8o1", "nx16o0", "nx16o1", "nx16rle", "nx16pack", "nx16stripe", "nx16cat", "aac0", "aac1", "aacrle",
    "aacpack", "fqz", "tok", "gzip", "bzip2", "lzma", "itf8", "ltf8", "uint7",
];

pub fn codec_plain() -> Vec<u8> {
    let mut v = Vec::new();
    for i in 0..60u32 {
        v.push(b"ACGTN"[(i * i % 5) as usize]);
    }
    v.extend_from_slice(b"AAAAAAAAAAAAAAAACCCCCCCCGGGG");
    v
}

/// plain inputs of the flag-sweep codec bases (`nx16x<flags>p<k>`, `aacx<flags>p<k>`): the input
/// classes on which the decoder MODELS of C08 (NV.Cram.Nx16Full / Nx16Stripe / AacRle) branch --
/// empty, shorter than the state count (forces CAT), one symbol (PACK with 0 bits, RLE of one
/// run), 17 symbols (PACK refused), 256 symbols, long runs (RLE meta-data), order-1 contexts
pub const N_PLAINS: usize = 9;
pub fn codec_plain_variant(k: usize) -> Vec<u8> {
    match k {
        0 => codec_plain(),
        1 => Vec::new(),
        2 => vec![b'A'],
        3 => b"ACG".to_vec(),
        4 => vec![b'N'; 40],
        5 => (0..512u32).map(|i| (i % 256) as u8).collect(),
        6 => {
            let mut v = vec![b'A'; 100];
            v.extend(vec![b'C'; 100]);
            v.extend(b"GT");
            v.extend(vec![0u8; 70]);
            v
        }
        7 => (0..85u32).map(|i| b'a' + (i * 7 % 17) as u8).collect(),
        _ => (0..97u32).map(|i| [0u8, 1, 1, 2, 0, 3, 255, 0][(i * i % 8) as usize]).collect(),
    }
}

/// `nx16x<hh>p<k>` / `aacx<hh>p<k>` -> (flag byte, plain variant)
pub fn parse_sweep_name(name: &str) -> Option<(bool, u8, usize)> {
    let (nx, rest) = if let Some(r) = name.strip_prefix("nx16x") {
        (true, r)
    } else if let Some(r) = name.strip_prefix("aacx") {
        (false, r)
    } else {
        return None;
    };
    let (h, k) = rest.split_once('p')?;
    Some((nx, u8::from_str_radix(h, 16).ok()?, k.parse().ok()?))
}

/// fqzcomp / name tokenizer base variants (`fqzv<k>`, `tokv<k>`)
fn fqz_variant(k: usize) -> (Vec<usize>, Vec<u8>) {
    match k {
        0 => (vec![1; 30], (0..30u32).map(|i| (i % 5) as u8).collect()),
        1 => (vec![64], (0..64u32).map(|i| (i * 11 % 60) as u8).collect()),
        2 => (vec![5, 0, 7, 0, 0, 3], (0..15u32).map(|i| (i % 3 + 30) as u8).collect()),
        3 => (vec![20, 20, 20], vec![33u8; 60]),
        4 => (vec![3, 4, 5, 6, 7, 8, 9], (0..42u32).map(|i| (i * i % 94) as u8).collect()),
        _ => (vec![100, 1, 100], (0..201u32).map(|i| if i % 10 < 7 { 40 } else { (i % 41) as u8 }).collect()),
    }
}

fn tok_variant(k: usize) -> Vec<u8> {
    match k {
        0 => b"a\0a\0a\0a\0".to_vec(),
        1 => b"x0001\0x0002\0x0010\0x0100\0x1000\0".to_vec(),
        2 => b"read.4294967295\0read.4294967296\0read.0\0read.00\0".to_vec(),
        3 => b"\0\0q\0".to_vec(),
        4 => b"@SRR1.1 HWI:1:2:3/1\0@SRR1.2 HWI:1:2:4/2\0@SRR1.3 HWI:1:3:4/1\0@SRR1.3 HWI:1:3:4/1\0".to_vec(),
        5 => {
            let mut v = Vec::new();
            for i in 0..40u32 {
                v.extend(format!("n{}:{}:{:03}", i / 7, i * 13 % 11, i).into_bytes());
                v.push(0);
            }
            v
        }
        _ => b"r+1\0r-1\0r 1\0r\t1\0r:1:\0:r:1\0".to_vec(),
    }
}
pub const N_FQZ_VARIANTS: usize = 6;
pub const N_TOK_VARIANTS: usize = 7;

/// (encoded bytes, uncompressed size) of the base stream of a codec case; an empty stream when
/// the encoder refuses the (flags, input) combination
pub fn codec_base(name: &str) -> (Vec<u8>, usize) {
    use cram::verif as v;
    if let Some((nx, bits, k)) = parse_sweep_name(name) {
        let plain = codec_plain_variant(k);
        // an encoder panic on an odd (flags, input) pair is not a C15 matter (C08 owns the encoders)
        let r = std::panic::catch_unwind(|| {
            if nx {
                v::rans_nx16_encode(cram::codecs::rans_nx16::Flags::from(bits), &plain)
            } else {
                v::aac_encode(cram::codecs::aac::Flags::from(bits), &plain)
            }
        });
        return (r.ok().and_then(|r| r.ok()).unwrap_or_default(), plain.len());
    }
    if let Some(k) = name.strip_prefix("fqzv").and_then(|k| k.parse::<usize>().ok()) {
        let (lens, q) = fqz_variant(k);
        let r = std::panic::catch_unwind(|| v::fqzcomp_encode(&lens, &q));
        return (r.ok().and_then(|r| r.ok()).unwrap_or_default(), q.len());
    }
    if let Some(k) = name.strip_prefix("tokv").and_then(|k| k.parse::<usize>().ok()) {
        let names = tok_variant(k);
        let r = std::panic::catch_unwind(|| v::name_tokenizer_encode(&names));
        return (r.ok().and_then(|r| r.ok()).unwrap_or_default(), names.len());
    }
    let plain = codec_plain();
    let n = plain.len();
    let nx = |bits: u8| -> Vec<u8> {
        let flags = cram::codecs::rans_nx16::Flags::from(bits);
        v::rans_nx16_encode(flags, &plain).unwrap()
    };
    let aac = |bits: u8| -> Vec<u8> {
        let flags = cram::codecs::aac::Flags::from(bits);
        v::aac_encode(flags, &plain).unwrap()
    };
    match name {
        "rans4x8o0" => (v::rans_4x8_encode(cram::codecs::rans_4x8::Order::Zero, &plain).unwrap(), n),
        "rans4x8o1" => (v::rans_4x8_encode(cram::codecs::rans_4x8::Order::One, &plain).unwrap(), n),
        "nx16o0" => (nx(0x00), n),
        "nx16o1" => (nx(0x01), n),
        "nx16rle" => (nx(0x40), n),
        "nx16pack" => (nx(0x80), n),
        "nx16stripe" => (nx(0x08), n),
        "nx16cat" => (nx(0x20), n),
        "aac0" => (aac(0x00), n),
        "aac1" => (aac(0x01), n),
        "aacrle" => (aac(0x40), n),
        "aacpack" => (aac(0x80), n),
        "fqz" => {
            let q: Vec<u8> = (0..48u32).map(|i| (i * 7 % 40) as u8).collect();
            (v::fqzcomp_encode(&[10, 10, 10, 18], &q).unwrap(), q.len())
        }
        "tok" => {
            let names = b"r001:7:x\0r001:8:x\0r002:10:y\0q7\0r002:10:y\0";
            (v::name_tokenizer_encode(names).unwrap(), names.len())
        }
        "gzip" => (v::gzip_encode(6, &plain).unwrap(), n),
        "bzip2" => (v::bzip2_encode(6, &plain).unwrap(), n),
        "lzma" => (v::lzma_encode(6, &plain).unwrap(), n),
        "itf8" => {
            let mut b = Vec::new();
            for x in [0i32, 127, 128, 16383, 16384, 2097151, 2097152, 268435455, 268435456, -1, i32::MIN] {
                v::write_itf8(&mut b, x).unwrap();
            }
            (b, 0)
        }
        "ltf8" => {
            let mut b = Vec::new();
            for x in [0i64, 127, 128, 1 << 14, 1 << 21, 1 << 28, 1 << 35, 1 << 42, 1 << 49, 1 << 56, -1, i64::MIN] {
                v::write_ltf8(&mut b, x).unwrap();
            }
            (b, 0)
        }
        "uint7" => {
            let mut b = Vec::new();
            for x in [0u32, 127, 128, 16383, 16384, u32::MAX] {
                v::write_uint7(&mut b, x).unwrap();
            }
            (b, 0)
        }
        _ => panic!("unknown codec {name}"),
    }
}
