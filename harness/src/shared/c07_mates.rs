//! C07 `mates` kind (L2 for NV.CramRec.Mates + L3 on the mate columns): one slice of records
//! through the real writer (set_mates, write_mate) and reader (read_mate, resolve_mates).
//!
//!   mates names refs recs      names = 0|1 (preserve_read_names), refs as in `rt`,
//!                              recs = ';'-joined  name|flag|rid|pos|cigar|mrid|mpos|tlen|seqhex
//!                              (name `*` = none, rid/mrid -1 = none, pos/mpos 0 = none, cigar `*`)
//!   obs = ';'-joined  flag,mrid,mpos,tlen  of the records read back, then ` L:` and ` M:` followed by
//!         what set_mates decided, read from the file by the independent walker (per record the CF
//!         bits DETACHED|MATE_IS_DOWNSTREAM, and `:<NF>` for a record with a downstream mate; the model
//!         prints its two formulations of set_mates, the file is printed twice), then ` B:` and the raw
//!         bytes (hex, `/`-separated) of the external blocks 8..12 = the MF / NS / NP / TS / NF series
//!         (model: NV.CramRec.MatesBytes), or Err:<kind> (writer)
//!         / ReadErr:<kind> (reader) / Panic
use super::*;

#[derive(Clone, Debug)]
pub struct MRec {
    pub name: String,
    pub flag: u16,
    pub rid: i64,
    pub pos: usize,
    pub cigar: String,
    pub mrid: i64,
    pub mpos: usize,
    pub tlen: i32,
    pub seq: Vec<u8>,
}

pub fn fmt_mrecs(rs: &[MRec]) -> String {
    rs.iter()
        .map(|r| {
            format!("{}|{}|{}|{}|{}|{}|{}|{}|{}", r.name, r.flag, r.rid, r.pos, r.cigar, r.mrid, r.mpos, r.tlen, hex(&r.seq))
        })
        .collect::<Vec<_>>()
        .join(";")
}

pub fn parse_mrecs(s: &str) -> Vec<MRec> {
    s.split(';')
        .map(|r| {
            let f: Vec<&str> = r.split('|').collect();
            MRec {
                name: f[0].into(),
                flag: f[1].parse().unwrap(),
                rid: f[2].parse().unwrap(),
                pos: f[3].parse().unwrap(),
                cigar: f[4].into(),
                mrid: f[5].parse().unwrap(),
                mpos: f[6].parse().unwrap(),
                tlen: f[7].parse().unwrap(),
                seq: unhex(f[8]),
            }
        })
        .collect()
}

pub fn header_of(refs: &Refs) -> sam::Header {
    let mut b = sam::Header::builder();
    for (n, s) in refs {
        b = b.add_reference_sequence(
            n.as_bytes().to_vec(),
            sam::header::record::value::Map::<sam::header::record::value::map::ReferenceSequence>::new(
                std::num::NonZeroUsize::new(s.len().max(1)).unwrap(),
            ),
        );
    }
    b.build()
}

/// the bytes of a name of the case text: `^@` stands for a NUL byte
pub fn name_bytes(name: &str) -> Vec<u8> {
    name.replace("^@", "\0").into_bytes()
}

pub fn record_of(m: &MRec) -> RecordBuf {
    let mut b = RecordBuf::builder()
        .set_flags(Flags::from(m.flag))
        .set_cigar(parse_cigar(&m.cigar).into_iter().collect::<Cigar>())
        .set_template_length(m.tlen)
        .set_sequence(Sequence::from(m.seq.clone()))
        .set_quality_scores(QualityScores::from(vec![30u8; m.seq.len()]));
    if m.name != "*" {
        b = b.set_name(name_bytes(&m.name));
    }
    if m.rid >= 0 {
        b = b.set_reference_sequence_id(m.rid as usize);
    }
    if let Some(p) = Position::new(m.pos) {
        b = b.set_alignment_start(p);
    }
    if m.mrid >= 0 {
        b = b.set_mate_reference_sequence_id(m.mrid as usize);
    }
    if let Some(p) = Position::new(m.mpos) {
        b = b.set_mate_alignment_start(p);
    }
    b.build()
}

fn ref_span(cigar: &str) -> usize {
    parse_cigar(cigar).iter().filter(|o| o.kind().consumes_reference()).map(|o| o.len()).sum()
}

/// indices of the template of record i as set_mates collects it (same name, segmented, not
/// secondary, not supplementary since /repo de003b4)
fn chain_of(rs: &[MRec], i: usize) -> Vec<usize> {
    let el = |r: &MRec| r.flag & 1 != 0 && r.flag & 0x100 == 0 && r.flag & 0x800 == 0;
    if !el(&rs[i]) {
        return vec![i];
    }
    (0..rs.len()).filter(|&j| el(&rs[j]) && rs[j].name == rs[i].name).collect()
}

/// a pair the SAM specification calls consistent, written leftmost first: both mapped on one
/// reference, no supplementary member, RNEXT/PNEXT/0x20/0x8 mirror the mate, TLEN = +-(rightmost
/// end - leftmost start + 1) with the sign of the first record positive
fn consistent_plain_pair(x: &MRec, y: &MRec) -> bool {
    let mapped = |r: &MRec| r.flag & 4 == 0 && r.rid >= 0 && r.pos > 0 && r.flag & 0x800 == 0;
    if !(mapped(x) && mapped(y) && x.rid == y.rid) {
        return false;
    }
    let mirror = |a: &MRec, b: &MRec| {
        a.mrid == b.rid && a.mpos == b.pos && (a.flag & 32 != 0) == (b.flag & 16 != 0) && a.flag & 8 == 0
    };
    let end = |r: &MRec| r.pos + ref_span(&r.cigar) - 1;
    let t = (end(x).max(end(y)) - x.pos.min(y.pos) + 1) as i64;
    mirror(x, y) && mirror(y, x) && x.pos <= y.pos && x.tlen as i64 == t && y.tlen as i64 == -t
}

/// what set_mates decided, from the file: the slice's CF (content id 2) and NF (content id 12)
/// external blocks hold one ITF8 per record / per record with MATE_IS_DOWNSTREAM (the writer is
/// run without block compression)
fn links_of_file(file: &[u8], n: usize) -> Result<String, String> {
    let w = walk::walk_file(file)?;
    if w.containers.len() != 2 {
        return Err(format!("{} containers", w.containers.len()));
    }
    let ints = |cid: i32| -> Result<Vec<i32>, String> {
        let mut out = Vec::new();
        for b in w.containers[1].blocks.iter().filter(|b| b.ctype == 4 && b.cid == cid) {
            if b.method != 0 {
                return Err(format!("block {cid} is compressed"));
            }
            let mut cur = walk::Cur::new(&file[..b.data.1], b.data.0);
            while cur.p < b.data.1 {
                out.push(cur.itf8()?);
            }
        }
        Ok(out)
    };
    let raw = |cid: i32| -> Vec<u8> {
        let mut out = Vec::new();
        for b in w.containers[1].blocks.iter().filter(|b| b.ctype == 4 && b.cid == cid) {
            out.extend_from_slice(&file[b.data.0..b.data.1]);
        }
        out
    };
    // the raw MF / NS / NP / TS / NF series (model: NV.CramRec.MatesBytes.mates_bytes)
    let bytes = [8, 9, 10, 11, 12].iter().map(|&c| hex(&raw(c))).collect::<Vec<_>>().join("/");
    let cf = ints(2)?;
    let nf = ints(12)?;
    if cf.len() != n {
        return Err(format!("{} CF values for {n} records", cf.len()));
    }
    let mut k = 0;
    let mut parts = Vec::new();
    for f in cf {
        if f & 4 != 0 {
            let d = nf.get(k).ok_or_else(|| "NF series too short".to_string())?;
            k += 1;
            parts.push(format!("{}:{}", f & 6, d));
        } else {
            parts.push(format!("{}", f & 6));
        }
    }
    if k != nf.len() {
        return Err("NF series too long".into());
    }
    Ok(format!("{} M:{} B:{}", parts.join(","), parts.join(","), bytes))
}

pub fn run_mates(c: &Case) -> Obs {
    let names = c.args[0] == "1";
    let refs = parse_refs(&c.args[1]);
    let ms = parse_mrecs(&c.args[2]);
    let h = header_of(&refs);
    let recs: Vec<RecordBuf> = ms.iter().map(record_of).collect();
    let o = Opts { names, deltas: true, rps: recs.len() + 1, enc: "all:none".into() };
    let res = nv::guarded(AssertUnwindSafe(|| -> Result<(Vec<(u16, i64, usize, i32)>, String), String> {
        let file = write_cram(&o, &refs, &h, &recs).map_err(|e| format!("Err:{}", nv::errkind(&e)))?;
        let (_, back) = read_cram(&refs, &file).map_err(|e| format!("ReadErr:{}", nv::errkind(&e)))?;
        if back.len() != recs.len() {
            return Err("RecordCount".into());
        }
        let links = links_of_file(&file, recs.len()).map_err(|e| format!("Walk:{e}"))?;
        Ok((back
            .iter()
            .map(|r| {
                (
                    u16::from(r.flags()),
                    r.mate_reference_sequence_id().map(|x| x as i64).unwrap_or(-1),
                    r.mate_alignment_start().map(usize::from).unwrap_or(0),
                    r.template_length(),
                )
            })
            .collect(), links))
    }));
    let chained = (0..ms.len()).any(|i| chain_of(&ms, i).len() >= 2);
    match res {
        Outcome::Panicked(m) => Obs::fail("Panic", "mates-panic", m),
        Outcome::Done(Err(e)) => {
            // the generator only makes the writer refuse a mate position that is not an i32
            let big = ms.iter().any(|r| r.mpos > i32::MAX as usize);
            let o = Obs::ok(e.clone(), false);
            if big && e == "Err:InvalidInput" { o } else { o.with_verdict(fail("mates-rejected", e)) }
        }
        Outcome::Done(Ok((v, links))) => {
            let obs = v.iter().map(|(f, r, p, t)| format!("{f},{r},{p},{t}")).collect::<Vec<_>>().join(";");
            let obs = format!("{obs} L:{links}");
            let mut verdict = Ok(());
            for (i, (m, a)) in ms.iter().zip(&v).enumerate() {
                if (m.flag, m.mrid, m.mpos, m.tlen) == *a {
                    continue;
                }
                let detail = format!(
                    "record {i}: wrote flag={} rnext={} pnext={} tlen={} read flag={} rnext={} pnext={} tlen={}",
                    m.flag, m.mrid, m.mpos, m.tlen, a.0, a.1, a.2, a.3
                );
                let ch = chain_of(&ms, i);
                verdict = if ch.len() < 2 {
                    fail("mates-detached-record-changed", detail)
                } else if ch.len() == 2 && consistent_plain_pair(&ms[ch[0]], &ms[ch[1]]) {
                    fail("mates-consistent-pair-changed", detail)
                } else {
                    fail("cram-intra-slice-mate-fields-recomputed", detail)
                };
                break;
            }
            Obs::ok(obs, chained).with_verdict(verdict)
        }
    }
}

// ------------------------------------------------------------------------------------------------
// generation

fn simple_alignment(rng: &mut Rng, refb: &[u8]) -> (usize, String, Vec<u8>) {
    loop {
        if let Some(a) = cgen::gen_alignment(rng, refb, 20) {
            return (a.pos, a.cigar, a.seq);
        }
    }
}

pub fn push_mates(rng: &mut Rng, w: &mut CaseWriter) {
    let nrefs = rng.range(1, 2) as usize;
    let refs: Refs = (0..nrefs)
        .map(|i| {
            let len = rng.range(60, 160) as usize;
            (format!("r{i}"), cgen::gen_ref(rng, len))
        })
        .collect();
    let n = rng.range(1, 9) as usize;
    let rs = gen_recs(rng, &refs, n);
    w.push("mates", vec![rng.below(2).to_string(), fmt_refs(&refs), fmt_mrecs(&rs)]);
}

/// n records over `refs` as the `mates` kind makes them (also used, slice by slice, by the `file` kind)
pub fn gen_recs(rng: &mut Rng, refs: &Refs, n: usize) -> Vec<MRec> {
    let nrefs = refs.len();
    let pool: &[&str] = match rng.below(4) {
        0 => &["a"],
        1 => &["a", "b", "*"],
        _ => &["a", "b", "c", "d", "*"],
    };
    let mut rs: Vec<MRec> = Vec::new();
    for _ in 0..n {
        let name = rng.pick(pool).to_string();
        let mut flag: u16 = 0;
        if !rng.chance(1, 6) {
            flag |= 1;
        }
        if rng.chance(1, 2) {
            flag |= 16;
        }
        if rng.chance(1, 8) {
            flag |= 0x100;
        }
        if rng.chance(1, 8) {
            flag |= 0x800;
        }
        flag |= *rng.pick(&[0u16, 0x40, 0x80]);
        let shape = rng.below(10);
        let mut r = MRec { name, flag, rid: -1, pos: 0, cigar: "*".into(), mrid: -1, mpos: 0, tlen: 0, seq: vec![] };
        if shape < 6 {
            // mapped
            let rid = rng.below(nrefs as u64) as usize;
            let (pos, cigar, seq) = simple_alignment(rng, &refs[rid].1);
            r.rid = rid as i64;
            r.pos = pos;
            r.cigar = cigar;
            r.seq = seq;
            if rng.chance(1, 8) {
                // flagged unmapped but carrying an alignment: its features are not written, and
                // the writer's calculate_template_length uses the read length for it
                r.flag |= 4;
            }
        } else {
            r.flag |= 4;
            let len = match rng.below(6) {
                0 => 0,
                1 => 1,
                _ => rng.range(2, 40) as usize,
            };
            r.seq = (0..len).map(|_| *rng.pick(b"ACGTN")).collect();
            if shape < 8 {
                // placed (at its mate's position), possibly reaching past the reference end
                let rid = rng.below(nrefs as u64) as usize;
                r.rid = rid as i64;
                r.pos = rng.range(1, refs[rid].1.len() as u64) as usize;
            }
        }
        rs.push(r);
    }
    // mate fields: consistent templates for most same-name pairs, arbitrary values otherwise
    for r in rs.iter_mut() {
        match rng.below(4) {
            0 => {}
            1 => {
                r.mrid = rng.below(nrefs as u64 + 1) as i64 - 1;
                r.mpos = rng.below(170) as usize;
                r.tlen = rng.below(400) as i32 - 200;
                r.flag |= *rng.pick(&[0u16, 8, 32, 40]);
            }
            _ => {}
        }
    }
    let consistent = rng.below(10) < 7;
    if consistent {
        for i in 0..n {
            let ch = chain_of(&rs, i);
            if ch.len() >= 2 && ch[0] == i {
                let (a, b) = (ch[0], *ch.last().unwrap());
                // mirror the fields along the chain as the reader will recompute them
                for k in 0..ch.len() {
                    let (x, y) = (ch[k], ch[(k + 1) % ch.len()]);
                    let (yr, yp, yf) = (rs[y].rid, rs[y].pos, rs[y].flag);
                    let m = &mut rs[x];
                    m.mrid = yr;
                    m.mpos = yp;
                    m.flag &= !(8 | 32);
                    if yf & 16 != 0 {
                        m.flag |= 32;
                    }
                    if yf & 4 != 0 {
                        m.flag |= 8;
                    }
                }
                let span = |r: &MRec| if r.cigar == "*" || r.flag & 4 != 0 { r.seq.len() } else { ref_span(&r.cigar) };
                let t = if rs[a].pos == 0 || rs[b].pos == 0 {
                    0
                } else {
                    let e = (rs[a].pos + span(&rs[a])).max(rs[b].pos + span(&rs[b])) - 1;
                    let s = rs[a].pos.min(rs[b].pos);
                    (if s > e { s - e + 1 } else { e - s + 1 }) as i32
                };
                let style = rng.below(8);
                for (k, &x) in ch.iter().enumerate() {
                    rs[x].tlen = match style {
                        0 => 0,                               // TLEN left at 0
                        1 => if k == 0 { -t } else { t },     // sign attached to the other end
                        _ => if k == 0 { t } else { -t },
                    };
                }
            }
        }
    }
    if rng.chance(1, 40) {
        let i = rng.below(n as u64) as usize;
        rs[i].mpos = (1usize << 31) + rng.below(3) as usize - 1;
    }
    rs
}
