//! C20 deepening round 4: the ASYNC reader builders of noodles-util over a source with a poll
//! script (L2 against the extracted model NV.Util.AsyncFill; the source is C16's AdvReader, whose
//! Coq counterpart is NV.Async.ReadExact.asource / aread).
//!
//!   aw   sched data codes chunk
//!        the read-ahead of the async builders, copied verbatim from
//!        noodles-util/src/alignment/async/io/reader/builder.rs:
//!        `(&mut reader).take(DETECTION_WINDOW_SIZE as u64).read_to_end(&mut prefix).await?`,
//!        then what `Cursor::new(prefix).chain(reader)` delivers; obs = `Ok:<prefix hex>:<length of
//!        the chained stream>` (the oracle also demands chained == data)
//!   adw|adwf|adwx  cfg data sched codes chunk avail stop
//!        the real async alignment reader builder over AdvReader(data, sched); the decision is read
//!        off behaviour: the reader is compared with the five explicitly configured async readers
//!        (both overrides set: they read nothing ahead) over the plain bytes; adw = exactly one
//!        behaves alike: obs `Ok:<f>:<k>`; adwf = only the format is determined: `Ok:<f>:~`;
//!        adwx = nothing is determined: `Ok:~:~`; a failing builder: `Err:<kind>`
//!   adwv|adwvf     the variant twin (the format is the Record variant the reader installs)
//!   sched = `<mode>:<seed>:<k1.k2...>` (C16 poll schedule: mode, seed, explicit sizes);
//!   codes = the poll events that schedule plays (0 = Pending, k+1 = Ready with at most k bytes),
//!   computed from the schedule itself; chunk = request size handed to the model's read_to_end
//!   (any value: the theorem says the result does not depend on it)

use std::io;

use futures::TryStreamExt;
use noodles_util::{alignment, variant};
use nv::{Case, CaseWriter, Obs, Outcome, Rng, guarded, hex};
use tokio::io::{AsyncRead, AsyncReadExt};

#[allow(dead_code)]
#[path = "c16_adversary.rs"]
mod c16_adversary;
use c16_adversary::{AdvReader, K_READ, Sched, Step};

use crate::common::{block_on, gz_oracle};
use crate::detect::{acomp, afmt, vcomp, vfmt};

const DETECTION_WINDOW_SIZE: usize = 8 * 1024;
const CAP: usize = 9000;

pub fn parse_sched(s: &str) -> Sched {
    let mut it = s.split(':');
    let mode: u8 = it.next().and_then(|x| x.parse().ok()).unwrap_or(0);
    let seed: u64 = it.next().and_then(|x| x.parse().ok()).unwrap_or(0);
    let explicit: Vec<usize> = it.next().unwrap_or("").split('.').filter_map(|x| x.parse().ok()).collect();
    let mut sc = Sched::new(mode, seed);
    sc.explicit = explicit;
    sc.with_limit(2_000_000)
}

/// the first `steps` poll events of the schedule, as codes of NV.Async.ReadExact.polls_of
fn codes_of(sched: &str, steps: usize) -> String {
    let mut sc = parse_sched(sched);
    let mut v = Vec::new();
    for _ in 0..steps {
        match sc.next(K_READ) {
            Step::Pending => v.push(0usize),
            Step::Xfer(k) => v.push(1 + k.min(CAP)),
            Step::Tripped => break,
        }
    }
    if v.is_empty() { "_".into() } else { v.iter().map(|k| k.to_string()).collect::<Vec<_>>().join(",") }
}

/// how many events to hand to the model: schedules whose tail is "whole requests" (modes 0, 3, 6, 7)
/// need only the explicit part (a Pending changes nothing, an exhausted model script delivers
/// everything); the others need one event per poll the read-ahead can make
fn steps_for(sched: &str, len: usize) -> usize {
    let sc = parse_sched(sched);
    match sc.mode {
        0 | 3 | 6 | 7 => 2 * sc.explicit.len() + 4,
        _ => 4 * (len.min(DETECTION_WINDOW_SIZE) + 2) + 8,
    }
}

/// schedules that fit the data: the byte-trickle and random modes only over short data
fn scheds(rng: &mut Rng, len: usize, thorough: bool) -> Vec<String> {
    let mut v: Vec<String> = vec!["0:0:".into(), "3:0:".into(), "6:0:1".into(), "7:0:1.1.1.1.1".into(), "6:0:2".into(), "6:0:3".into(), "7:0:4".into(), "6:0:5.1".into(), "6:0:17".into(), "7:0:8191.1".into(), "6:0:8192".into(), "6:0:9000".into()];
    if len <= 600 {
        v.push("1:0:".into());
        v.push("4:0:".into());
        for _ in 0..(if thorough { 4 } else { 1 }) {
            v.push(format!("2:{}:", rng.next() % 100000));
            v.push(format!("5:{}:", rng.next() % 100000));
        }
    }
    let n = rng.range(1, 6) as usize;
    let ex: Vec<String> = (0..n).map(|_| rng.pick(&[1u64, 2, 3, 4, 7, 30, 100, 4096, 8191, 8192]).to_string()).collect();
    v.push(format!("{}:0:{}", if rng.chance(1, 2) { 6 } else { 7 }, ex.join(".")));
    v
}

// ---------------------------------------------------------------------------------------------

fn run_aw(c: &Case) -> Obs {
    let data = c.b(1);
    let sched = parse_sched(&c.args[0]);
    let d2 = data.clone();
    let r = guarded(std::panic::AssertUnwindSafe(move || {
        block_on(async move {
            let mut reader = AdvReader::new(d2, sched);
            let mut prefix = Vec::new();
            (&mut reader).take(DETECTION_WINDOW_SIZE as u64).read_to_end(&mut prefix).await?;
            let mut all = Vec::new();
            let mut chained = tokio::io::BufReader::new(std::io::Cursor::new(prefix.clone()).chain(reader));
            chained.read_to_end(&mut all).await?;
            Ok::<_, io::Error>((prefix, all))
        })
    }));
    match r {
        Outcome::Done(Ok((prefix, all))) => {
            let obs = format!("Ok:{}:{}", hex(&prefix), all.len());
            if all != data {
                return Obs::fail(obs, "async-read-ahead-loses-bytes", format!("{} of {}", all.len(), data.len()));
            }
            Obs::ok(obs, !data.is_empty())
        }
        Outcome::Done(Err(e)) => Obs::ok(format!("Err:{}", nv::errkind(&e)), true),
        Outcome::Panicked(_) => Obs::ok("Panic", true),
    }
}

fn res_str<T>(r: &io::Result<T>, ok: impl Fn(&T) -> String) -> String {
    match r {
        Ok(v) => format!("Ok({})", ok(v)),
        Err(e) => format!("Err({:?},{})", e.kind(), e),
    }
}

fn repo() -> noodles_fasta::Repository {
    crate::dispatch::repo()
}

/// header + first two records of an async alignment reader, or the builder's error kind
async fn behave_a<R: AsyncRead + Unpin>(cfg: &str, src: R) -> Result<String, String> {
    let mut cs = cfg.chars();
    let (oc, of) = (cs.next().unwrap_or('-'), cs.next().unwrap_or('-'));
    let mut b = alignment::r#async::io::reader::Builder::default().set_reference_sequence_repository(repo());
    if let Some(c) = acomp(oc) {
        b = b.set_compression_method(c);
    }
    if let Some(f) = afmt(of) {
        b = b.set_format(f);
    }
    let mut r = b.build_from_reader(src).await.map_err(|e| nv::errkind(&e))?;
    let h = r.read_header().await;
    let hs = res_str(&h, |h| format!("{:?}", crate::align::canon_header(h).map(|b| hex(&b))));
    let Ok(header) = h else {
        return Ok(hs);
    };
    let mut out = hs;
    let mut rs = Box::pin(r.records(&header));
    for _ in 0..2 {
        match rs.try_next().await {
            Ok(Some(rec)) => out.push_str(&format!(" Rec({:?})", crate::align::canon_line(&header, rec.as_ref()).map(|l| hex(&l)).map_err(|e| e.kind()))),
            Ok(None) => {
                out.push_str(" End");
                break;
            }
            Err(e) => {
                out.push_str(&format!(" Err({:?},{})", e.kind(), e));
                break;
            }
        }
    }
    Ok(out)
}

async fn behave_v<R: AsyncRead + Unpin>(cfg: &str, src: R) -> Result<(char, String), String> {
    let mut cs = cfg.chars();
    let (oc, of) = (cs.next().unwrap_or('-'), cs.next().unwrap_or('-'));
    let mut b = variant::r#async::io::reader::Builder::default();
    if let Some(c) = vcomp(oc) {
        b = b.set_compression_method(c);
    }
    if let Some(f) = vfmt(of) {
        b = b.set_format(f);
    }
    let mut r = b.build_from_reader(src).await.map_err(|e| nv::errkind(&e))?;
    let h = r.read_header().await;
    let hs = res_str(&h, |h| format!("{:?}", crate::variant::canon_header(h).map(|b| hex(&b))));
    let mut r1 = variant::Record::Vcf(noodles_vcf::Record::default());
    let mut r2 = variant::Record::Bcf(noodles_bcf::Record::default());
    let hdr_failed = h.is_err();
    if of != '-' && hdr_failed {
        return Ok((if of == 'v' { 'v' } else { 'b' }, hs));
    }
    let a = r.read_record(&mut r1).await;
    let b2 = r.read_record(&mut r2).await;
    let v = |r: &variant::Record| match r {
        variant::Record::Vcf(_) => 'v',
        variant::Record::Bcf(_) => 'b',
    };
    let f = if v(&r1) == v(&r2) { v(&r1) } else { '!' };
    if hdr_failed {
        return Ok((f, hs));
    }
    Ok((f, format!("{hs} {} {}", res_str(&a, |n| n.to_string()), res_str(&b2, |n| n.to_string()))))
}

fn g<T>(f: impl FnOnce() -> T) -> Option<T> {
    match guarded(std::panic::AssertUnwindSafe(f)) {
        Outcome::Done(v) => Some(v),
        Outcome::Panicked(_) => None,
    }
}

/// the canonical observation of the async alignment builder
pub fn observe_a(cfg: &str, data: &[u8], sched: &str) -> String {
    let (cfg1, d1, sc) = (cfg.to_string(), data.to_vec(), parse_sched(sched));
    let auto = g(move || block_on(async move { behave_a(&cfg1, AdvReader::new(d1, sc)).await }));
    let beh = match auto {
        None => return "Panic".into(),
        Some(Err(k)) => return format!("Err:{k}"),
        Some(Ok(b)) => b,
    };
    let mut m: Vec<(char, char)> = Vec::new();
    for (f, k) in [('s', 'n'), ('s', 'b'), ('b', 'n'), ('b', 'b'), ('c', 'n')] {
        let (cfg2, d2) = (format!("{k}{f}"), data.to_vec());
        let e = g(move || block_on(async move { behave_a(&cfg2, &d2[..]).await }));
        if matches!(&e, Some(Ok(b)) if *b == beh) {
            m.push((f, k));
        }
    }
    match m.as_slice() {
        [] => "Ok:!:!".into(),
        [(f, k)] => format!("Ok:{f}:{k}"),
        l if l.iter().all(|(f, _)| *f == l[0].0) => format!("Ok:{}:~", l[0].0),
        _ => "Ok:~:~".into(),
    }
}

pub fn observe_v(cfg: &str, data: &[u8], sched: &str) -> String {
    let (cfg1, d1, sc) = (cfg.to_string(), data.to_vec(), parse_sched(sched));
    let auto = g(move || block_on(async move { behave_v(&cfg1, AdvReader::new(d1, sc)).await }));
    let (f, beh) = match auto {
        None => return "Panic".into(),
        Some(Err(k)) => return format!("Err:{k}"),
        Some(Ok(b)) => b,
    };
    let run = |k: char| {
        let (cfg2, d2) = (format!("{k}{f}"), data.to_vec());
        g(move || block_on(async move { behave_v(&cfg2, &d2[..]).await }))
    };
    let (bn, bb) = (run('n'), run('b'));
    let same = |x: &Option<Result<(char, String), String>>| matches!(x, Some(Ok((_, s))) if *s == beh);
    let k = if bn == bb {
        '~'
    } else if same(&bn) {
        'n'
    } else if same(&bb) {
        'b'
    } else {
        '!'
    };
    format!("Ok:{f}:{k}")
}

fn blur(kind: &str, mut obs: String) -> String {
    if !obs.starts_with("Ok:") {
        return obs;
    }
    if kind.ends_with('x') {
        obs = "Ok:~:~".into();
    } else if kind.ends_with('f') {
        if let Some(p) = obs.rfind(':') {
            obs.truncate(p);
            obs.push_str(":~");
        }
    }
    obs
}

fn run_adw(c: &Case) -> Obs {
    let variantside = c.kind.starts_with("adwv");
    let (cfg, data, sched) = (c.args[0].clone(), c.b(1), c.args[2].clone());
    let raw = if variantside { observe_v(&cfg, &data, &sched) } else { observe_a(&cfg, &data, &sched) };
    let obs = blur(&c.kind, raw);
    let (avail, stop) = gz_oracle(&data[..data.len().min(DETECTION_WINDOW_SIZE)], 8);
    if hex(&avail) != c.args[5] || stop != c.args[6] {
        return Obs::fail(obs, "harness-gz-oracle-drift", "window oracle differs from the case");
    }
    Obs::ok(obs, !data.is_empty() && c.kind.len() == if variantside { 4 } else { 3 })
}

fn push_adw(w: &mut CaseWriter, rng: &mut Rng, variantside: bool, cfg: &str, data: &[u8], sched: &str) {
    let obs = if variantside { observe_v(cfg, data, sched) } else { observe_a(cfg, data, sched) };
    let suffix = if !obs.starts_with("Ok:") {
        ""
    } else if obs == "Ok:~:~" {
        "x"
    } else if obs.ends_with(":~") {
        "f"
    } else {
        ""
    };
    let kind = format!("{}{suffix}", if variantside { "adwv" } else { "adw" });
    let (avail, stop) = gz_oracle(&data[..data.len().min(DETECTION_WINDOW_SIZE)], 8);
    let codes = codes_of(sched, steps_for(sched, data.len()));
    let chunk = *rng.pick(&[1u64, 7, 32, 64, 1000, 8192, 20000]);
    w.push(&kind, vec![cfg.into(), hex(data), sched.into(), codes, chunk.to_string(), hex(&avail), stop]);
}

pub fn generate(rng: &mut Rng, tier: &str, w: &mut CaseWriter) {
    let thorough = tier == "thorough";
    let mut streams: Vec<(Vec<u8>, bool)> = vec![
        (vec![], false),
        (b"B".to_vec(), false),
        (b"BAM\x01\x00\x00\x00\x00\x00\x00\x00\x00".to_vec(), false),
        (b"CRAM1\t4\t*\t0\t255\t*\t*\t0\t0\tA\tI\n".to_vec(), false),
        (b"\x1f\x8b".to_vec(), false),
        (b"BC".to_vec(), true),
        (b"BCF\x02\x02\x00\x00\x00\x00".to_vec(), true),
    ];
    for code in crate::align::FMTS {
        streams.push((crate::dispatch::data_bytes(code, false).expect("data"), false));
    }
    for code in crate::variant::FMTS {
        streams.push((crate::dispatch::data_bytes(code, true).expect("data"), true));
    }
    // files with records, written by the generic writers
    for i in 0..(if thorough { 4 } else { 1 }) {
        for code in crate::align::FMTS {
            let spec = crate::align::gen_spec(rng.next(), 2 + i, 1 + (i as u64) % 3, 0);
            if let Ok((h, recs)) = crate::align::parse_spec(&spec.text()) {
                let rr: Vec<&dyn noodles_sam::alignment::Record> = recs.iter().map(|r| r as &dyn noodles_sam::alignment::Record).collect();
                let (h2, code2, repo2) = (h.clone(), code.to_string(), spec.repository());
                if let Outcome::Done(Ok(bytes)) = guarded(std::panic::AssertUnwindSafe(|| crate::align::write_generic(&code2, &h2, &rr, repo2))) {
                    if code != "cram" {
                        streams.push((bytes, false));
                    }
                }
            }
        }
        for code in crate::variant::FMTS {
            let spec = crate::variant::gen_spec(rng.next(), 2 + i, (i as u64) % 3);
            if let Ok((h, recs)) = crate::variant::parse_spec(&spec.text()) {
                let rr: Vec<&dyn noodles_vcf::variant::Record> = recs.iter().map(|r| r as &dyn noodles_vcf::variant::Record).collect();
                if let Outcome::Done(Ok(bytes)) = guarded(std::panic::AssertUnwindSafe(|| crate::variant::write_generic(code, &h, &rr))) {
                    streams.push((bytes, true));
                }
            }
        }
    }
    // a SAM longer than the window
    let mut long = b"@HD\tVN:1.6\n@SQ\tSN:sq0\tLN:100\n".to_vec();
    while long.len() < 9000 {
        long.extend_from_slice(format!("r{}\t4\t*\t0\t255\t*\t*\t0\t0\tACGT\tIIII\n", long.len()).as_bytes());
    }
    streams.push((long.clone(), false));
    for (s, vs) in &streams {
        let all = scheds(rng, s.len(), thorough);
        let pick: Vec<&String> = if thorough || s.len() <= 40 { all.iter().collect() } else { all.iter().filter(|_| rng.chance(1, 2)).collect() };
        for sc in pick {
            push_adw(w, rng, *vs, "--", s, sc);
            if thorough && rng.chance(1, 4) {
                push_adw(w, rng, !*vs, "--", s, sc);
            }
            let codes = codes_of(sc, steps_for(sc, s.len()));
            let chunk = *rng.pick(&[1u64, 32, 8192]);
            w.push("aw", vec![sc.clone(), hex(s), codes, chunk.to_string()]);
        }
    }
    // windows: random data of lengths around the window size
    for _ in 0..(if thorough { 60 } else { 8 }) {
        let len = *rng.pick(&[0u64, 1, 3, 40, 8191, 8192, 8193, 20000]) as usize;
        let data = rng.bytes(len);
        let all = scheds(rng, len, thorough);
        let sc = rng.pick(&all).clone();
        let codes = codes_of(&sc, steps_for(&sc, len));
        w.push("aw", vec![sc, hex(&data), codes, rng.pick(&[1u64, 5, 32, 4096, 8192, 10000]).to_string()]);
    }
    // overrides (with both set nothing is read ahead)
    let bam = streams[7 + 2].0.clone();
    let bcf = streams[7 + crate::align::FMTS.len() + 2].0.clone();
    for sc in ["6:0:1", "7:0:1.1"] {
        for cfg in ["bb", "n-", "-b", "bs", "-c", "bc"] {
            push_adw(w, rng, false, cfg, &bam, sc);
        }
        for cfg in ["bb", "n-", "-v", "nv"] {
            push_adw(w, rng, true, cfg, &bcf, sc);
        }
    }
}

pub fn run(c: &Case) -> Obs {
    match c.kind.as_str() {
        "aw" => run_aw(c),
        _ => run_adw(c),
    }
}
