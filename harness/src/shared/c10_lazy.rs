//! C10 `lz`: the LAZY read path (bcf::io::Reader::read_record into a bcf::Record, then every
//! accessor forced by RecordBuf::try_from_variant_record) against the Coq model
//! NV.Bcf.Lazy.lazy_read, and against the eager read_record_buf on the same bytes.
//!   lz ver infodefs filters fmtdefs contigs ns hex
//!      ver               = the header's file format (4.2 .. 4.5)
//!      infodefs/fmtdefs  = id/num/ty/idx,...  (num = count|A|R|G|.; ty = I F B C S; idx = n or -), `-` = none
//!      filters/contigs   = id/idx,...
//!      ns                = number of sample names of the header
//!      hex               = the bytes of one BCF record (l_shared, l_indiv, site block, samples block),
//!                          as the real writer wrote it, or mutated
//!   obs = every field of the RecordBuf the lazy path builds (the text format of `hxr`), `Fail`
//!         (an error, or no record), `Panic`
//! Oracle: never a panic; whenever the eager read_record_buf succeeds on the same bytes, the lazy path
//! succeeds with the same content (a vector that is one missing entry = the missing value; before
//! VCF 4.4 the first allele's phasing is not part of the content).  Failures are tagged by the input
//! class, found by an independent walk over the record bytes.  The seven classes of `input_class`
//! (lazy-empty-allele, lazy-samples-block-trailing-bytes, lazy-gt-zero-length,
//! lazy-array-percent-escape, lazy-char-array-piece-not-one-char, lazy-string-array-empty,
//! lazy-info-character-multibyte) were real differences and are repaired in /repo (0b0f2ab, 0ba8d0b,
//! a1ba5e6, e4c926c, a82186d); the tags stay so that a recurrence is reported under its name, as a
//! new failure.
use super::*;

fn ty_letter(t: Ty) -> &'static str {
    match t { Ty::Int => "I", Ty::Float => "F", Ty::Flag => "B", Ty::Char => "C", Ty::Str => "S" }
}

fn idx_s(i: &Option<usize>) -> String {
    i.map(|i| i.to_string()).unwrap_or("-".into())
}

fn defs_str(ds: &[Def]) -> String {
    if ds.is_empty() {
        return "-".into();
    }
    ds.iter().map(|d| format!("{}/{}/{}/{}", d.id, num_text(d.num), ty_letter(d.ty), idx_s(&d.idx))).collect::<Vec<_>>().join(",")
}

fn pairs_str(ps: &[(String, Option<usize>)]) -> String {
    if ps.is_empty() {
        return "-".into();
    }
    ps.iter().map(|(n, i)| format!("{n}/{}", idx_s(i))).collect::<Vec<_>>().join(",")
}

fn parse_defs(s: &str) -> Vec<Def> {
    if s == "-" {
        return vec![];
    }
    s.split(',')
        .map(|d| {
            let p: Vec<&str> = d.split('/').collect();
            Def {
                id: p[0].into(),
                num: match p[1] { "A" => Num::A, "R" => Num::R, "G" => Num::G, "." => Num::Dot, n => Num::Count(n.parse().unwrap()) },
                ty: match p[2] { "I" => Ty::Int, "F" => Ty::Float, "B" => Ty::Flag, "C" => Ty::Char, _ => Ty::Str },
                idx: if p[3] == "-" { None } else { Some(p[3].parse().unwrap()) },
            }
        })
        .collect()
}

fn parse_pairs(s: &str) -> Vec<(String, Option<usize>)> {
    if s == "-" {
        return vec![];
    }
    s.split(',').map(|d| { let (n, i) = d.split_once('/').unwrap(); (n.to_string(), if i == "-" { None } else { Some(i.parse().unwrap()) }) }).collect()
}

fn lz_args(h: &Hdr, rec: &[u8]) -> Vec<String> {
    vec![
        format!("{}.{}", h.ff.0, h.ff.1),
        defs_str(&h.infos),
        pairs_str(&h.filters),
        defs_str(&h.formats),
        pairs_str(&h.contigs),
        h.samples.len().to_string(),
        hex(rec),
    ]
}

fn hdr_of(c: &Case) -> Hdr {
    let (a, b) = c.args[0].split_once('.').expect("ver");
    Hdr {
        ff: (a.parse().unwrap(), b.parse().unwrap()),
        infos: parse_defs(&c.args[1]),
        filters: parse_pairs(&c.args[2]),
        formats: parse_defs(&c.args[3]),
        contigs: parse_pairs(&c.args[4]),
        samples: (0..c.args[5].parse::<usize>().unwrap()).map(|i| format!("s{i}")).collect(),
    }
}

/// the text of `hxr`
fn show(b: &RecordBuf, x: &Rec) -> String {
    let hx = |v: &Vec<String>, sep: &str| v.iter().map(|s| hex(s.as_bytes())).collect::<Vec<_>>().join(sep);
    let info: Vec<String> = x.info.iter().map(|(k, v)| format!("{k}={}", canon_v(v))).collect();
    let rows: Vec<String> = x.samples.iter().map(|r| r.iter().map(canon_v).collect::<Vec<_>>().join(":")).collect();
    format!(
        "{}|{}|{}|{}|{}|{}|{}||{}||{}||{}",
        x.chrom,
        if b.variant_start().is_none() { ".".to_string() } else { x.pos.to_string() },
        opt(&x.qual, |q| format!("{q:08x}")),
        hx(&x.ids, ";"),
        hex(x.refb.as_bytes()),
        hx(&x.alts, ","),
        x.filters.join(";"),
        info.join("|"),
        x.keys.join(","),
        rows.join(";")
    )
}

/// what the comparison with the eager read ignores: before VCF 4.4 the first allele's phasing is
/// derived from the others (it is not in the text)
fn norm(v44: bool, mut r: Rec) -> Rec {
    if !v44 {
        for v in r.samples.iter_mut().flatten() {
            if let Some(V::GT(g)) = v {
                if !g.is_empty() {
                    g[0].1 = g.iter().skip(1).all(|a| a.1);
                }
            }
        }
    }
    r
}

// ---------------------------------------------------------------------------------------------
// The input class of a record the eager reader accepts: an independent walk over the bytes.

fn rd_type(b: &[u8], p: &mut usize) -> Option<(u8, usize)> {
    let d = *b.get(*p)?;
    *p += 1;
    let mut len = (d >> 4) as usize;
    if len == 15 {
        let d2 = *b.get(*p)?;
        *p += 1;
        let w = match d2 { 0x11 => 1, 0x12 => 2, 0x13 => 4, _ => return None };
        let raw = b.get(*p..*p + w)?;
        *p += w;
        let mut v: u64 = 0;
        for (i, x) in raw.iter().enumerate() {
            v |= (*x as u64) << (8 * i);
        }
        len = v as usize;
    }
    Some((d & 0x0f, len))
}

fn rd_index(b: &[u8], p: &mut usize) -> Option<usize> {
    let (code, len) = rd_type(b, p)?;
    let w = match code { 1 => 1, 2 => 2, 3 => 4, _ => return None };
    if len != 1 {
        return None;
    }
    let raw = b.get(*p..*p + w)?;
    *p += w;
    let mut v: usize = 0;
    for (i, x) in raw.iter().enumerate() {
        v |= (*x as usize) << (8 * i);
    }
    Some(v)
}

fn size_of_code(code: u8) -> usize {
    match code { 1 | 7 => 1, 2 => 2, 3 | 5 => 4, _ => 0 }
}

fn has_escape(s: &[u8]) -> bool {
    s.windows(3).any(|w| w[0] == b'%' && w[1].is_ascii_hexdigit() && w[2].is_ascii_hexdigit())
}

fn piece_class(s: &[u8], chars: bool) -> Option<&'static str> {
    if s.is_empty() {
        return Some("lazy-string-array-empty");
    }
    for p in s.split(|&b| b == b',') {
        if has_escape(p) {
            return Some("lazy-array-percent-escape");
        }
        if chars && std::str::from_utf8(p).map(|t| t.chars().count() != 1).unwrap_or(true) {
            return Some("lazy-char-array-piece-not-one-char");
        }
    }
    None
}

fn input_class(h: &Hdr, header: &vcf::Header, rec: &[u8]) -> Option<&'static str> {
    let l_shared = u32::from_le_bytes(rec.get(0..4)?.try_into().ok()?) as usize;
    let l_indiv = u32::from_le_bytes(rec.get(4..8)?.try_into().ok()?) as usize;
    let site = rec.get(8..8 + l_shared)?;
    let indiv = rec.get(8 + l_shared..8 + l_shared + l_indiv)?;
    let n_info = u16::from_le_bytes(site.get(16..18)?.try_into().ok()?) as usize;
    let n_allele = u16::from_le_bytes(site.get(18..20)?.try_into().ok()?) as usize;
    let ns = u32::from_le_bytes([site[20], site[21], site[22], 0]) as usize;
    let n_fmt = site[23] as usize;
    let mut p = 24;
    let (_, l) = rd_type(site, &mut p)?;
    p += l;
    for _ in 0..n_allele {
        let (code, l) = rd_type(site, &mut p)?;
        if code == 7 && l == 0 {
            return Some("lazy-empty-allele");
        }
        p += l;
    }
    let (code, l) = rd_type(site, &mut p)?;
    p += l * size_of_code(code);
    let strings = header.string_maps().strings();
    for _ in 0..n_info {
        let i = rd_index(site, &mut p)?;
        let key = strings.get_index(i)?;
        let d = h.infos.iter().find(|d| d.id == key)?;
        let (code, l) = rd_type(site, &mut p)?;
        let pay = site.get(p..p + l * size_of_code(code))?;
        p += pay.len();
        if code == 7 && l > 0 {
            match (d.ty, d.num == Num::Count(1)) {
                (Ty::Char, true) if l != 1 => return Some("lazy-info-character-multibyte"),
                (Ty::Char, false) => if let Some(c) = piece_class(pay, true) { return Some(c) },
                (Ty::Str, false) => if let Some(c) = piece_class(pay, false) { return Some(c) },
                _ => {}
            }
        }
    }
    let mut q = 0;
    for _ in 0..n_fmt {
        let i = rd_index(indiv, &mut q)?;
        let key = strings.get_index(i)?;
        let (code, l) = rd_type(indiv, &mut q)?;
        let pay = indiv.get(q..q + ns * l * size_of_code(code))?;
        q += pay.len();
        if key == "GT" {
            if l == 0 && ns > 0 {
                return Some("lazy-gt-zero-length");
            }
            continue;
        }
        let d = h.formats.iter().find(|d| d.id == key)?;
        if code == 7 && d.num != Num::Count(1) && matches!(d.ty, Ty::Char | Ty::Str) {
            for s in 0..ns {
                let cell = &pay[s * l..(s + 1) * l];
                let cell = match cell.iter().position(|&b| b == 0) { Some(k) => &cell[..k], None => cell };
                if let Some(c) = piece_class(cell, d.ty == Ty::Char) {
                    return Some(c);
                }
            }
        }
    }
    if q < indiv.len() {
        return Some("lazy-samples-block-trailing-bytes");
    }
    None
}

// ---------------------------------------------------------------------------------------------

pub fn run_lz(c: &Case) -> Obs {
    let h = hdr_of(c);
    let v44 = h.ff >= (4, 4);
    let rec = unhex(&c.args[6]);
    let header = parse_header(&header_text(&h)).expect("lz header");
    let mut w = bcf::io::Writer::from(Vec::new());
    w.write_header(&header).expect("lz write_header");
    let mut stream = w.into_inner();
    stream.extend(&rec);

    let lazy = guarded(AssertUnwindSafe(|| -> std::io::Result<Option<RecordBuf>> {
        let mut r = bcf::io::Reader::from(&stream[..]);
        let hh = r.read_header()?;
        let mut record = bcf::Record::default();
        if r.read_record(&mut record)? == 0 {
            return Ok(None);
        }
        RecordBuf::try_from_variant_record(&hh, &record).map(Some)
    }));
    let eager = guarded(AssertUnwindSafe(|| -> std::io::Result<Option<RecordBuf>> {
        let mut r = bcf::io::Reader::from(&stream[..]);
        let hh = r.read_header()?;
        let mut rb = RecordBuf::default();
        Ok(if r.read_record_buf(&hh, &mut rb)? == 0 { None } else { Some(rb) })
    }));

    let (obs, lazy_rec, lazy_err) = match &lazy {
        Outcome::Panicked(m) => ("Panic".to_string(), None, Some(format!("Panic {m}"))),
        Outcome::Done(Err(e)) => ("Fail".to_string(), None, Some(format!("Err {}", e.to_string().replace(['\t', '\n'], " ")))),
        Outcome::Done(Ok(None)) => ("Fail".to_string(), None, Some("no record".to_string())),
        Outcome::Done(Ok(Some(b))) => {
            let x = of_buf(b);
            (show(b, &x), Some((b, x)), None)
        }
    };
    if let Outcome::Panicked(m) = &lazy {
        return Obs::ok(obs, true).with_verdict(Err(("lazy-accessor-panic".to_string(), m.clone())));
    }
    let eb = match &eager {
        Outcome::Done(Ok(Some(b))) => b,
        // the premise of the property does not hold (eager panics are the business of `hxr`)
        _ => return Obs::ok(obs, false),
    };
    // the comparison is that of the `rec` kind: canonical text, a sample row shorter than the key
    // list has trailing missing values
    // every value of every row too (a row may hold more values than there are distinct keys), up to
    // trailing missing values
    let full = |r: &Rec| -> Vec<(String, String)> {
        let mut c = canon(r);
        for (i, row) in r.samples.iter().enumerate() {
            let mut vs: Vec<String> = row.iter().map(canon_v).collect();
            while vs.last().map(|v| v == ".").unwrap_or(false) {
                vs.pop();
            }
            c.push((format!("row{i}"), vs.join(":")));
        }
        c
    };
    let want = full(&norm(v44, of_buf(eb)));
    let got = match lazy_rec {
        Some((_, x)) => Ok(full(&norm(v44, x))),
        None => Err(lazy_err.unwrap_or_default()),
    };
    let diff = match &got {
        Ok(g) => first_diff(g, &want).map(|d| format!("lazy differs from eager: {d}")),
        Err(e) => Some(format!("lazy {e}; eager succeeds")),
    };
    let verdict = match diff {
        None => Ok(()),
        Some(d) => {
            // the dictionaries are those of the header as the BCF reader sees it
            let hh = guarded(AssertUnwindSafe(|| bcf::io::Reader::from(&stream[..]).read_header()));
            let class = match hh {
                Outcome::Done(Ok(hh)) => input_class(&h, &hh, &rec),
                _ => None,
            }
            .unwrap_or("lazy-eager-differ-unclassified");
            Err((class.to_string(), format!("{d} || header={} || rec={}", header_text(&h).replace('\n', "\\n"), hex(&rec))))
        }
    };
    Obs::ok(obs, true).with_verdict(verdict)
}

// ---------------------------------------------------------------------------------------------
// Generation: real records, and such records mutated.

fn site_len(rec: &[u8]) -> usize {
    u32::from_le_bytes(rec[0..4].try_into().unwrap()) as usize
}

fn set_len(rec: &mut [u8], at: usize, v: i64) {
    rec[at..at + 4].copy_from_slice(&(v.max(0) as u32).to_le_bytes());
}

/// typed length `n` as an overflow descriptor of the given type code
fn overflow_desc(code: u8, n: u32) -> Vec<u8> {
    let mut v = vec![0xf0 | code];
    if n <= 127 {
        v.extend([0x11, n as u8]);
    } else if n <= 32767 {
        v.push(0x12);
        v.extend((n as u16).to_le_bytes());
    } else {
        v.push(0x13);
        v.extend(n.to_le_bytes());
    }
    v
}

fn mutate(rng: &mut Rng, rec: &mut Vec<u8>) {
    let l_shared = site_len(rec);
    let mut site_delta: i64 = 0;
    let mut indiv_delta: i64 = 0;
    // (a) the byte-level mutations of `hxr`
    let nmut = rng.below(4);
    for _ in 0..nmut {
        if rec.len() <= 9 { break; }
        let i = rng.range(8, rec.len() as u64 - 1) as usize;
        let in_site = i < 8 + l_shared;
        let val = match rng.below(3) {
            0 => rng.next() as u8,
            _ => *rng.pick(&[0x00u8, 0x01, 0x07, 0x11, 0x12, 0x17, 0x21, 0x7f, 0x80, 0x81, 0x82, 0xf1, 0xf7, 0xff, b';', b',', b'.', b'%']),
        };
        match rng.below(6) {
            0 => { rec.remove(i); if in_site { site_delta -= 1 } else { indiv_delta -= 1 } }
            1 => { rec.insert(i, val); if in_site { site_delta += 1 } else { indiv_delta += 1 } }
            2 => { let cut = rec.len() - rng.range(1, 4).min(rec.len() as u64 - 9) as usize; indiv_delta -= (rec.len() - cut) as i64; rec.truncate(cut); }
            _ => rec[i] = val,
        }
    }
    // (b) mutations aimed at the lazy index and the lazy views
    let naim = if nmut == 0 { rng.range(1, 2) } else { rng.below(2) };
    for _ in 0..naim {
        if rec.len() < 8 + 24 { break; }
        let site_end = ((8 + l_shared) as i64 + site_delta).clamp(32, rec.len() as i64) as usize;
        match rng.below(12) {
            // the counts of the fixed part
            0 => { let d = *rng.pick(&[0u16, 1, 2, 3, 0xffff]); let k = if rng.chance(1, 2) { let c = u16::from_le_bytes([rec[24], rec[25]]); c.wrapping_add(d).wrapping_sub(1) } else { d }; rec[24..26].copy_from_slice(&k.to_le_bytes()); }
            1 => { let c = u16::from_le_bytes([rec[26], rec[27]]); let k = match rng.below(4) { 0 => 0, 1 => c.wrapping_add(1), 2 => c.wrapping_sub(1), _ => rng.range(0, 4) as u16 }; rec[26..28].copy_from_slice(&k.to_le_bytes()); }
            2 => { let c = rec[28]; rec[28] = match rng.below(4) { 0 => 0, 1 => c.wrapping_add(1), 2 => c.wrapping_sub(1), _ => rng.range(0, 5) as u8 }; }
            3 => { let c = rec[31]; rec[31] = match rng.below(4) { 0 => 0, 1 => c.wrapping_add(1), 2 => c.wrapping_sub(1), _ => rng.range(0, 4) as u8 }; }
            // a descriptor byte becomes an overflow-length descriptor (well-formed or not)
            4 => {
                let i = rng.range(32, rec.len() as u64 - 1) as usize;
                let code = rec[i] & 0x0f;
                let n = match rng.below(5) { 0 => (rec[i] >> 4) as u32, 1 => 15, 2 => 200, 3 => 0x7fff_ffff, _ => rng.range(0, 40) as u32 };
                let mut d = overflow_desc(code, n);
                if rng.chance(1, 5) { d[1] = *rng.pick(&[0xf1u8, 0x15, 0x17, 0x01, 0x21]); }
                let delta = d.len() as i64 - 1;
                rec.splice(i..i + 1, d);
                if i < site_end { site_delta += delta } else { indiv_delta += delta }
            }
            // a truncated block
            5 => {
                if rng.chance(1, 2) && site_end > 33 {
                    let cut = rng.range(1, 6).min((site_end - 33) as u64) as usize;
                    rec.drain(site_end - cut..site_end);
                    site_delta -= cut as i64;
                } else if rec.len() > site_end {
                    let cut = rng.range(1, 6).min((rec.len() - site_end) as u64) as usize;
                    rec.truncate(rec.len() - cut);
                    indiv_delta -= cut as i64;
                }
            }
            // bytes after the last series / after the last INFO field
            6 => {
                let extra: Vec<u8> = match rng.below(3) { 0 => vec![0x00], 1 => vec![0x11, 0x01, 0x11, 0x05], _ => { let k = rng.range(1, 5) as usize; rng.bytes(k) } };
                if rng.chance(2, 3) {
                    indiv_delta += extra.len() as i64;
                    rec.extend(extra);
                } else {
                    site_delta += extra.len() as i64;
                    let at = site_end.min(rec.len());
                    rec.splice(at..at, extra);
                }
            }
            // an empty typed string where a one-byte string stands (alleles, values)
            7 => {
                let cands: Vec<usize> = (32..rec.len().saturating_sub(1)).filter(|&i| rec[i] == 0x17).collect();
                if !cands.is_empty() {
                    let i = *rng.pick(&cands);
                    rec[i] = 0x07;
                    rec.remove(i + 1);
                    if i < site_end { site_delta -= 1 } else { indiv_delta -= 1 }
                }
            }
            // a percent escape / a second character inside text
            8 => {
                let cands: Vec<usize> = (32..rec.len().saturating_sub(3)).filter(|&i| rec[i..i + 3].iter().all(|b| b.is_ascii_alphanumeric())).collect();
                if !cands.is_empty() {
                    let i = *rng.pick(&cands);
                    rec[i..i + 3].copy_from_slice(*rng.pick(&[b"%41", b"%2C", b"%ff", b"%4g", b"a%2"]));
                }
            }
            9 => {
                let cands: Vec<usize> = (32..rec.len()).filter(|&i| rec[i] == b',').collect();
                if !cands.is_empty() {
                    let i = *rng.pick(&cands);
                    rec[i] = *rng.pick(&[b'x', b'.', 0x00, b'%']);
                }
            }
            // a GT-like zero length / one-byte descriptor
            10 => {
                if rec.len() > site_end + 2 {
                    let i = site_end + 2;
                    rec[i] = *rng.pick(&[0x01u8, 0x11, 0x21, 0x02, 0x07]);
                }
            }
            // multi-byte text
            _ => {
                let cands: Vec<usize> = (32..rec.len().saturating_sub(2)).filter(|&i| rec[i..i + 2].iter().all(|b| b.is_ascii_alphanumeric())).collect();
                if !cands.is_empty() {
                    let i = *rng.pick(&cands);
                    rec[i..i + 2].copy_from_slice(&[0xc3, 0xa9]);
                }
            }
        }
    }
    // re-fix the two lengths (so that the mutation reaches the field decoders) or leave them
    if rng.chance(3, 4) {
        let ls = l_shared as i64 + site_delta;
        let li = u32::from_le_bytes(rec[4..8].try_into().unwrap()) as i64 + indiv_delta;
        set_len(rec, 0, ls);
        set_len(rec, 4, li);
    }
    // n_sample stays below 256: the lazy path builds one row per sample whatever the header says
    if rec.len() >= 31 {
        rec[29] = 0;
        rec[30] = 0;
    }
}

pub fn gen_lz(rng: &mut Rng, tier: &str, w: &mut CaseWriter) {
    let thorough = tier == "thorough";
    let n_clean = if thorough { 6000 } else { 350 };
    let n_hostile = if thorough { 22000 } else { 1000 };
    let profiles = ["clean", "clean", "clean", "infomissing", "gtwild", "fmtallmissing", "special", "idxperm"];
    let mut made = 0;
    let mut tries = 0;
    while made < n_clean + n_hostile && tries < 4 * (n_clean + n_hostile) {
        tries += 1;
        let profile = *rng.pick(&profiles);
        let h = gen_header(rng, profile == "idxperm");
        let r = gen_record(rng, &h, profile);
        let header = match parse_header(&header_text(&h)) { Ok(x) => x, Err(_) => continue };
        let (stream, hlen) = match write_bcf(&header, &to_buf(&r)) { WriteRes::Ok { stream, hlen } => (stream, hlen), _ => continue };
        let mut rec: Vec<u8> = stream[hlen..].to_vec();
        if rec.len() < 8 + 24 { continue; }
        if made >= n_clean {
            mutate(rng, &mut rec);
        }
        w.push("lz", lz_args(&h, &rec));
        made += 1;
    }
}
