// C06 deepening round 4: the lazy optional fields (Data::iter, the per-type lazy value parsers,
// the lazily parsed arrays), RecordBuf::try_from_alignment_record of a lazy sam::Record, and the
// bridge between the C06 and C05 record models (RecordBuf -> BAM block).
//
//   lzc refs ptab ftab hexline -> "<iter> | <conv>"
//        <iter> = Eof | ReadErr | Panic | Err:<io::ErrorKind> (Data::iter().collect::<io::Result<_>>) |
//                 `_` | tag:value;... (arrays: elements up to the first bad one, shown as `!`)
//        <conv> = Eof | ReadErr | Err | Panic | dump of RecordBuf::try_from_alignment_record
//   tb  nref <record fields...>  -> hex of the block bam::io::Writer::write_alignment_record emits | Err:<kind>
//        (model: Bam.Encode.encode nref (to_bam_d r))

use sam::alignment::record::data::field::{Value as LValue, value::Array as LArray};

const LZC_PREFIX: &[u8] = b"*\t4\t*\t0\t255\t*\t*\t0\t0\t*\t*\t";

fn lazy_record_of(line: &[u8]) -> Option<sam::Record> {
    let line = line.to_vec();
    match guarded(move || {
        let mut rd = sam::io::Reader::new(&line[..]);
        let mut rec = sam::Record::default();
        rd.read_record(&mut rec).map(|n| (n, rec))
    }) {
        Outcome::Done(Ok((n, r))) if n > 0 => Some(r),
        _ => None,
    }
}

/// lexical_core::parse::<f32>(tok), reached through a lazy `B:f` array with the one element `tok`
fn float_full(tok: &[u8]) -> Option<u32> {
    if tok.is_empty() || tok.iter().any(|b| matches!(*b, b'\t' | b'\n' | b',')) {
        return None;
    }
    let mut line = LZC_PREFIX.to_vec();
    line.extend_from_slice(b"XX:B:f,");
    line.extend_from_slice(tok);
    let rec = lazy_record_of(&line)?;
    match guarded(std::panic::AssertUnwindSafe(|| -> Option<u32> {
        let data = rec.data();
        let (_, v) = data.iter().next()?.ok()?;
        match v {
            LValue::Array(LArray::Float(vs)) => {
                let mut it = vs.iter();
                let x = it.next()?.ok()?;
                if it.next().is_some() { None } else { Some(x.to_bits()) }
            }
            _ => None,
        }
    })) {
        Outcome::Done(o) => o,
        Outcome::Panicked(_) => None,
    }
}

/// lexical_core::parse_partial::<f32>(tok ++ ...) = (x, len tok), reached through a lazy scalar `f`
fn float_scalar(tok: &[u8]) -> Option<u32> {
    if tok.iter().any(|b| matches!(*b, b'\t' | b'\n')) {
        return None;
    }
    let mut line = LZC_PREFIX.to_vec();
    line.extend_from_slice(b"XX:f:");
    line.extend_from_slice(tok);
    let rec = lazy_record_of(&line)?;
    match guarded(std::panic::AssertUnwindSafe(|| -> Option<u32> {
        let data = rec.data();
        match data.iter().next()?.ok()? {
            (_, LValue::Float(x)) => Some(x.to_bits()),
            _ => None,
        }
    })) {
        Outcome::Done(o) => o,
        Outcome::Panicked(_) => None,
    }
}

/// the optional-field text of a line as read_record keeps it (after the 11th TAB, line end stripped)
fn data_text(line: &[u8]) -> Vec<u8> {
    let l = match line.iter().position(|b| *b == b'\n') {
        Some(i) => {
            let l = &line[..i];
            if l.last() == Some(&b'\r') { &l[..l.len() - 1] } else { l }
        }
        None => line,
    };
    let mut tabs = 0;
    for (i, b) in l.iter().enumerate() {
        if *b == b'\t' {
            tabs += 1;
            if tabs == 11 {
                return l[i + 1..].to_vec();
            }
        }
    }
    Vec::new()
}

/// oracle tables for the model: (scalar tokens, array-element tokens) -> bit pattern
fn lzc_tables(line: &[u8]) -> (String, String, Vec<Vec<u8>>) {
    let data = data_text(line);
    let mut pt: Vec<String> = Vec::new();
    let mut ft: Vec<String> = Vec::new();
    let mut toks: Vec<Vec<u8>> = Vec::new();
    // a field starts wherever the previous one ended, and a tag is ANY two bytes (a TAB included),
    // so the value text is located by its `:f:` / `:B:f` marker, not by TAB-separated chunks
    let upto_tab = |from: usize| -> &[u8] {
        let end = data[from..].iter().position(|b| *b == b'\t').map(|k| from + k).unwrap_or(data.len());
        &data[from..end]
    };
    for i in 0..data.len() {
        if i >= 1 && i + 1 < data.len() && data[i - 1] == b':' && data[i] == b'f' && data[i + 1] == b':' {
            let tok = upto_tab(i + 2);
            if let Some(b) = float_scalar(tok) {
                let e = format!("{}:{b}", hex(tok));
                if !pt.contains(&e) {
                    pt.push(e);
                }
            }
            toks.push(tok.to_vec());
        }
        if i >= 1 && i + 2 < data.len() && data[i - 1] == b':' && data[i] == b'B' && data[i + 1] == b':' && data[i + 2] == b'f' {
            let from = (i + 4).min(data.len());
            for tok in upto_tab(from).split(|b| *b == b',') {
                if let Some(b) = float_full(tok) {
                    let e = format!("{}:{b}", hex(tok));
                    if !ft.contains(&e) {
                        ft.push(e);
                    }
                }
                toks.push(tok.to_vec());
            }
        }
    }
    let j = |v: Vec<String>| if v.is_empty() { "_".to_string() } else { v.join(",") };
    (j(pt), j(ft), toks)
}

fn show_lazy_value(v: &LValue<'_>) -> String {
    fn arr<T: std::fmt::Display>(sub: char, it: Box<dyn Iterator<Item = io::Result<T>> + '_>) -> String {
        let mut s = format!("B:{sub}");
        for x in it {
            match x {
                Ok(x) => {
                    s.push(',');
                    s.push_str(&x.to_string());
                }
                Err(_) => {
                    s.push_str(",!");
                    break;
                }
            }
        }
        s
    }
    match v {
        LValue::Character(c) => format!("A:{c}"),
        LValue::Int8(n) => format!("c:{n}"),
        LValue::UInt8(n) => format!("C:{n}"),
        LValue::Int16(n) => format!("s:{n}"),
        LValue::UInt16(n) => format!("S:{n}"),
        LValue::Int32(n) => format!("i:{n}"),
        LValue::UInt32(n) => format!("I:{n}"),
        LValue::Float(x) => format!("f:{}", x.to_bits()),
        LValue::String(s) => format!("Z:{}", hex(s)),
        LValue::Hex(s) => format!("H:{}", hex(s)),
        LValue::Array(a) => match a {
            LArray::Int8(vs) => arr('c', vs.iter()),
            LArray::UInt8(vs) => arr('C', vs.iter()),
            LArray::Int16(vs) => arr('s', vs.iter()),
            LArray::UInt16(vs) => arr('S', vs.iter()),
            LArray::Int32(vs) => arr('i', vs.iter()),
            LArray::UInt32(vs) => arr('I', vs.iter()),
            LArray::Float(vs) => arr('f', Box::new(vs.iter().map(|r| r.map(|x| x.to_bits())))),
        },
    }
}

/// integer array text with an element that has no digit (`B:c,,1`, `B:c,+`): the eager parser
/// reads it as 0 (lexical parse_partial accepts an empty digit run), the lazy one rejects it
fn has_digitless_int_element(line: &[u8]) -> bool {
    data_text(line).split(|b| *b == b'\t').any(|chunk| {
        chunk.len() >= 7
            && chunk[3] == b'B'
            && b"cCsSiI".contains(&chunk[5])
            && chunk[7..].split(|b| *b == b',').any(|e| !e.iter().any(|b| b.is_ascii_digit()))
    })
}

/// POS / PNEXT text that denotes 0 without being "0" (eager: missing; lazy accessor: error)
fn has_noncanonical_zero_pos(line: &[u8]) -> bool {
    let l = line.split(|b| *b == b'\n').next().unwrap_or(&[]);
    let cols: Vec<&[u8]> = l.split(|b| *b == b'\t').collect();
    [3usize, 7].iter().any(|i| {
        cols.get(*i).is_some_and(|c| {
            *c != b"0" && {
                let d = c.strip_prefix(b"+").unwrap_or(c);
                !d.is_empty() && d.iter().all(|b| *b == b'0')
            }
        })
    })
}

fn run_lzc(c: &Case) -> Obs {
    use std::panic::AssertUnwindSafe as A;
    let refs = dec_refs(&c.args[0]);
    let line = c.b(3);
    let header = header_of_refs(&refs);
    let read = {
        let line = line.clone();
        guarded(move || {
            let mut rd = sam::io::Reader::new(&line[..]);
            let mut rec = sam::Record::default();
            rd.read_record(&mut rec).map(|n| (n, rec))
        })
    };
    let rec = match read {
        Outcome::Done(Ok((0, _))) => return Obs::ok("Eof | Eof", false),
        Outcome::Done(Ok((_, r))) => r,
        Outcome::Done(Err(_)) => return Obs::ok("ReadErr | ReadErr", false),
        Outcome::Panicked(m) => return Obs::fail("Panic | Panic", "panic-sam-read-lazy", m),
    };
    // the iterator, collected the way every consumer in noodles does (first error ends it)
    let iter_obs = match guarded(A(|| {
        let data = rec.data();
        let mut out: Vec<String> = Vec::new();
        let mut n = 0usize;
        for f in data.iter() {
            n += 1;
            if n > 100_000 {
                return Err("Hang".to_string());
            }
            match f {
                Ok((t, v)) => {
                    let b: &[u8; 2] = t.as_ref();
                    out.push(format!("{}:{}", hex(b), show_lazy_value(&v)));
                }
                Err(e) => return Err(format!("Err:{}", nv::errkind(&e))),
            }
        }
        Ok(out)
    })) {
        Outcome::Done(Ok(v)) if v.is_empty() => "_".to_string(),
        Outcome::Done(Ok(v)) => v.join(";"),
        Outcome::Done(Err(e)) => e,
        Outcome::Panicked(_) => "Panic".to_string(),
    };
    let conv = guarded(A(|| RecordBuf::try_from_alignment_record(&header, &rec)));
    let conv_obs = match &conv {
        Outcome::Done(Ok(r)) => dump_spec(&from_record_buf(r)),
        Outcome::Done(Err(_)) => "Err".to_string(),
        Outcome::Panicked(_) => "Panic".to_string(),
    };
    let obs = format!("{iter_obs} | {conv_obs}");
    if iter_obs == "Panic" || iter_obs == "Hang" || conv_obs == "Panic" {
        return Obs::fail(obs, "panic-sam-lazy-data", "the lazy optional-field parsers or the conversion panicked / did not end");
    }
    // the float oracle hypotheses that relate parse and parse_partial (premises of c06_lazy_data_eq_eager)
    let (_, _, toks) = lzc_tables(&line);
    for t in &toks {
        if t.is_empty() || t.contains(&b',') {
            continue;
        }
        let (a, b) = (float_full(t), float_scalar(t));
        if a != b {
            return Obs::fail(obs, "float-parse-partial-vs-parse", format!("{} full {a:?} partial {b:?}", hex(t)));
        }
    }
    // the property on the implementation: for a line the eager reader accepts, the conversion of the
    // lazy record equals the eager record (integer tags by value)
    let eager = {
        let line = line.clone();
        let header = header.clone();
        guarded(move || {
            let mut rd = sam::io::Reader::new(&line[..]);
            let mut r = RecordBuf::default();
            rd.read_record_buf(&header, &mut r).map(|n| (n, r))
        })
    };
    let nontrivial;
    match (eager, &conv) {
        (Outcome::Done(Ok((n, e))), Outcome::Done(Ok(l))) if n > 0 => {
            nontrivial = true;
            if let Some(f) = first_diff(&canon_sam(&from_record_buf(&e)), &canon_sam(&from_record_buf(l))) {
                return Obs::fail(obs, &format!("sam-lazy-convert-differs-{f}"), dump_spec(&from_record_buf(&e)));
            }
        }
        (Outcome::Done(Ok((n, e))), Outcome::Done(Err(err))) if n > 0 => {
            // the two known places where the lazy record is stricter than the eager parser; neither
            // is text that noodles writes
            nontrivial = false;
            if !(has_digitless_int_element(&line) || has_noncanonical_zero_pos(&line)) {
                return Obs::fail(obs, "sam-lazy-convert-rejects-eager-accepted", format!("{err} : {}", dump_spec(&from_record_buf(&e))));
            }
        }
        (Outcome::Panicked(m), _) => return Obs::fail(obs, "panic-sam-read-record", m),
        _ => nontrivial = false,
    }
    Obs::ok(obs, nontrivial)
}

fn run_tb(c: &Case) -> Obs {
    let nref: usize = c.args[0].parse().unwrap();
    let s = dec_spec(&c.args[1..]);
    let refs: Vec<Vec<u8>> = (0..nref).map(|i| format!("r{i}").into_bytes()).collect();
    let header = header_of_refs(&refs);
    let rb = to_record_buf(&s);
    match guarded(std::panic::AssertUnwindSafe(|| {
        let mut w = bam::io::Writer::from(Vec::new());
        w.write_alignment_record(&header, &rb)?;
        Ok::<_, io::Error>(w.into_inner())
    })) {
        Outcome::Done(Ok(t)) => Obs::ok(hex(&t), true),
        Outcome::Done(Err(e)) => Obs::ok(format!("Err:{}", nv::errkind(&e)), false),
        Outcome::Panicked(m) => Obs::fail("Panic", "panic-bam-write-record", m),
    }
}

fn mutate_data(rng: &mut Rng, line: &[u8]) -> Vec<u8> {
    // mutations confined to the optional fields
    let start = {
        let mut tabs = 0;
        let mut p = line.len();
        for (i, b) in line.iter().enumerate() {
            if *b == b'\t' {
                tabs += 1;
                if tabs == 11 {
                    p = i + 1;
                    break;
                }
            }
        }
        p
    };
    let mut l = line.to_vec();
    if start >= l.len() {
        return mutate_line(rng, line);
    }
    let pool: &[u8] = b"\t\t::,,,+-0019.eEAifZHBcCsSIfXx @~\r";
    let k = rng.range(1, 3);
    for _ in 0..k {
        if l.len() <= start + 1 {
            break;
        }
        let i = start + rng.below((l.len() - 1 - start) as u64) as usize;
        match rng.below(5) {
            0 => {
                l.remove(i);
            }
            1 | 2 => l.insert(i, *rng.pick(pool)),
            3 => l[i] = *rng.pick(pool),
            _ => {
                // cut the line here (keeps the LF)
                l.truncate(i);
                l.push(b'\n');
            }
        }
    }
    l
}

fn push_lzc(w: &mut CaseWriter, refs: &[Vec<u8>], line: &[u8]) {
    let (pt, ft, _) = lzc_tables(line);
    w.push("lzc", vec![enc_refs(refs), pt, ft, hex(line)]);
}

fn generate_part5(rng: &mut Rng, tier: &str, w: &mut CaseWriter) {
    let thorough = tier == "thorough";
    let (n_lzc, n_tb) = if thorough { (14000, 8000) } else { (1000, 500) };
    let refs = vec![b"chr1".to_vec(), b"chr2".to_vec()];
    let p = |d: &[u8]| {
        let mut l = LZC_PREFIX.to_vec();
        l.extend_from_slice(d);
        l
    };
    for d in [
        &b"NH:i:1\n"[..],
        &b"NH:i:1\t\n"[..],
        &b"NH:i:1\tCO:Z:a b\r\n"[..],
        &b"XA:i:+5\tXB:i:-0\tXC:i:2147483647\tXD:i:2147483648\tXE:i:4294967295\tXF:i:-2147483648\n"[..],
        &b"XA:i:4294967296\n"[..],
        &b"XA:i:-2147483649\n"[..],
        &b"XA:i:\n"[..],
        &b"XA:i:+\n"[..],
        &b"XA:i:5x\n"[..],
        &b"XA:i:007\tXA:i:8\n"[..],
        &b"XA:A:\n"[..],
        &b"XA:A:\t\tXB:i:1\n"[..],
        &b"XA:A:ab\n"[..],
        &b"XA:Z:\tXB:H:\tXC:Z:\x01\x7f\tXD:H:zz9\n"[..],
        &b"XA:B:c\tXB:B:C,\tXC:B:s,1,2\tXD:B:S,1,,2\n"[..],
        &b"XA:B:c,,1\n"[..],
        &b"XA:B:c,+,1\n"[..],
        &b"XA:B:c,1,\n"[..],
        &b"XA:B:c,128\n"[..],
        &b"XA:B:C,-1\n"[..],
        &b"XA:B:I,4294967295,4294967296\n"[..],
        &b"XA:B:c1\n"[..],
        &b"XA:B:x,1\n"[..],
        &b"XA:B:\n"[..],
        &b"XA:B\n"[..],
        &b"XA:\n"[..],
        &b"XA\n"[..],
        &b"X\n"[..],
        &b"XA_i:1\n"[..],
        &b"XA:i_1\n"[..],
        &b"XA:n:1\n"[..],
        &b"XA:f:1.5\tXB:f:-0\tXC:f:1e10\tXD:f:inf\tXE:f:NaN\tXF:f:.5\tXG:f:5.\n"[..],
        &b"XA:f:1.5x\n"[..],
        &b"XA:f:\n"[..],
        &b"XA:f:1e\n"[..],
        &b"XA:f:1,5\n"[..],
        &b"XA:B:f,1.5,-0,3e3\tXB:B:f\tXC:B:f,\n"[..],
        &b"XA:B:f,1.5,,2\n"[..],
        &b"XA:B:f,1.5x\n"[..],
        &b"XA:B:f,inf,NaN,nan,infinity\n"[..],
        &b"XA:i:1\tXA:i:2\tXB:Z:x\tXA:Z:y\n"[..],
        &b"\n"[..],
        &b"\t\n"[..],
        &b"\tXA:i:1\n"[..],
    ] {
        push_lzc(w, &refs, &p(d));
    }
    // every line of the lzv hand-picked kind that has to do with columns
    for l in [
        &b"r\t0\tchr1\t00\t255\t*\t*\t0\t0\t*\t*\tXA:i:1\n"[..],
        &b"r\t99\tchr1\t5\t7\t3M\t=\t9\t-7\tACG\t!~*\tXf:B:f,1.5,-0\tXA:B:c\tXB:B:c,-128,127\n"[..],
        &b"r\t4\t*\t0\t255\t*\t*\t0\t0\t*\n"[..],
        &b"r\t4\tchr3\t0\t255\t*\t=\t0\t0\t*\t*\tXA:i:1\n"[..],
        &b"\t\t\t\t\t\t\t\t\t\t\n"[..],
        &b"r\t4\t*\t0\t255\t*\t*\t0\t0\tA\t*\n"[..],
    ] {
        push_lzc(w, &refs, l);
    }
    for _ in 0..n_lzc {
        let refs = gen_refs_plain(rng);
        let mut s = gen_record(rng, refs.len());
        if s.data.is_empty() || rng.chance(1, 3) {
            s.data = gen_data(rng);
        }
        let header = header_of_refs(&refs);
        let line = match guarded(std::panic::AssertUnwindSafe(|| sam_write_record(&header, &to_record_buf(&s)))) {
            Outcome::Done(Ok(t)) => t,
            _ => continue,
        };
        let line = match rng.below(6) {
            0 | 1 => line,
            2 => {
                let mut l = line[..line.len() - 1].to_vec();
                if rng.chance(1, 2) {
                    l.extend_from_slice(b"\r\n");
                }
                l
            }
            3 => mutate_line(rng, &line),
            _ => mutate_data(rng, &line),
        };
        push_lzc(w, &refs, &line);
    }
    for _ in 0..n_tb {
        let nref = rng.below(4) as usize;
        let s = gen_record(rng, nref);
        let mut a = vec![nref.to_string()];
        a.extend(enc_spec(&s));
        w.push("tb", a);
    }
    generate_sf(rng, tier, w);
}

// ---- sf / sfw: a whole SAM file, modelled (NV.Sam.File)
//   sf  ptab hextext -> Err | "<header dump> # <record dump>;... # Eof|Err:<column>"
//        (sam::io::Reader::read_header, then read_record_buf until 0 or the first error)
//   sfw HD SQ RG PG CO n <12 record fields> x n -> hex of header + records as sam::io::Writer emits | Err

fn sf_table(text: &[u8]) -> String {
    let mut pt: Vec<String> = Vec::new();
    for line in text.split(|b| *b == b'\n') {
        let line = if line.last() == Some(&b'\r') { &line[..line.len() - 1] } else { line };
        for chunk in line.split(|b| *b == b'\t') {
            if chunk.len() >= 5 && (chunk[3] == b'f' || chunk[3] == b'B') {
                let mut toks: Vec<&[u8]> = vec![&chunk[5..]];
                if chunk.len() >= 7 {
                    toks.extend(chunk[7..].split(|b| *b == b','));
                }
                for tok in toks {
                    if let Some(b) = float_full(tok) {
                        let e = format!("{}:{b}", hex(tok));
                        if !pt.contains(&e) {
                            pt.push(e);
                        }
                    }
                }
            }
        }
    }
    if pt.is_empty() { "_".to_string() } else { pt.join(",") }
}

fn run_sf(c: &Case) -> Obs {
    let text = c.b(1);
    let r = guarded(move || {
        let mut rd = sam::io::Reader::new(&text[..]);
        let h = match rd.read_header() {
            Ok(h) => h,
            Err(_) => return None,
        };
        let mut out: Vec<String> = Vec::new();
        let mut rec = RecordBuf::default();
        let end = loop {
            match rd.read_record_buf(&h, &mut rec) {
                Ok(0) => break "Eof".to_string(),
                Ok(_) => out.push(dump_spec(&from_record_buf(&rec))),
                Err(e) => break format!("Err:{}", parse_err_column(&e)),
            }
        };
        Some((enc_header(&h).join(" "), out, end))
    });
    match r {
        Outcome::Done(None) => Obs::ok("Err", false),
        Outcome::Done(Some((h, recs, end))) => {
            let nt = end == "Eof" && !recs.is_empty();
            let rs = if recs.is_empty() { "_".to_string() } else { recs.join(";") };
            Obs::ok(format!("{h} # {rs} # {end}"), nt)
        }
        Outcome::Panicked(m) => Obs::fail("Panic", "panic-sam-read-file", m),
    }
}

fn run_sfw(c: &Case) -> Obs {
    let h = dec_header(&c.args[0..5]);
    let n: usize = c.args[5].parse().unwrap();
    let specs: Vec<Spec> = (0..n).map(|i| dec_spec(&c.args[6 + 12 * i..6 + 12 * (i + 1)])).collect();
    match guarded(std::panic::AssertUnwindSafe(|| {
        let mut w = sam::io::Writer::new(Vec::new());
        w.write_header(&h)?;
        for s in &specs {
            w.write_alignment_record(&h, &to_record_buf(s))?;
        }
        Ok::<_, io::Error>(w.into_inner())
    })) {
        Outcome::Done(Ok(t)) => Obs::ok(hex(&t), true),
        Outcome::Done(Err(_)) => Obs::ok("Err", false),
        Outcome::Panicked(m) => Obs::fail("Panic", "panic-sam-write-file", m),
    }
}

fn generate_sf(rng: &mut Rng, tier: &str, w: &mut CaseWriter) {
    let thorough = tier == "thorough";
    let (n_sf, n_sfw) = if thorough { (6000, 3000) } else { (450, 250) };
    for t in [
        &b""[..],
        &b"@HD\tVN:1.6\n"[..],
        &b"@HD\tVN:1.6"[..],
        &b"@SQ\tSN:chr1\tLN:9\nr\t0\tchr1\t1\t0\t1M\t*\t0\t0\tA\t!\n"[..],
        &b"@SQ\tSN:chr1\tLN:9\nr\t0\tchr1\t1\t0\t1M\t*\t0\t0\tA\t!"[..],
        &b"@SQ\tSN:chr1\tLN:9\r\nr\t0\tchr1\t1\t0\t1M\t=\t0\t0\tA\t!\r\n*\t4\t*\t0\t255\t*\t*\t0\t0\t*\t*\n"[..],
        &b"r\t4\t*\t0\t255\t*\t*\t0\t0\t*\t*\n"[..],
        &b"@CO\tx\nr\t4\t*\t0\t255\t*\t*\t0\t0\t*\t*\n@CO\tlate\n"[..],
        &b"@CO\tx\n\nr\t4\t*\t0\t255\t*\t*\t0\t0\t*\t*\n"[..],
        &b"@SQ\tSN:a\tLN:1\nr\t0\tb\t1\t0\t*\t*\t0\t0\t*\t*\n"[..],
        &b"@SQ\tSN:a\tLN:1\nr\t0\ta\t1\t0\t*\t*\t0\t0\t*\t*\nbad\n*\t4\t*\t0\t255\t*\t*\t0\t0\t*\t*\n"[..],
        &b"@SQ\tSN:a\tLN:1\n@SQ\tSN:a\tLN:1\n"[..],
        &b"@HD\tVN:1.6\n*\t4\t*\t0\t255\t*\t*\t0\t0\t*\t*\tXA:f:1.5\tXB:B:f,1,2.5\n"[..],
    ] {
        w.push("sf", vec![sf_table(t), hex(t)]);
    }
    let gen_file = |rng: &mut Rng| -> Option<(sam::Header, Vec<Spec>)> {
        let rich = rng.chance(1, 2);
        let (h, _) = gen_header(rng, rich);
        let nref = h.reference_sequences().len();
        let n = rng.below(5) as usize;
        let specs: Vec<Spec> = (0..n)
            .map(|_| {
                let mut s = gen_record(rng, nref);
                strip_floats(&mut s);
                s
            })
            .collect();
        Some((h, specs))
    };
    for _ in 0..n_sf {
        let Some((h, specs)) = gen_file(rng) else { continue };
        let text = match guarded(std::panic::AssertUnwindSafe(|| {
            let mut wr = sam::io::Writer::new(Vec::new());
            wr.write_header(&h)?;
            for s in &specs {
                wr.write_alignment_record(&h, &to_record_buf(s))?;
            }
            Ok::<_, io::Error>(wr.into_inner())
        })) {
            Outcome::Done(Ok(t)) => t,
            _ => continue,
        };
        let text = match rng.below(4) {
            0 | 1 => text,
            2 => {
                // CRLF everywhere, or no final line end
                if rng.chance(1, 2) {
                    let mut t = Vec::new();
                    for b in &text {
                        if *b == b'\n' {
                            t.push(b'\r');
                        }
                        t.push(*b);
                    }
                    t
                } else {
                    text[..text.len().saturating_sub(1)].to_vec()
                }
            }
            _ => mutate_line(rng, &text),
        };
        w.push("sf", vec![sf_table(&text), hex(&text)]);
    }
    for _ in 0..n_sfw {
        let Some((h, specs)) = gen_file(rng) else { continue };
        let mut a = enc_header(&h);
        a.push(specs.len().to_string());
        for s in &specs {
            a.extend(enc_spec(s));
        }
        w.push("sfw", a);
    }
}
