//! C07: an independent CRAM 3.x container walker written from the specification (CRAMv3.pdf,
//! sections 6-9).  It does not use any noodles code: ITF8/LTF8, the container header, the block
//! header, the slice header, CRC32 (flate2::Crc) and MD5 (implemented below) are all local.

#[derive(Clone, Debug)]
pub struct BlockInfo {
    /// offset of the block's first byte, relative to the end of the container header
    pub rel: usize,
    pub method: u8,
    pub ctype: u8,
    pub cid: i32,
    pub csize: i32,
    pub rsize: i32,
    /// absolute byte range of the payload in the file
    pub data: (usize, usize),
    /// total byte length of the block including header and CRC
    pub total: usize,
    pub crc_ok: bool,
}

#[derive(Clone, Debug, Default)]
pub struct SliceHeader {
    pub ref_id: i32,
    pub start: i32,
    pub span: i32,
    pub n_records: i32,
    pub counter: i64,
    pub n_blocks: i32,
    pub ids: Vec<i32>,
    pub embedded: i32,
    pub md5: [u8; 16],
    pub rest: usize,
}

#[derive(Clone, Debug)]
pub struct ContainerInfo {
    pub off: usize,
    pub header_len: usize,
    pub length: i32,
    pub ref_id: i32,
    pub start: i32,
    pub span: i32,
    pub n_records: i32,
    pub counter: i64,
    pub bases: i64,
    pub n_blocks: i32,
    pub landmarks: Vec<i32>,
    pub crc_ok: bool,
    pub blocks: Vec<BlockInfo>,
    /// bytes of the body that could not be parsed as blocks (0 when well formed)
    pub slack: usize,
}

pub struct Cur<'a> {
    pub b: &'a [u8],
    pub p: usize,
}

type R<T> = Result<T, String>;

impl<'a> Cur<'a> {
    pub fn new(b: &'a [u8], p: usize) -> Self {
        Cur { b, p }
    }
    pub fn u8(&mut self) -> R<u8> {
        let v = *self.b.get(self.p).ok_or_else(|| format!("eof at {}", self.p))?;
        self.p += 1;
        Ok(v)
    }
    pub fn take(&mut self, n: usize) -> R<&'a [u8]> {
        if self.p + n > self.b.len() {
            return Err(format!("eof: need {n} bytes at {}", self.p));
        }
        let s = &self.b[self.p..self.p + n];
        self.p += n;
        Ok(s)
    }
    pub fn i32le(&mut self) -> R<i32> {
        let s = self.take(4)?;
        Ok(i32::from_le_bytes([s[0], s[1], s[2], s[3]]))
    }
    pub fn u32le(&mut self) -> R<u32> {
        let s = self.take(4)?;
        Ok(u32::from_le_bytes([s[0], s[1], s[2], s[3]]))
    }
    /// CRAM 3 section 2.3 ITF8
    pub fn itf8(&mut self) -> R<i32> {
        let b0 = self.u8()? as u32;
        let v = if b0 < 0x80 {
            b0
        } else if b0 < 0xc0 {
            ((b0 & 0x3f) << 8) | self.u8()? as u32
        } else if b0 < 0xe0 {
            let b1 = self.u8()? as u32;
            let b2 = self.u8()? as u32;
            ((b0 & 0x1f) << 16) | (b1 << 8) | b2
        } else if b0 < 0xf0 {
            let b1 = self.u8()? as u32;
            let b2 = self.u8()? as u32;
            let b3 = self.u8()? as u32;
            ((b0 & 0x0f) << 24) | (b1 << 16) | (b2 << 8) | b3
        } else {
            let b1 = self.u8()? as u32;
            let b2 = self.u8()? as u32;
            let b3 = self.u8()? as u32;
            let b4 = self.u8()? as u32;
            ((b0 & 0x0f) << 28) | (b1 << 20) | (b2 << 12) | (b3 << 4) | (b4 & 0x0f)
        };
        Ok(v as i32)
    }
    /// CRAM 3 section 2.3 LTF8
    pub fn ltf8(&mut self) -> R<i64> {
        let b0 = self.u8()? as u64;
        let n = (b0 as u8).leading_ones() as usize; // number of extra bytes (0..=8)
        let mut v: u64 = if n >= 8 { 0 } else { b0 & (0xffu64 >> (n + 1)) };
        for _ in 0..n {
            v = (v << 8) | self.u8()? as u64;
        }
        Ok(v as i64)
    }
}

pub fn crc32(bs: &[u8]) -> u32 {
    let mut c = flate2::Crc::new();
    c.update(bs);
    c.sum()
}

fn walk_block(file: &[u8], c: &mut Cur, body_start: usize) -> R<BlockInfo> {
    let p0 = c.p;
    let method = c.u8()?;
    let ctype = c.u8()?;
    let cid = c.itf8()?;
    let csize = c.itf8()?;
    let rsize = c.itf8()?;
    if csize < 0 {
        return Err(format!("negative block size at {p0}"));
    }
    let d0 = c.p;
    c.take(csize as usize)?;
    let d1 = c.p;
    let crc = c.u32le()?;
    Ok(BlockInfo {
        rel: p0 - body_start,
        method,
        ctype,
        cid,
        csize,
        rsize,
        data: (d0, d1),
        total: c.p - p0,
        crc_ok: crc32(&file[p0..d1]) == crc,
    })
}

/// Parses one container starting at `off`; the body is parsed as a sequence of blocks within
/// the declared length.
pub fn walk_container(file: &[u8], off: usize) -> R<ContainerInfo> {
    let mut c = Cur::new(file, off);
    let length = c.i32le()?;
    let ref_id = c.itf8()?;
    let start = c.itf8()?;
    let span = c.itf8()?;
    let n_records = c.itf8()?;
    let counter = c.ltf8()?;
    let bases = c.ltf8()?;
    let n_blocks = c.itf8()?;
    let n_land = c.itf8()?;
    if !(0..=1_000_000).contains(&n_land) {
        return Err(format!("landmark count {n_land}"));
    }
    let mut landmarks = Vec::new();
    for _ in 0..n_land {
        landmarks.push(c.itf8()?);
    }
    let hdr_end = c.p;
    let crc = c.u32le()?;
    let crc_ok = crc32(&file[off..hdr_end]) == crc;
    let body_start = c.p;
    if length < 0 || body_start + length as usize > file.len() {
        return Err(format!("container at {off}: length {length} exceeds the file"));
    }
    let body_end = body_start + length as usize;
    let mut blocks = Vec::new();
    let mut slack = 0;
    while c.p < body_end {
        let save = c.p;
        let mut sub = Cur::new(&file[..body_end], c.p);
        match walk_block(file, &mut sub, body_start) {
            Ok(b) => {
                c.p = sub.p;
                blocks.push(b);
            }
            Err(_) => {
                slack = body_end - save;
                break;
            }
        }
    }
    Ok(ContainerInfo {
        off,
        header_len: body_start - off,
        length,
        ref_id,
        start,
        span,
        n_records,
        counter,
        bases,
        n_blocks,
        landmarks,
        crc_ok,
        blocks,
        slack,
    })
}

pub fn parse_slice_header(data: &[u8]) -> R<SliceHeader> {
    let mut c = Cur::new(data, 0);
    let ref_id = c.itf8()?;
    let start = c.itf8()?;
    let span = c.itf8()?;
    let n_records = c.itf8()?;
    let counter = c.ltf8()?;
    let n_blocks = c.itf8()?;
    let n_ids = c.itf8()?;
    if !(0..=100_000).contains(&n_ids) {
        return Err(format!("slice header: {n_ids} content ids"));
    }
    let mut ids = Vec::new();
    for _ in 0..n_ids {
        ids.push(c.itf8()?);
    }
    let embedded = c.itf8()?;
    let m = c.take(16)?;
    let mut md5 = [0u8; 16];
    md5.copy_from_slice(m);
    Ok(SliceHeader {
        ref_id,
        start,
        span,
        n_records,
        counter,
        n_blocks,
        ids,
        embedded,
        md5,
        rest: data.len() - c.p,
    })
}

/// CRAM 3 section 9: the fixed EOF container of version 3.x
pub const EOF_V3: [u8; 38] = [
    0x0f, 0x00, 0x00, 0x00, 0xff, 0xff, 0xff, 0xff, 0x0f, 0xe0, 0x45, 0x4f, 0x46, 0x00, 0x00, 0x00, 0x00, 0x01, 0x00,
    0x05, 0xbd, 0xd9, 0x4f, 0x00, 0x01, 0x00, 0x06, 0x06, 0x01, 0x00, 0x01, 0x00, 0x01, 0x00, 0xee, 0x63, 0x01, 0x4b,
];

pub struct Walk {
    pub major: u8,
    pub minor: u8,
    /// container 0 is the file header container; the EOF container is not included
    pub containers: Vec<ContainerInfo>,
}

/// file definition + all containers up to the EOF container, which must be the last 38 bytes.
pub fn walk_file(file: &[u8]) -> R<Walk> {
    if file.len() < 26 || &file[..4] != b"CRAM" {
        return Err("file definition: bad magic".into());
    }
    let (major, minor) = (file[4], file[5]);
    if file.len() < 26 + EOF_V3.len() || file[file.len() - 38..] != EOF_V3 {
        return Err("eof: the file does not end with the CRAM 3 EOF container".into());
    }
    let end = file.len() - 38;
    let mut off = 26;
    let mut containers = Vec::new();
    while off < end {
        let c = walk_container(file, off)?;
        let next = off + c.header_len + c.length as usize;
        if next > end {
            return Err(format!("container at {off} runs into the EOF container (next={next}, eof at {end})"));
        }
        off = next;
        containers.push(c);
    }
    Ok(Walk { major, minor, containers })
}

// ------------------------------------------------------------------------------------------------
// MD5 (RFC 1321)

pub fn md5(data: &[u8]) -> [u8; 16] {
    const S: [u32; 64] = [
        7, 12, 17, 22, 7, 12, 17, 22, 7, 12, 17, 22, 7, 12, 17, 22, 5, 9, 14, 20, 5, 9, 14, 20, 5, 9, 14, 20, 5, 9, 14,
        20, 4, 11, 16, 23, 4, 11, 16, 23, 4, 11, 16, 23, 4, 11, 16, 23, 6, 10, 15, 21, 6, 10, 15, 21, 6, 10, 15, 21, 6,
        10, 15, 21,
    ];
    let k: Vec<u32> = (0..64).map(|i| ((i as f64 + 1.0).sin().abs() * 4294967296.0) as u32).collect();
    let (mut a0, mut b0, mut c0, mut d0) = (0x67452301u32, 0xefcdab89u32, 0x98badcfeu32, 0x10325476u32);
    let mut msg = data.to_vec();
    msg.push(0x80);
    while msg.len() % 64 != 56 {
        msg.push(0);
    }
    msg.extend_from_slice(&((data.len() as u64).wrapping_mul(8)).to_le_bytes());
    for chunk in msg.chunks(64) {
        let m: Vec<u32> = (0..16)
            .map(|i| u32::from_le_bytes([chunk[4 * i], chunk[4 * i + 1], chunk[4 * i + 2], chunk[4 * i + 3]]))
            .collect();
        let (mut a, mut b, mut c, mut d) = (a0, b0, c0, d0);
        for i in 0..64 {
            let (mut f, g) = match i / 16 {
                0 => ((b & c) | (!b & d), i),
                1 => ((d & b) | (!d & c), (5 * i + 1) % 16),
                2 => (b ^ c ^ d, (3 * i + 5) % 16),
                _ => (c ^ (b | !d), (7 * i) % 16),
            };
            f = f.wrapping_add(a).wrapping_add(k[i]).wrapping_add(m[g]);
            a = d;
            d = c;
            c = b;
            b = b.wrapping_add(f.rotate_left(S[i]));
        }
        a0 = a0.wrapping_add(a);
        b0 = b0.wrapping_add(b);
        c0 = c0.wrapping_add(c);
        d0 = d0.wrapping_add(d);
    }
    let mut out = [0u8; 16];
    out[..4].copy_from_slice(&a0.to_le_bytes());
    out[4..8].copy_from_slice(&b0.to_le_bytes());
    out[8..12].copy_from_slice(&c0.to_le_bytes());
    out[12..].copy_from_slice(&d0.to_le_bytes());
    out
}
