//! C08: input classes of known noodles defects in rANS Nx16, decided from (flags, src) alone.
#![allow(dead_code)]
pub fn nx16_known_class(_flags: u8, _src: &[u8]) -> Option<&'static str> {
    None
}
