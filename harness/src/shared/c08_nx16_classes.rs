//! C08: input classes of known noodles defects in rANS Nx16, decided from (flags, src) alone
//! (no call into noodles).  See known_findings.d/C08.json.
#![allow(dead_code)]
// ---------------------------------------------------------------------------------------------
// rANS Nx16: input classes with a known cause, decided from (flags, src) alone (no noodles call).
//
// Tags
//   nx16-normalize-u32-overflow     encoder panics: count * 4096 overflows u32 (a count >= 2^20)
//   nx16-normalize-underflow        encoder panics: excess of the max(1) bumps > scaled max frequency
//   nx16-normalize-zero-max         DO NOT EXECUTE: the most frequent symbol is normalised to frequency 0,
//                                   state_renormalize(s, f = 0) never terminates (unbounded Vec growth)
//   nx16-alphabet-first-symbol-1    order-0 table whose smallest symbol is 1: spurious run-length byte
//   nx16-o1-renorm-order            order-1 encoder emits renormalisation words chunk by chunk, the
//                                   decoder consumes them interleaved; the streams differ
// ---------------------------------------------------------------------------------------------

const F_ORDER: u8 = 0x01;
const F_N32: u8 = 0x04;
const F_STRIPE: u8 = 0x08;
const F_CAT: u8 = 0x20;
const F_RLE: u8 = 0x40;
const F_PACK: u8 = 0x80;

/// encode/bit_pack.rs: None when the PACK flag is dropped (no symbol or more than 16 symbols)
fn nx16_bit_pack(src: &[u8]) -> Option<Vec<u8>> {
    let mut map = [0u8; 256];
    let mut present = [false; 256];
    for &b in src {
        present[b as usize] = true;
    }
    let mut n = 0usize;
    for s in 0..256 {
        if present[s] {
            if n == 16 {
                return None;
            }
            map[s] = n as u8;
            n += 1;
        }
    }
    let per = match n {
        0 => return None,
        1 => return Some(Vec::new()),
        2 => 8,
        3..=4 => 4,
        _ => 2,
    };
    let shift = 8 / per;
    Some(src.chunks(per).map(|c| c.iter().enumerate().fold(0u8, |d, (i, &s)| d | map[s as usize] << (shift * i))).collect())
}

/// encode/rle.rs + rle/context.rs: the literal stream; None when the RLE flag is dropped
fn nx16_rle_literals(src: &[u8]) -> Option<Vec<u8>> {
    let mut score = [0i32; 256];
    for w in src.windows(2) {
        let s = &mut score[w[1] as usize];
        *s = if w[0] == w[1] { s.saturating_add(1) } else { s.saturating_sub(1) };
    }
    if !score.iter().any(|&n| n > 0) {
        return None;
    }
    let mut out = Vec::new();
    let mut i = 0;
    while i < src.len() {
        let s = src[i];
        out.push(s);
        i += 1;
        if score[s as usize] > 0 {
            while i < src.len() && src[i] == s {
                i += 1;
            }
        }
    }
    Some(out)
}

enum Nx16Row {
    Fine([u32; 256]),
    U32Overflow,
    Underflow,
    ZeroMax,
}

/// encode/order_0.rs normalize_frequencies, in wide arithmetic
fn nx16_normalize(raw: &[u64; 256]) -> Nx16Row {
    let sum: u64 = raw.iter().sum();
    let mut out = [0u32; 256];
    if sum == 0 {
        return Nx16Row::Fine(out);
    }
    if sum > u32::MAX as u64 {
        return Nx16Row::U32Overflow;
    }
    let (mut max, mut max_index) = (0, 0);
    for (i, &f) in raw.iter().enumerate() {
        if f >= max {
            max = f;
            max_index = i;
        }
    }
    let mut nsum = 0u64;
    for i in 0..256 {
        if raw[i] > 0 {
            if raw[i] * 4096 > u32::MAX as u64 {
                return Nx16Row::U32Overflow;
            }
            let g = (raw[i] * 4096 / sum).max(1);
            out[i] = g as u32;
            nsum += g;
        }
    }
    let m = out[max_index] as u64;
    if nsum < 4096 {
        out[max_index] = (m + 4096 - nsum) as u32;
    } else if nsum > 4096 {
        let excess = nsum - 4096;
        if m < excess {
            return Nx16Row::Underflow;
        }
        if m == excess {
            return Nx16Row::ZeroMax;
        }
        out[max_index] = (m - excess) as u32;
    }
    Nx16Row::Fine(out)
}

fn nx16_cumulative(f: &[u32; 256]) -> [u32; 256] {
    let mut c = [0u32; 256];
    for i in 1..256 {
        c[i] = c[i - 1] + f[i - 1];
    }
    c
}

/// one encoder step (state_renormalize then state_step, 12 bits); returns the emitted 16-bit word, if any
fn nx16_step(s: &mut u32, f: u32, g: u32) -> Option<u16> {
    let mut out = None;
    // f in 1..=4096: at most one word is emitted
    if *s as u64 >= (1u64 << 19) * f as u64 {
        out = Some(*s as u16);
        *s >>= 16;
    }
    *s = ((*s / f) << 12) + *s % f + g;
    out
}

fn nx16_order0_class(data: &[u8]) -> Option<&'static str> {
    let mut raw = [0u64; 256];
    for &b in data {
        raw[b as usize] += 1;
    }
    match nx16_normalize(&raw) {
        Nx16Row::U32Overflow => return Some("nx16-normalize-u32-overflow"),
        Nx16Row::Underflow => return Some("nx16-normalize-underflow"),
        Nx16Row::ZeroMax => return Some("nx16-normalize-zero-max"),
        Nx16Row::Fine(_) => {}
    }
    // write_alphabet starts with prev_sym = 0 although symbol 0 was not written
    if raw[0] == 0 && raw[1] > 0 {
        return Some("nx16-alphabet-first-symbol-1");
    }
    None
}

fn nx16_order1_class(data: &[u8], n: usize) -> Option<&'static str> {
    let q = data.len() / n;
    // build_frequencies: chunk starts in context 0, every adjacent pair of the whole input
    let mut raw = vec![0u32; 256 * 256];
    let mut used = [false; 256];
    for j in 0..n {
        raw[data[j * q] as usize] += 1;
        used[0] = true;
    }
    for w in data.windows(2) {
        raw[w[0] as usize * 256 + w[1] as usize] += 1;
        used[w[0] as usize] = true;
    }
    // rows are normalised in order; the first row that panics decides
    let mut tables: Vec<Option<Box<([u32; 256], [u32; 256])>>> = (0..256).map(|_| None).collect();
    let mut zero_max = false;
    for r in 0..256 {
        if !used[r] {
            continue;
        }
        let mut row = [0u64; 256];
        for c in 0..256 {
            row[c] = raw[r * 256 + c] as u64;
        }
        match nx16_normalize(&row) {
            Nx16Row::U32Overflow => return Some("nx16-normalize-u32-overflow"),
            Nx16Row::Underflow => return Some("nx16-normalize-underflow"),
            Nx16Row::ZeroMax => zero_max = true,
            Nx16Row::Fine(f) => tables[r] = Some(Box::new((f, nx16_cumulative(&f)))),
        }
    }
    if zero_max {
        return Some("nx16-normalize-zero-max");
    }
    let fg = |a: u8, b: u8| {
        let t = tables[a as usize].as_ref().unwrap();
        (t.0[b as usize], t.1[b as usize])
    };
    // words emitted while encoding positions q-1 ..= 1 of each chunk, per state, in emission order
    // (the remainder, encoded before, and position 0, encoded after, are ordered correctly)
    let mut per_state: Vec<Vec<(usize, u16)>> = vec![Vec::new(); n];
    for j in 0..n {
        let mut s: u32 = 0x8000;
        if j == n - 1 && data.len() % n != 0 {
            for w in data[q * n - 1..].windows(2).rev() {
                let (f, g) = fg(w[0], w[1]);
                nx16_step(&mut s, f, g);
            }
        }
        let chunk = &data[j * q..(j + 1) * q];
        for k in (1..q).rev() {
            let (f, g) = fg(chunk[k - 1], chunk[k]);
            if let Some(w) = nx16_step(&mut s, f, g) {
                per_state[j].push((k, w));
            }
        }
    }
    // noodles: state n-1 entirely, then n-2, ... ; decoder order: k descending, within k state descending
    let emitted: Vec<u16> = per_state.iter().rev().flat_map(|v| v.iter().map(|&(_, w)| w)).collect();
    let mut wanted: Vec<(usize, usize, u16)> = Vec::with_capacity(emitted.len());
    for (j, v) in per_state.iter().enumerate() {
        for &(k, w) in v {
            wanted.push((k, j, w));
        }
    }
    wanted.sort_by(|x, y| (y.0, y.1).cmp(&(x.0, x.1)));
    if emitted.iter().zip(&wanted).any(|(a, b)| *a != b.2) {
        return Some("nx16-o1-renorm-order");
    }
    None
}

fn nx16_plain_class(flags: u8, src: &[u8]) -> Option<&'static str> {
    let mut data = std::borrow::Cow::Borrowed(src);
    if flags & F_PACK != 0 {
        if let Some(p) = nx16_bit_pack(&data) {
            data = std::borrow::Cow::Owned(p);
        }
    }
    if flags & F_RLE != 0 {
        if let Some(l) = nx16_rle_literals(&data) {
            data = std::borrow::Cow::Owned(l);
        }
    }
    let n = if flags & F_N32 != 0 { 32 } else { 4 };
    if data.len() < n || flags & F_CAT != 0 {
        return None; // stored uncompressed
    }
    if flags & F_ORDER == 0 { nx16_order0_class(&data) } else { nx16_order1_class(&data, n) }
}

/// tag of the known input class (flags, src) belongs to, if any
pub fn nx16_known_class(flags: u8, src: &[u8]) -> Option<&'static str> {
    if flags & F_STRIPE != 0 {
        // every other flag is ignored: four byte-interleaved sub-streams, each order-0 with 4 states
        // (sub-streams are encoded in order; the first one that panics or hangs decides)
        let mut first = None;
        for i in 0..4 {
            let sub: Vec<u8> = src.iter().skip(i).step_by(4).copied().collect();
            match nx16_plain_class(0, &sub) {
                Some("nx16-alphabet-first-symbol-1") => first = first.or(Some("nx16-alphabet-first-symbol-1")),
                Some(c) => return Some(c), // the encoder panics (or hangs) here
                None => {}
            }
        }
        return first;
    }
    nx16_plain_class(flags, src)
}
