// ---- deepening round 8
//   lzg  refs ptab ftab hexline tags -> for every probe tag "<hextag>=<None | value | Err:kind>" joined by ';'
//        (sam::io::Reader::read_record, then record.data().get(tag) for each probe tag; the model
//        is NV.Sam.LazyGet.lazy_get); Eof / ReadErr when no record is read
//   hco  HD SQ RG PG CO -> "Err" | "<hex text> <header dump | Err>": sam::io::Writer::write_header, then
//        sam::io::Reader::read_header of the emitted text (NV.Sam.LazyGet.header_write_read), on headers
//        whose comments carry line breaks (LF anywhere, CR at the end) and on plain ones; the verdict is
//        the property (a header the writer accepts reads back equal)

fn probe_tags(rng: &mut Rng, line: &[u8]) -> Vec<[u8; 2]> {
    // every 2-byte prefix of a TAB-separated chunk of the optional-field text, in order of
    // appearance (repeats kept out), a tag that does not occur, and one random position
    let d = data_text(line);
    let mut tags: Vec<[u8; 2]> = Vec::new();
    for ch in d.split(|b| *b == b'\t') {
        if ch.len() >= 2 {
            let t = [ch[0], ch[1]];
            if !tags.contains(&t) {
                tags.push(t);
            }
        }
    }
    tags.truncate(12);
    tags.push(*b"zq");
    if d.len() >= 2 {
        let i = rng.below(d.len() as u64 - 1) as usize;
        let t = [d[i], d[i + 1]];
        if !tags.contains(&t) {
            tags.push(t);
        }
    }
    tags
}

fn push_lzg(rng: &mut Rng, w: &mut CaseWriter, refs: &[Vec<u8>], line: &[u8]) {
    let (pt, ft, _) = lzc_tables(line);
    let tags = probe_tags(rng, line);
    let ts: Vec<String> = tags.iter().map(|t| hex(t)).collect();
    w.push("lzg", vec![enc_refs(refs), pt, ft, hex(line), ts.join(",")]);
}

fn run_lzg(c: &Case) -> Obs {
    use std::panic::AssertUnwindSafe as A;
    let line = c.b(3);
    let tags: Vec<[u8; 2]> = c.args[4]
        .split(',')
        .map(|t| {
            let b = nv::unhex(t);
            [b[0], b[1]]
        })
        .collect();
    let read = {
        let line = line.clone();
        guarded(move || {
            let mut rd = sam::io::Reader::new(&line[..]);
            let mut rec = sam::Record::default();
            rd.read_record(&mut rec).map(|n| (n, rec))
        })
    };
    let rec = match read {
        Outcome::Done(Ok((0, _))) => return Obs::ok("Eof", false),
        Outcome::Done(Ok((_, r))) => r,
        Outcome::Done(Err(_)) => return Obs::ok("ReadErr", false),
        Outcome::Panicked(m) => return Obs::fail("Panic", "panic-sam-read-lazy", m),
    };
    // what Data::iter yields (for the verdict: get = the first field of the iteration with that tag)
    let listed: Result<Vec<([u8; 2], String)>, String> = match guarded(A(|| {
        let mut out = Vec::new();
        for f in rec.data().iter() {
            match f {
                Ok((t, v)) => {
                    let b: &[u8; 2] = t.as_ref();
                    out.push((*b, show_lazy_value(&v)));
                }
                Err(e) => return (out, Some(format!("Err:{}", nv::errkind(&e)))),
            }
            if out.len() > 100_000 {
                break;
            }
        }
        (out, None)
    })) {
        Outcome::Done((l, None)) => Ok(l),
        Outcome::Done((_, Some(e))) => Err(e),
        Outcome::Panicked(_) => Err("Panic".into()),
    };
    let mut parts = Vec::new();
    let mut all_ok = true;
    for t in &tags {
        let r = guarded(A(|| match rec.data().get(t) {
            None => "None".to_string(),
            Some(Ok(v)) => show_lazy_value(&v),
            Some(Err(e)) => format!("Err:{}", nv::errkind(&e)),
        }));
        let s = match r {
            Outcome::Done(s) => s,
            Outcome::Panicked(m) => {
                return Obs::fail("Panic", "panic-sam-lazy-data-get", m);
            }
        };
        if let Ok(l) = &listed {
            let want = l.iter().find(|(u, _)| u == t).map(|(_, v)| v.clone()).unwrap_or_else(|| "None".to_string());
            if want != s {
                return Obs::fail(parts.join(";"), "sam-lazy-get-differs-from-iter", format!("tag {} get {s} iter {want}", hex(t)));
            }
        }
        if s.starts_with("Err:") {
            all_ok = false;
        }
        parts.push(format!("{}={}", hex(t), s));
    }
    Obs::ok(parts.join(";"), all_ok && listed.is_ok())
}

fn comment_has_line_break(c: &[u8]) -> bool {
    c.contains(&b'\n') || c.last() == Some(&b'\r')
}

fn run_hco(c: &Case) -> Obs {
    let h = dec_header(&c.args);
    let valid = c.args.get(5).map(|s| s == "1").unwrap_or(true);
    let broken = h.comments().iter().any(|c| comment_has_line_break(c));
    let text = match guarded(|| sam_write_header(&h)) {
        Outcome::Done(Ok(t)) => t,
        // a writer that refuses the header makes no round-trip claim
        Outcome::Done(Err(_)) => return Obs::ok("Err", false),
        Outcome::Panicked(m) => return Obs::fail("Panic", "panic-sam-write-header", m),
    };
    let back = {
        let text = text.clone();
        guarded(move || {
            let mut rd = sam::io::Reader::new(&text[..]);
            rd.read_header()
        })
    };
    let (obs, h2) = match back {
        Outcome::Done(Ok(h2)) => (format!("{} {}", hex(&text), enc_header(&h2).join(" ")), Some(h2)),
        Outcome::Done(Err(_)) => (format!("{} Err", hex(&text)), None),
        Outcome::Panicked(m) => return Obs::fail("Panic", "panic-sam-read-header", m),
    };
    // the property: what the writer accepted reads back equal (SAM and BAM)
    let mut verdict: V = match &h2 {
        None => bad("sam-header-reader-rejects-own-output", hex(&text)),
        Some(h2) => cmp_headers("sam-header", &h, h2),
    };
    if !valid {
        // outside the validity predicate of the generator but accepted: no round-trip claim
        return Obs::ok(obs, false);
    }
    if verdict.is_ok() {
        verdict = (|| {
            let bb = match io_g("bam-write-header", || bam_write_all(&h, &[]))? {
                Ok(b) => b,
                Err(e) => return bad("bam-header-writer-rejects-valid", e.to_string()),
            };
            match io_g("bam-read-header", || bam_read_all(&bb))? {
                Ok((hb, _)) => cmp_headers("sam-bam-header-differs", &h, &hb),
                Err(e) => bad("bam-header-reader-rejects-own-output", e.to_string()),
            }
        })();
    }
    match verdict {
        Ok(()) => Obs::ok(obs, true),
        Err((tag, detail)) => {
            if broken && !tag.starts_with("panic") {
                // cause re-derived from the input: a comment with LF / trailing CR was written unvalidated
                Obs::fail(obs, "sam-header-comment-line-break-unvalidated", format!("{tag}: {detail}"))
            } else {
                Obs::fail(obs, &tag, detail)
            }
        }
    }
}

fn generate_part6(rng: &mut Rng, tier: &str, w: &mut CaseWriter) {
    let thorough = tier == "thorough";
    let (n_lzg, n_hco) = if thorough { (8000, 3000) } else { (600, 250) };
    let refs = vec![b"chr1".to_vec(), b"chr2".to_vec()];
    for d in [
        &b"NH:i:1\n"[..],
        &b"NH:i:1\tCO:Z:a b\r\n"[..],
        &b"XA:i:1\tXA:i:2\tXB:Z:x\tXA:Z:y\n"[..],
        &b"NM:i:1\tXA:i:x\tXB:i:2\n"[..],
        &b"XA:B:c,,1\tXB:B:c,1\n"[..],
        &b"XA:B:C,1,2\tzq:A:!\n"[..],
        &b"XA:A:\t\tXB:i:1\n"[..],
        &b"XA:f:1.5\tXB:f:1.5x\tXC:i:1\n"[..],
        &b"XA\n"[..],
        &b"\n"[..],
        &b"\tXA:i:1\n"[..],
    ] {
        let mut l = LZC_PREFIX.to_vec();
        l.extend_from_slice(d);
        push_lzg(rng, w, &refs, &l);
    }
    for _ in 0..n_lzg {
        let refs = gen_refs_plain(rng);
        let mut s = gen_record(rng, refs.len());
        if s.data.is_empty() || rng.chance(1, 2) {
            s.data = gen_data(rng);
        }
        let header = header_of_refs(&refs);
        let line = match guarded(std::panic::AssertUnwindSafe(|| sam_write_record(&header, &to_record_buf(&s)))) {
            Outcome::Done(Ok(t)) => t,
            _ => continue,
        };
        let line = match rng.below(6) {
            0 | 1 | 2 => line,
            3 => {
                let mut l = line[..line.len() - 1].to_vec();
                if rng.chance(1, 2) {
                    l.extend_from_slice(b"\r\n");
                }
                l
            }
            _ => mutate_data(rng, &line),
        };
        push_lzg(rng, w, &refs, &line);
    }
    // headers: hand-picked comments with line breaks, then generated headers of which half get one
    for co in [
        &b"a\nb"[..],
        &b"a\r"[..],
        &b"a\r\r"[..],
        &b"\r"[..],
        &b"\n"[..],
        &b"a\n"[..],
        &b"a\n@CO\tb"[..],
        &b"a\n@SQ\tSN:x\tLN:5"[..],
        &b"a\n@SQ\tSN:chr1\tLN:5"[..],
        &b"a\n@HD\tVN:1.6"[..],
        &b"a\rb"[..],
        &b"a\r\nb"[..],
        &b"plain"[..],
    ] {
        for with_sq in [false, true] {
            let mut h = sam::Header::default();
            if with_sq {
                h.reference_sequences_mut()
                    .insert(BString::from(&b"chr1"[..]), Map::<ReferenceSequence>::new(NonZero::new(9).unwrap()));
            }
            h.add_comment(BString::from(&b"first"[..]));
            h.add_comment(BString::from(co));
            h.add_comment(BString::from(&b"last"[..]));
            w.push("hco", enc_header(&h));
        }
    }
    for _ in 0..n_hco {
        let (mut h, valid) = gen_header(rng, true);
        if rng.chance(1, 2) {
            let n = rng.below(12) as usize;
            let mut c = printable(rng, b' ', b'~', n);
            match rng.below(4) {
                0 => c.push(b'\r'),
                1 => {
                    let i = rng.below(c.len() as u64 + 1) as usize;
                    c.insert(i, b'\n');
                }
                2 => {
                    c.push(b'\n');
                    c.extend_from_slice(b"@CO\t");
                    c.extend_from_slice(&printable(rng, b' ', b'~', 3));
                }
                _ => c.extend_from_slice(b"\r\r"),
            }
            h.add_comment(BString::from(c));
        }
        let mut a = enc_header(&h);
        a.push(if valid { "1" } else { "0" }.to_string());
        w.push("hco", a);
    }
}
