//! C18, BED at record level: the reader's reusable `Record<N>` observed accessor by accessor
//! (every accessor call guarded on its own, so that a slice-index panic of one accessor is an
//! observation of that accessor), the owned conversion, and the caller's read loop over one
//! reused record or fresh ones.  Compared with NV.Text.BedRec (bed_read_record, bed_view_of,
//! bed_owned, bed_read_file, bed_read_raw).
//!
//! view  = name|start|end|nm|score|strand|others   ("~" = accessor absent for this N)
//! owned = same shape, from RecordBuf<N>::try_from_feature_record, or Err:<kind> / Panic
//! entry = <result of read_record>/<view>/<owned>/<rewrite>   (rewrite = the owned record through the real writer: NV.Text.BedRewrite)

use super::*;

fn acc(f: impl FnOnce() -> String) -> String {
    match guarded(AssertUnwindSafe(f)) {
        Outcome::Done(s) => s,
        Outcome::Panicked(_) => "Panic".into(),
    }
}

fn pos_str(r: io::Result<Position>) -> String {
    res_str(r, |p| usize::from(p).to_string())
}

fn nm_str(n: Option<&bstr::BStr>) -> String {
    n.map(|n| hex(n)).unwrap_or("-".into())
}

fn buf_end(p: Option<Position>) -> String {
    p.map(|p| usize::from(p).to_string()).unwrap_or(".".into())
}

macro_rules! lazy_others {
    ($x:expr) => {
        acc(|| join_others($x.other_fields().iter().map(|s| s.as_bytes())))
    };
}

fn view3(x: &bed::Record<3>) -> String {
    [
        acc(|| hex(x.reference_sequence_name())),
        acc(|| pos_str(x.feature_start())),
        acc(|| opt_pos(x.feature_end())),
        "~".into(),
        "~".into(),
        "~".into(),
        lazy_others!(x),
    ]
    .join("|")
}

fn view4(x: &bed::Record<4>) -> String {
    [
        acc(|| hex(x.reference_sequence_name())),
        acc(|| pos_str(x.feature_start())),
        acc(|| opt_pos(x.feature_end())),
        acc(|| nm_str(x.name())),
        "~".into(),
        "~".into(),
        lazy_others!(x),
    ]
    .join("|")
}

fn view5(x: &bed::Record<5>) -> String {
    [
        acc(|| hex(x.reference_sequence_name())),
        acc(|| pos_str(x.feature_start())),
        acc(|| opt_pos(x.feature_end())),
        acc(|| nm_str(x.name())),
        acc(|| res_str(x.score(), |s| s.to_string())),
        "~".into(),
        lazy_others!(x),
    ]
    .join("|")
}

fn view6(x: &bed::Record<6>) -> String {
    [
        acc(|| hex(x.reference_sequence_name())),
        acc(|| pos_str(x.feature_start())),
        acc(|| opt_pos(x.feature_end())),
        acc(|| nm_str(x.name())),
        acc(|| res_str(x.score(), |s| s.to_string())),
        acc(|| res_str(x.strand(), bed_strand_ch)),
        lazy_others!(x),
    ]
    .join("|")
}

fn owned3(x: &bed::Record<3>) -> String {
    acc(|| match bed::feature::RecordBuf::<3>::try_from_feature_record(x) {
        Err(e) => format!("Err:{}", errkind(&e)),
        Ok(b) => [
            hex(b.reference_sequence_name()),
            usize::from(b.feature_start()).to_string(),
            buf_end(b.feature_end()),
            "~".into(),
            "~".into(),
            "~".into(),
            owned_others(b.other_fields()),
        ]
        .join("|"),
    })
}

fn owned4(x: &bed::Record<4>) -> String {
    acc(|| match bed::feature::RecordBuf::<4>::try_from_feature_record(x) {
        Err(e) => format!("Err:{}", errkind(&e)),
        Ok(b) => [
            hex(b.reference_sequence_name()),
            usize::from(b.feature_start()).to_string(),
            buf_end(b.feature_end()),
            nm_str(b.name()),
            "~".into(),
            "~".into(),
            owned_others(b.other_fields()),
        ]
        .join("|"),
    })
}

fn owned5(x: &bed::Record<5>) -> String {
    acc(|| match bed::feature::RecordBuf::<5>::try_from_feature_record(x) {
        Err(e) => format!("Err:{}", errkind(&e)),
        Ok(b) => [
            hex(b.reference_sequence_name()),
            usize::from(b.feature_start()).to_string(),
            buf_end(b.feature_end()),
            nm_str(b.name()),
            b.score().to_string(),
            "~".into(),
            owned_others(b.other_fields()),
        ]
        .join("|"),
    })
}

fn owned6(x: &bed::Record<6>) -> String {
    acc(|| match bed::feature::RecordBuf::<6>::try_from_feature_record(x) {
        Err(e) => format!("Err:{}", errkind(&e)),
        Ok(b) => [
            hex(b.reference_sequence_name()),
            usize::from(b.feature_start()).to_string(),
            buf_end(b.feature_end()),
            nm_str(b.name()),
            b.score().to_string(),
            bed_strand_ch(b.strand()),
            owned_others(b.other_fields()),
        ]
        .join("|"),
    })
}

/// The copy loop's write of the record state (NV.Text.BedRewrite.bed_rewrite_view):
/// RecordBuf<N>::try_from_feature_record, then the real writer; hex of the line without its LF,
/// Err:<kind> of the conversion or of the writer, or Panic.
macro_rules! rewrite_fn {
    ($name:ident, $n:literal) => {
        fn $name(x: &bed::Record<$n>) -> String {
            acc(|| match bed::feature::RecordBuf::<$n>::try_from_feature_record(x) {
                Err(e) => format!("Err:{}", errkind(&e)),
                Ok(b) => {
                    let mut w = bed::io::Writer::<$n, _>::new(Vec::new());
                    match w.write_feature_record(&b) {
                        Err(e) => format!("Err:{}", errkind(&e)),
                        Ok(()) => {
                            let bytes = w.into_inner();
                            assert_eq!(bytes.last(), Some(&b'\n'), "writer ends the line with LF");
                            hex(&bytes[..bytes.len() - 1])
                        }
                    }
                }
            })
        }
    };
}
rewrite_fn!(rewrite3, 3);
rewrite_fn!(rewrite4, 4);
rewrite_fn!(rewrite5, 5);
rewrite_fn!(rewrite6, 6);

/// One entry per read_record call.
#[derive(Clone, Debug, PartialEq)]
pub struct Entry {
    pub res: String,
    pub view: String,
    pub owned: String,
    pub rewrite: String,
}

impl Entry {
    pub fn text(&self) -> String {
        format!("{}/{}/{}/{}", self.res, self.view, self.owned, self.rewrite)
    }
    pub fn is_record(&self) -> bool {
        self.res.parse::<u64>().map(|k| k > 0).unwrap_or(false)
    }
}

macro_rules! read_loop {
    ($n:literal, $view:ident, $owned:ident, $rewrite:ident, $bytes:expr, $reuse:expr, $fuel:expr, $go_on:expr) => {{
        let mut reader = bed::io::Reader::<$n, _>::new($bytes);
        let mut rec = bed::Record::<$n>::default();
        let mut out: Vec<Entry> = Vec::new();
        for _ in 0..$fuel {
            if !$reuse {
                rec = bed::Record::<$n>::default();
            }
            let r = guarded(AssertUnwindSafe(|| reader.read_record(&mut rec)));
            let (res, stop) = match r {
                Outcome::Panicked(_) => ("Panic".to_string(), true),
                Outcome::Done(Ok(0)) => ("0".to_string(), true),
                Outcome::Done(Ok(k)) => (k.to_string(), false),
                Outcome::Done(Err(e)) => (format!("Err:{}", errkind(&e)), !$go_on),
            };
            out.push(Entry { res, view: $view(&rec), owned: $owned(&rec), rewrite: $rewrite(&rec) });
            if stop {
                break;
            }
        }
        out
    }};
}

/// The caller's loop over `bytes`: `reuse` = one Record<N> for all calls, otherwise a fresh
/// default record per call; `go_on` = keep reading after an error.
pub fn read_text(n: usize, bytes: &[u8], reuse: bool, fuel: usize, go_on: bool) -> Vec<Entry> {
    match n {
        3 => read_loop!(3, view3, owned3, rewrite3, bytes, reuse, fuel, go_on),
        4 => read_loop!(4, view4, owned4, rewrite4, bytes, reuse, fuel, go_on),
        5 => read_loop!(5, view5, owned5, rewrite5, bytes, reuse, fuel, go_on),
        6 => read_loop!(6, view6, owned6, rewrite6, bytes, reuse, fuel, go_on),
        _ => panic!("bed n"),
    }
}

/// expected view of a written record (what NV.Text.BedRec.bed_expected_view prints as)
pub fn want_view(r: &BedRec) -> String {
    let nm = if r.n >= 4 {
        match &r.nm {
            Some(n) if n != b"." => hex(n),
            _ => "-".into(),
        }
    } else {
        "~".into()
    };
    [
        hex(&r.name),
        r.start.to_string(),
        r.end.map(|e| e.to_string()).unwrap_or(".".into()),
        nm,
        if r.n >= 5 { r.score.to_string() } else { "~".into() },
        if r.n >= 6 { r.strand.to_string() } else { "~".into() },
        join_others(other_texts(r).iter().map(|v| &v[..])),
    ]
    .join("|")
}

/// bedraw n <hex text> fuel: arbitrary text through the real reader, one reused record, going on
/// after errors; obs = entries joined by ';'.  Oracle: a call that returns a record leaves the
/// reused record in the same state as a fresh one (stale-state freedom), and the owned
/// conversion agrees with the lazy view.
pub fn run_bedraw(c: &Case) -> Obs {
    let n = c.u(0) as usize;
    let bytes = c.b(1);
    let fuel = c.u(2) as usize;
    let reused = read_text(n, &bytes, true, fuel, true);
    let fresh = read_text(n, &bytes, false, fuel, true);
    let obs = reused.iter().map(|e| e.text()).collect::<Vec<_>>().join(";");
    let o = Obs::ok(obs, true);
    if reused.len() != fresh.len() {
        return o.with_verdict(Err(("bed-reused-record-stale-fields".into(), format!("{} calls with a reused record, {} with fresh ones", reused.len(), fresh.len()))));
    }
    for (i, (a, b)) in reused.iter().zip(&fresh).enumerate() {
        if a.res != b.res {
            return o.with_verdict(Err(("bed-reused-record-stale-fields".into(), format!("call {i}: result {} vs {}", a.res, b.res))));
        }
        if a.is_record() && a != b {
            return o.with_verdict(Err(("bed-reused-record-stale-fields".into(), format!("call {i}: reused={} fresh={}", a.text(), b.text()))));
        }
        if a.is_record() && !a.view.contains("Err:") && !a.view.contains("Panic") && a.owned != a.view {
            return o.with_verdict(Err(("bed-lazy-differs-from-owned".into(), format!("call {i}: lazy={} owned={}", a.view, a.owned))));
        }
        // oracle (c18_bed_rewrite_idempotent): a line the copy loop writes is a fixpoint of
        // read -> own -> write
        if a.is_record() && !a.rewrite.starts_with("Err:") && a.rewrite != "Panic" {
            let mut line = unhex(&a.rewrite);
            line.push(b'\n');
            let again = read_text(n, &line, false, 1, false);
            let got = again.first().map(|e| if e.is_record() { e.rewrite.clone() } else { e.res.clone() }).unwrap_or("NoLine".into());
            if got != a.rewrite {
                return o.with_verdict(Err(("bed-rewrite-not-idempotent".into(), format!("call {i}: rewritten={} rewritten again={got}", a.rewrite))));
            }
        }
    }
    o
}

/// text generator for bedraw: valid lines with the reader's corner cases mixed in
pub fn gen_bedraw(rng: &mut Rng, n: usize) -> Vec<u8> {
    let mut text = Vec::new();
    let lines = rng.range(1, 6);
    for li in 0..lines {
        let last = li + 1 == lines;
        match rng.below(12) {
            0 => {
                text.extend_from_slice(b"#");
                text.extend_from_slice(&gen_plain(rng, 0, 6, b"ab \t#"));
                if !(last && rng.chance(1, 2)) {
                    text.push(b'\n');
                }
                continue;
            }
            1 => {
                text.push(b'\n');
                continue;
            }
            _ => {}
        }
        // number of columns: around n
        let cols = match rng.below(8) {
            0 => rng.range(1, n as u64) as usize,
            1 => n.saturating_sub(1).max(1),
            2 | 3 => n,
            _ => n + rng.below(5) as usize,
        };
        for ci in 0..cols {
            if ci > 0 {
                text.push(b'\t');
            }
            let f: Vec<u8> = match (ci, rng.below(10)) {
                (_, 0) => Vec::new(),
                (_, 1) => b".".to_vec(),
                (_, 2) => gen_plain(rng, 1, 3, b"ab\r#0"),
                (0, _) => gen_plain(rng, 1, 5, b"chrXY12_#"),
                (1, _) | (2, _) => match rng.below(6) {
                    0 => b"0".to_vec(),
                    1 => u64::MAX.to_string().into_bytes(),
                    2 => (u64::MAX - 1).to_string().into_bytes(),
                    3 => b"-1".to_vec(),
                    _ => rng.range(0, 100000).to_string().into_bytes(),
                },
                (3, _) => gen_plain(rng, 1, 5, b"gene. x"),
                (4, _) => rng.pick(&["0", "1000", "65535", "65536", "x", "+"]).as_bytes().to_vec(),
                (5, _) => rng.pick(&["+", "-", ".", "?", "0"]).as_bytes().to_vec(),
                _ => gen_plain(rng, 0, 4, b"0123,ab ."),
            };
            text.extend_from_slice(&f);
        }
        match rng.below(12) {
            0 => text.extend_from_slice(b"\r\n"),
            1 => text.extend_from_slice(b"\t\n"),
            2 => text.extend_from_slice(b"\r\t\n"),
            3 => text.extend_from_slice(b"\r\r\n"),
            4 if last => {}
            5 if last => text.push(b'\t'),
            6 if last => text.push(b'\r'),
            _ => text.push(b'\n'),
        }
    }
    text
}

// ---------------------------------------------------------------------------------------------
// GFF3 line kinds: arbitrary text through Reader::read_line (ONE reused Line), Line::kind,
// as_directive / as_comment / as_record, the owned line_bufs() and record_bufs().
// Compared with NV.Text.GffLine (gff_file_lines, gff_file_line_bufs, gff_record_bufs).
//   lazy  line = D:<hex key>:<hex value|-> | C:<hex> | R:<canonical lazy record | Err:kind>
//   owned line = same shape from LineBuf
//   obs = L=<lazy lines joined by ;>|O=<owned lines>|B=<record_bufs() records>

fn lazy_line_str(line: &gff::Line) -> String {
    use gff::line::Kind;
    match line.kind() {
        Kind::Directive => {
            let d = line.as_directive().expect("directive");
            format!("D:{}:{}", hex(d.key()), d.value().map(|v| hex(v)).unwrap_or("-".into()))
        }
        Kind::Comment => format!("C:{}", hex(line.as_comment().expect("comment"))),
        Kind::Record => match line.as_record().expect("record") {
            Ok(rec) => format!("R:{}", canon_feature(&rec).0),
            Err(e) => format!("R:Err:{}", errkind(&e)),
        },
    }
}

fn owned_line_str(l: &io::Result<gff::LineBuf>) -> String {
    match l {
        Ok(gff::LineBuf::Directive(d)) => format!(
            "D:{}:{}",
            hex(d.key()),
            match d.value() {
                None => "-".into(),
                Some(directive_buf::Value::String(s)) => hex(s),
                Some(_) => "typed".into(),
            }
        ),
        Ok(gff::LineBuf::Comment(s)) => format!("C:{}", hex(s)),
        Ok(gff::LineBuf::Record(r)) => format!("R:{}", canon_feature(r).0),
        Err(e) => format!("R:Err:{}", errkind(e)),
    }
}

pub struct GffLines {
    pub lazy: Vec<String>,
    pub owned: Vec<String>,
    pub bufs: Vec<String>,
}

pub fn read_gff_lines(text: &[u8]) -> Outcome<GffLines> {
    let text = text.to_vec();
    guarded(AssertUnwindSafe(move || {
        let mut reader = gff::io::Reader::new(&text[..]);
        let mut line = gff::Line::default();
        let mut lazy = Vec::new();
        loop {
            match reader.read_line(&mut line) {
                Ok(0) => break,
                Ok(_) => lazy.push(lazy_line_str(&line)),
                Err(e) => {
                    lazy.push(format!("Err:{}", errkind(&e)));
                    break;
                }
            }
        }
        let mut reader = gff::io::Reader::new(&text[..]);
        let owned: Vec<String> = reader.line_bufs().take(text.len() + 2).map(|l| owned_line_str(&l)).collect();
        let mut reader = gff::io::Reader::new(&text[..]);
        let bufs: Vec<String> = reader
            .record_bufs()
            .take(text.len() + 2)
            .map(|r| match r {
                Ok(b) => canon_feature(&b).0,
                Err(e) => format!("Err:{}", errkind(&e)),
            })
            .collect();
        GffLines { lazy, owned, bufs }
    }))
}

fn joined(v: &[String]) -> String {
    if v.is_empty() { "-".into() } else { v.join(";") }
}

/// gffline <hex text>
pub fn run_gffline(c: &Case) -> Obs {
    let text = c.b(0);
    let g = match read_gff_lines(&text) {
        Outcome::Panicked(m) => return Obs::fail("Panic", "gff3-line-reader-panic", m),
        Outcome::Done(g) => g,
    };
    let obs = format!("L={}|O={}|B={}", joined(&g.lazy), joined(&g.owned), joined(&g.bufs));
    let o = Obs::ok(obs, true);
    if g.lazy.len() != g.owned.len() {
        return o.with_verdict(Err(("gff3-lazy-differs-from-owned".into(), format!("{} lazy lines, {} owned", g.lazy.len(), g.owned.len()))));
    }
    for (a, b) in g.lazy.iter().zip(&g.owned) {
        if a != b {
            // records and directives must agree; for a comment the owned LineBuf keeps the '#'
            let tag = if a.starts_with("C:") && b.starts_with("C:") { "gff3-comment-linebuf-keeps-hash" } else { "gff3-lazy-differs-from-owned" };
            // a record whose lazy view has a failing accessor has no owned form: not a difference
            if a.starts_with("R:") && a.contains("Err:") && b.starts_with("R:Err:") {
                continue;
            }
            return o.with_verdict(Err((tag.into(), format!("lazy={a} owned={b}"))));
        }
    }
    o
}

/// directive / comment written by the real writer (gffdirw key kind payload, gffcomw text):
/// "W=<hex line>" compared with gff_write_directive / gff_write_comment, then read back
pub fn write_directive_line(d: &gff::DirectiveBuf) -> Outcome<io::Result<Vec<u8>>> {
    let d = d.clone();
    guarded(AssertUnwindSafe(move || {
        let mut w = gff::io::Writer::new(Vec::new());
        w.write_directive(&d)?;
        Ok(w.into_inner())
    }))
}

pub fn gen_gffline(rng: &mut Rng) -> Vec<u8> {
    let mut text = Vec::new();
    let n = rng.range(1, 6);
    for li in 0..n {
        let last = li + 1 == n;
        match rng.below(10) {
            0 => text.extend_from_slice(&gen_plain(rng, 0, 3, b" \t\r\x0c")),
            1 => {
                text.extend_from_slice(b"##");
                text.extend_from_slice(&gen_plain(rng, 0, 8, b"abFASTA#-gv"));
                if rng.chance(2, 3) {
                    text.push(*rng.pick(b" \t\x0c\r"));
                    text.extend_from_slice(&gen_plain(rng, 0, 8, b"ab 3.1\t#"));
                }
            }
            2 => text.extend_from_slice(b"##FASTA"),
            3 => {
                text.push(b'#');
                text.extend_from_slice(&gen_plain(rng, 0, 8, b"ab #\t!"));
            }
            4 => text.extend_from_slice(b">seq1"),
            5 => text.extend_from_slice(&gen_plain(rng, 1, 12, b"ab\t\t.1#")),
            _ => {
                let seqid = gen_plain(rng, 0, 5, b"chr1%23#>");
                let cols: Vec<Vec<u8>> = vec![
                    seqid,
                    gen_plain(rng, 0, 3, b".ab"),
                    rng.pick(&["gene", "CDS", ""]).as_bytes().to_vec(),
                    rng.pick(&["1", "0", "18446744073709551615", "x", "7"]).as_bytes().to_vec(),
                    rng.pick(&["1", "9", "18446744073709551616", ""]).as_bytes().to_vec(),
                    rng.pick(&[".", ".", "x"]).as_bytes().to_vec(),
                    rng.pick(&[".", "+", "-", "?", "x"]).as_bytes().to_vec(),
                    rng.pick(&[".", "0", "1", "2", "3"]).as_bytes().to_vec(),
                    rng.pick(&[".", "ID=a", "a=1,2;b=%3B", "a", "a=1;;", ""]).as_bytes().to_vec(),
                ];
                let k = if rng.chance(1, 6) { rng.range(1, 8) as usize } else { 9 };
                text.extend_from_slice(&cols[..k].join(&b'\t'));
            }
        }
        match rng.below(8) {
            0 => text.extend_from_slice(b"\r\n"),
            1 if last => {}
            2 if last => text.push(b'\r'),
            _ => text.push(b'\n'),
        }
    }
    text
}

/// gffcom <hex text>: LineBuf::Comment through Writer::write_line, read back.
/// obs = "W=<hex line>|<lazy lines>"; oracle: one comment line with the same text
pub fn run_gffcom(c: &Case) -> Obs {
    let text = c.b(0);
    let t2 = text.clone();
    let written = guarded(AssertUnwindSafe(move || -> io::Result<Vec<u8>> {
        let mut w = gff::io::Writer::new(Vec::new());
        w.write_line(&gff::LineBuf::Comment(BString::from(t2)))?;
        Ok(w.into_inner())
    }));
    let bytes = match written {
        Outcome::Panicked(m) => return Obs::fail("W=Panic", "gff3-comment-writer-panic", m),
        Outcome::Done(Err(e)) => return Obs::fail(format!("W=Err:{}", errkind(&e)), "gff3-comment-writer-rejects", errkind(&e)),
        Outcome::Done(Ok(b)) => b,
    };
    let g = match read_gff_lines(&bytes) {
        Outcome::Panicked(m) => return Obs::fail("W=?", "gff3-line-reader-panic", m),
        Outcome::Done(g) => g,
    };
    let obs = format!("W={}|{}", hex(&bytes[..bytes.len() - 1]), joined(&g.lazy));
    let o = Obs::ok(obs, true);
    let plain = !text.contains(&b'\n') && !text.ends_with(b"\r") && !text.starts_with(b"#");
    if !plain {
        // LF / trailing CR / leading '#' in a comment: not a comment the format can carry
        return Obs { verdict: "skip".into(), nontrivial: false, ..o };
    }
    let want = format!("C:{}", hex(&text));
    if g.lazy != vec![want.clone()] {
        return o.with_verdict(Err(("gff3-comment-roundtrip".into(), format!("want {want} got {:?}", g.lazy))));
    }
    if g.owned != g.lazy {
        return o.with_verdict(Err(("gff3-comment-linebuf-keeps-hash".into(), format!("lazy={:?} owned={:?}", g.lazy, g.owned))));
    }
    o
}

// ---------------------------------------------------------------------------------------------
// GTF lines: arbitrary text through Reader::read_line (ONE reused Line), Line::kind, as_comment /
// as_record, line_bufs() and record_bufs() (each next() guarded: the owning conversion panics on
// a malformed attribute column).  Compared with NV.Text.GtfLine.
//   obs = L=<lazy lines>|O=<owned lines>|B=<record_bufs records>

fn gtf_lazy_str(rec: &gtf::Record) -> String {
    match rec.attributes() {
        Err(e) => {
            let head = [
                hex(rec.reference_sequence_name()),
                hex(rec.source()),
                hex(rec.ty()),
                res_str(rec.start(), |p| usize::from(p).to_string()),
                res_str(rec.end(), |p| usize::from(p).to_string()),
                match rec.score() {
                    None => ".".into(),
                    Some(r) => res_str(r, |f| f.to_bits().to_string()),
                },
                res_str(rec.strand(), strand_ch),
                match rec.phase() {
                    None => ".".into(),
                    Some(r) => res_str(r, phase_ch),
                },
            ];
            format!("{}|Err:{}", head.join("|"), errkind(&e))
        }
        Ok(_) => canon_feature(rec).0,
    }
}

pub fn read_gtf_lines(text: &[u8]) -> GffLines {
    let limit = text.len() + 2;
    let mut lazy = Vec::new();
    {
        let mut reader = gtf::io::Reader::new(text);
        let mut line = gtf::Line::default();
        for _ in 0..limit {
            match reader.read_line(&mut line) {
                Ok(0) => break,
                Ok(_) => lazy.push(acc(|| match line.kind() {
                    gtf::line::Kind::Comment => format!("C:{}", hex(line.as_comment().expect("comment"))),
                    gtf::line::Kind::Record => match line.as_record().expect("record") {
                        Ok(rec) => format!("R:{}", gtf_lazy_str(&rec)),
                        Err(e) => format!("R:Err:{}", errkind(&e)),
                    },
                })),
                Err(e) => {
                    lazy.push(format!("Err:{}", errkind(&e)));
                    break;
                }
            }
        }
    }
    let mut owned = Vec::new();
    {
        let mut reader = gtf::io::Reader::new(text);
        let mut it = reader.line_bufs();
        for _ in 0..limit {
            match guarded(AssertUnwindSafe(|| it.next())) {
                Outcome::Panicked(_) => owned.push("R:Panic".to_string()),
                Outcome::Done(None) => break,
                Outcome::Done(Some(Ok(gtf::LineBuf::Comment(s)))) => owned.push(format!("C:{}", hex(&s))),
                Outcome::Done(Some(Ok(gtf::LineBuf::Record(r)))) => owned.push(format!("R:{}", canon_feature(&r).0)),
                Outcome::Done(Some(Err(e))) => owned.push(format!("R:Err:{}", errkind(&e))),
            }
        }
    }
    let mut bufs = Vec::new();
    {
        let mut reader = gtf::io::Reader::new(text);
        let mut it = reader.record_bufs();
        for _ in 0..limit {
            match guarded(AssertUnwindSafe(|| it.next())) {
                Outcome::Panicked(_) => bufs.push("Panic".to_string()),
                Outcome::Done(None) => break,
                Outcome::Done(Some(Ok(r))) => bufs.push(canon_feature(&r).0),
                Outcome::Done(Some(Err(e))) => bufs.push(format!("Err:{}", errkind(&e))),
            }
        }
    }
    GffLines { lazy, owned, bufs }
}

/// gtfline <hex text>
pub fn run_gtfline(c: &Case) -> Obs {
    let text = c.b(0);
    let g = read_gtf_lines(&text);
    let obs = format!("L={}|O={}|B={}", joined(&g.lazy), joined(&g.owned), joined(&g.bufs));
    let o = Obs::ok(obs, true);
    if g.lazy.len() != g.owned.len() {
        return o.with_verdict(Err(("gtf-lazy-differs-from-owned".into(), format!("{} lazy lines, {} owned", g.lazy.len(), g.owned.len()))));
    }
    for (a, b) in g.lazy.iter().zip(&g.owned) {
        // a record with a failing lazy accessor has no owned form (error, or the known panic of
        // the owning conversion on a malformed attribute column): not a difference
        if a != b && !(a.starts_with("R:") && a.contains("Err:")) {
            return o.with_verdict(Err(("gtf-lazy-differs-from-owned".into(), format!("lazy={a} owned={b}"))));
        }
    }
    o
}

/// gtfcom <hex text>: LineBuf::Comment through Writer::write_line, read back
pub fn run_gtfcom(c: &Case) -> Obs {
    let text = c.b(0);
    let t2 = text.clone();
    let written = guarded(AssertUnwindSafe(move || -> io::Result<Vec<u8>> {
        let mut w = gtf::io::Writer::new(Vec::new());
        w.write_line(&gtf::LineBuf::Comment(BString::from(t2)))?;
        Ok(w.into_inner())
    }));
    let bytes = match written {
        Outcome::Panicked(m) => return Obs::fail("W=Panic", "gtf-comment-writer-panic", m),
        Outcome::Done(Err(e)) => return Obs::fail(format!("W=Err:{}", errkind(&e)), "gtf-comment-writer-rejects", errkind(&e)),
        Outcome::Done(Ok(b)) => b,
    };
    let g = read_gtf_lines(&bytes);
    let obs = format!("W={}|L={}|O={}", hex(&bytes[..bytes.len() - 1]), joined(&g.lazy), joined(&g.owned));
    let o = Obs::ok(obs, true);
    if text.contains(&b'\n') || text.ends_with(b"\r") {
        return Obs { verdict: "skip".into(), nontrivial: false, ..o };
    }
    let want = vec![format!("C:{}", hex(&text))];
    if g.lazy != want || g.owned != want {
        return o.with_verdict(Err(("gtf-comment-roundtrip".into(), format!("want {want:?} lazy {:?} owned {:?}", g.lazy, g.owned))));
    }
    o
}

pub fn gen_gtfline(rng: &mut Rng) -> Vec<u8> {
    let mut text = Vec::new();
    let n = rng.range(1, 6);
    for li in 0..n {
        let last = li + 1 == n;
        match rng.below(10) {
            0 => text.extend_from_slice(&gen_plain(rng, 0, 3, b" \t\r")),
            1 => {
                text.push(b'#');
                text.extend_from_slice(&gen_plain(rng, 0, 8, b"ab #\t!"));
            }
            2 => text.extend_from_slice(&gen_plain(rng, 1, 12, b"ab\t\t.1#")),
            _ => {
                let cols: Vec<Vec<u8>> = vec![
                    gen_plain(rng, 0, 5, b"chr1#"),
                    gen_plain(rng, 0, 3, b".ab"),
                    rng.pick(&["gene", "CDS", ""]).as_bytes().to_vec(),
                    rng.pick(&["1", "0", "18446744073709551615", "x", "7"]).as_bytes().to_vec(),
                    rng.pick(&["1", "9", "18446744073709551616", ""]).as_bytes().to_vec(),
                    rng.pick(&[".", ".", "x"]).as_bytes().to_vec(),
                    rng.pick(&[".", "+", "-", "?", "x"]).as_bytes().to_vec(),
                    rng.pick(&[".", "0", "1", "2", "3"]).as_bytes().to_vec(),
                    rng.pick(&["", "gene_id \"g1\";", "a \"1\"; a \"2\"; b \"x\\\"y\";", "a", "a \"1", "a \"1\" b \"2\"", "a \"1\";;", " a \"1\"; "]).as_bytes().to_vec(),
                ];
                let k = if rng.chance(1, 6) { rng.range(1, 8) as usize } else { 9 };
                text.extend_from_slice(&cols[..k].join(&b'\t'));
            }
        }
        match rng.below(8) {
            0 => text.extend_from_slice(b"\r\n"),
            1 if last => {}
            2 if last => text.push(b'\r'),
            _ => text.push(b'\n'),
        }
    }
    text
}
