//! C14, tenth deepening wave: `ixf` = fasta::fai::io::Writer::write_index as the sequence of
//! write_all calls computed by the MODEL from the records (NV.Sinks.FaiCalls over C17's
//! NV.Index.TextIndex.w_fai): per record write_all(name), then the nine write_all calls of
//! writeln!("\t{}\t{}\t{}\t{}") -- four TABs, four decimal integers, the LF.
//!
//!   ixf script records      records = name:len:pos:lb:lw joined by ',' (name in hex, '.' = empty
//!                           name, any bytes -- TAB / LF / non-UTF-8 included); `_` = empty index
//!
//! obs = result | inner call count | sink bytes, compared with NV.Sinks.FaiCalls.fai_write_index
//! under the same script: a Fail at EVERY destination call of the fault-free life (which ties the
//! call BOUNDARIES: the destination must hold exactly the first k buffers) plus random
//! Full / Short / Interrupted / Fail scripts and the empty script.

use super::*;

type FaiRec = (Vec<u8>, u64, u64, u64, u64);

fn fmt_recs(recs: &[FaiRec]) -> String {
    if recs.is_empty() {
        return "_".into();
    }
    recs.iter()
        .map(|(n, a, b, c, d)| format!("{}:{a}:{b}:{c}:{d}", if n.is_empty() { ".".to_string() } else { hex(n) }))
        .collect::<Vec<_>>()
        .join(",")
}

fn parse_recs(s: &str) -> Vec<FaiRec> {
    if s == "_" {
        return vec![];
    }
    s.split(',')
        .map(|r| {
            let f: Vec<&str> = r.split(':').collect();
            (
                if f[0] == "." { vec![] } else { nv::unhex(f[0]) },
                f[1].parse().unwrap(),
                f[2].parse().unwrap(),
                f[3].parse().unwrap(),
                f[4].parse().unwrap(),
            )
        })
        .collect()
}

fn gen_u64(rng: &mut Rng) -> u64 {
    match rng.below(6) {
        0 => 0,
        1 => u64::MAX,
        2 => rng.below(10),
        3 => rng.below(100000),
        4 => 10u64.pow(rng.below(20) as u32) - rng.below(2),
        _ => rng.next(),
    }
}

pub fn gen_ixf(rng: &mut Rng, thorough: bool, w: &mut CaseWriter) {
    let rounds = if thorough { 40 } else { 6 };
    for round in 0..rounds {
        let recs: Vec<FaiRec> = if round % 3 == 1 {
            // the fixture generator's indices (well-formed FASTA geometry)
            let Fx::Fai(ix) = fixture("fai", rng.next() >> 8) else { unreachable!() };
            let rs: &[fasta::fai::Record] = ix.as_ref();
            rs.iter()
                .map(|r| {
                    let n: &[u8] = r.name().as_ref();
                    (n.to_vec(), r.length(), r.position(), r.line_base_count().get(), r.line_width().get())
                })
                .collect()
        } else {
            (0..rng.below(5))
                .map(|i| {
                    let name: Vec<u8> = match rng.below(6) {
                        0 => vec![],
                        1 | 2 => format!("sq{i}").into_bytes(),
                        3 => (0..rng.range(1, 12)).map(|_| rng.below(256) as u8).collect(),
                        4 => (0..rng.range(1, 6)).map(|_| *rng.pick(&[b'\t', b'\n', b'\r', b'a', 0xffu8, b' '])).collect(),
                        _ => (0..rng.range(1, 20)).map(|_| rng.range(33, 126) as u8).collect(),
                    };
                    (name, gen_u64(rng), gen_u64(rng), gen_u64(rng).max(1), gen_u64(rng).max(1))
                })
                .collect()
        };
        let n: usize = recs.iter().map(|r| if r.0.is_empty() { 9 } else { 10 }).sum();
        for sc in c14_deep4::ixc_scripts(rng, n, true) {
            w.push("ixf", vec![fmt_script(&sc), fmt_recs(&recs)]);
        }
    }
}

pub fn run_ixf(c: &Case) -> Obs {
    let script = parse_script(&c.args[0]);
    let recs = parse_recs(&c.args[1]);
    let run = |script: Vec<Fault>| -> (Outcome<io::Result<()>>, TSink) {
        let sink = TSink::new(script, false);
        let s2 = sink.clone();
        let r = guarded(AssertUnwindSafe(|| {
            let ix = fasta::fai::Index::from(
                recs.iter()
                    .map(|(n, a, b, c, d)| {
                        fasta::fai::Record::new(
                            n.clone(),
                            *a,
                            *b,
                            std::num::NonZero::new(*c).unwrap(),
                            std::num::NonZero::new(*d).unwrap(),
                        )
                    })
                    .collect::<Vec<_>>(),
            );
            fasta::fai::io::Writer::new(s2).write_index(&ix)
        }));
        (r, sink)
    };
    let (r, sink) = run(script.clone());
    let res = match &r {
        Outcome::Panicked(p) => return Obs::fail("Panic", "fai-panic-on-sink-error", p),
        Outcome::Done(Ok(())) => "Ok".to_string(),
        Outcome::Done(Err(e)) => format!("E{}", kind_code(*kind_chain(e).last().unwrap())),
    };
    let obs = format!("{res}|calls={}|{}", sink.inner.calls(), fmt_bytes(&sink.inner.bytes()));
    // oracle: against the fault-free run of the same index
    let (r0, sink0) = run(vec![]);
    let want = sink0.inner.bytes();
    let got = sink.inner.bytes();
    let real = script.iter().any(|f| matches!(f, Fault::Fail(k) if *k != io::ErrorKind::Interrupted));
    let v = if !matches!(r0, Outcome::Done(Ok(()))) {
        Err(("fai-fault-free-write-fails".to_string(), format!("recs={}", c.args[1])))
    } else if sink.inner.failures() > 0 && real && res == "Ok" && got != want {
        Err(("fai-sink-error-swallowed".to_string(), format!("script={}", c.args[0])))
    } else if !real && (res != "Ok" || got != want) {
        Err(("fai-short-write-corrupts".to_string(), format!("script={} res={res}", c.args[0])))
    } else if !want.starts_with(&got) {
        Err(("fai-sink-not-a-prefix".to_string(), format!("script={} res={res}", c.args[0])))
    } else {
        Ok(())
    };
    Obs::ok(obs, !script.is_empty()).with_verdict(v)
}
