//! C20 detection model vs the real builders on leading-byte windows (L2).
//!
//! A case is `da|daf|dv|dvf  cfg  W  avail  stop`:
//!   cfg    two characters: compression override (`-` autodetect, `n` Some(None), `b` Some(Some(Bgzf)))
//!          and format override (`-`, or `s`/`b`/`c` for alignments, `v`/`b` for variants)
//!   W      the first (and only) fill_buf window: the source delivers W and then ends
//!   avail  the first (up to 8) bytes flate2's MultiGzDecoder delivers from W; stop = the error kind
//!          it stops with (the model's DEFLATE oracle input; recomputed and checked here)
//! obs = `Ok:<format>:<compression>` | `Err:<kind>`.  The format is read off the record variant the
//! reader installs; the compression is determined by comparing the autodetecting reader's behaviour
//! with explicitly configured readers (`~` in the `daf`/`dvf` kinds where both behave identically).

use std::io::{self, Cursor, Write};

use noodles_bam as bam;
use noodles_bcf as bcf;
use noodles_bgzf as bgzf;
use noodles_sam as sam;
use noodles_util::{alignment, variant};
use noodles_vcf as vcf;
use nv::{Case, CaseWriter, Obs, Outcome, Rng, adversary::{Deliver, ScriptedReader}, guarded, hex};

use crate::common::gz_oracle;

pub fn acomp(c: char) -> Option<Option<alignment::io::CompressionMethod>> {
    match c {
        'n' => Some(None),
        'b' => Some(Some(alignment::io::CompressionMethod::Bgzf)),
        _ => None,
    }
}
pub fn afmt(c: char) -> Option<alignment::io::Format> {
    match c {
        's' => Some(alignment::io::Format::Sam),
        'b' => Some(alignment::io::Format::Bam),
        'c' => Some(alignment::io::Format::Cram),
        _ => None,
    }
}
pub fn vcomp(c: char) -> Option<Option<variant::io::CompressionMethod>> {
    match c {
        'n' => Some(None),
        'b' => Some(Some(variant::io::CompressionMethod::Bgzf)),
        _ => None,
    }
}
pub fn vfmt(c: char) -> Option<variant::io::Format> {
    match c {
        'v' => Some(variant::io::Format::Vcf),
        'b' => Some(variant::io::Format::Bcf),
        _ => None,
    }
}

fn res_str<T>(r: &io::Result<T>, ok: impl Fn(&T) -> String) -> String {
    match r {
        Ok(v) => format!("Ok({})", ok(v)),
        Err(e) => format!("Err({:?},{})", e.kind(), e),
    }
}

/// a panic while *reading* (after the builder decided) is part of the fingerprint, not of the decision
fn pg<T>(f: impl FnOnce() -> io::Result<T>) -> io::Result<T> {
    match guarded(std::panic::AssertUnwindSafe(f)) {
        Outcome::Done(r) => r,
        Outcome::Panicked(_) => Err(io::Error::other("panic")),
    }
}

/// (build error kind | format letter, behaviour fingerprint) of the alignment builder on window w
fn behave_a(cfg: &str, w: &[u8], script: Option<&[Deliver]>) -> Result<(char, String), String> {
    let mut cs = cfg.chars();
    let (oc, of) = (cs.next().unwrap_or('-'), cs.next().unwrap_or('-'));
    let mut b = alignment::io::reader::Builder::default();
    if let Some(c) = acomp(oc) {
        b = b.set_compression_method(c);
    }
    if let Some(f) = afmt(of) {
        b = b.set_format(f);
    }
    let src: Box<dyn io::Read> = match script {
        Some(sc) => Box::new(ScriptedReader::new(w.to_vec(), sc.to_vec())),
        None => Box::new(Cursor::new(w.to_vec())),
    };
    let mut r = b.build_from_reader(src).map_err(|e| nv::errkind(&e))?;
    let h = pg(|| r.read_header());
    let hs = res_str(&h, |h| format!("{:?}", crate::align::canon_header(h).map(|b| hex(&b))));
    let header = h.unwrap_or_default();
    let mut r1 = alignment::Record::Sam(sam::Record::default());
    let mut r2 = alignment::Record::Bam(bam::Record::default());
    // with a forced format the variant is known; after a failed header a wrongly configured raw
    // reader would interpret arbitrary bytes as a record length and allocate that much: stop there
    if of != '-' && hs.starts_with("Err") {
        return Ok((of, hs));
    }
    let hdr_failed = hs.starts_with("Err");
    let a = pg(|| r.read_record(&header, &mut r1));
    let b2 = pg(|| r.read_record(&header, &mut r2));
    let v = |r: &alignment::Record| match r {
        alignment::Record::Sam(_) => 's',
        alignment::Record::Bam(_) => 'b',
        alignment::Record::Cram(_) => 'c',
    };
    let f = if v(&r1) == v(&r2) { v(&r1) } else { '!' };
    if hdr_failed {
        return Ok((f, hs));
    }
    Ok((f, format!("{hs} {} {}", res_str(&a, |n| n.to_string()), res_str(&b2, |n| n.to_string()))))
}

fn behave_v(cfg: &str, w: &[u8], script: Option<&[Deliver]>) -> Result<(char, String), String> {
    let mut cs = cfg.chars();
    let (oc, of) = (cs.next().unwrap_or('-'), cs.next().unwrap_or('-'));
    let mut b = variant::io::reader::Builder::default();
    if let Some(c) = vcomp(oc) {
        b = b.set_compression_method(c);
    }
    if let Some(f) = vfmt(of) {
        b = b.set_format(f);
    }
    let src: Box<dyn io::Read> = match script {
        Some(sc) => Box::new(ScriptedReader::new(w.to_vec(), sc.to_vec())),
        None => Box::new(Cursor::new(w.to_vec())),
    };
    let mut r = b.build_from_reader(src).map_err(|e| nv::errkind(&e))?;
    let h = pg(|| r.read_header());
    let hs = res_str(&h, |h| format!("{:?}", crate::variant::canon_header(h).map(|b| hex(&b))));
    let mut r1 = variant::Record::Vcf(vcf::Record::default());
    let mut r2 = variant::Record::Bcf(bcf::Record::default());
    if of != '-' && hs.starts_with("Err") {
        return Ok((if of == 'v' { 'v' } else { 'b' }, hs));
    }
    let hdr_failed = hs.starts_with("Err");
    let a = pg(|| r.read_record(&mut r1));
    let b2 = pg(|| r.read_record(&mut r2));
    let v = |r: &variant::Record| match r {
        variant::Record::Vcf(_) => 'v',
        variant::Record::Bcf(_) => 'b',
    };
    let f = if v(&r1) == v(&r2) { v(&r1) } else { '!' };
    if hdr_failed {
        return Ok((f, hs));
    }
    Ok((f, format!("{hs} {} {}", res_str(&a, |n| n.to_string()), res_str(&b2, |n| n.to_string()))))
}

fn gb(variantside: bool, cfg: &str, w: &[u8]) -> Result<(char, String), String> {
    gbs(variantside, cfg, w, None)
}

fn gbs(variantside: bool, cfg: &str, w: &[u8], script: Option<&[Deliver]>) -> Result<(char, String), String> {
    let (cfg, w) = (cfg.to_string(), w.to_vec());
    let script = script.map(|s| s.to_vec());
    match guarded(move || if variantside { behave_v(&cfg, &w, script.as_deref()) } else { behave_a(&cfg, &w, script.as_deref()) }) {
        Outcome::Done(r) => r,
        Outcome::Panicked(_) => Ok(('P', "Panic".into())),
    }
}

/// the canonical observation: Ok:<f>:<k> | Err:<kind> | Panic
pub fn observe(variantside: bool, cfg: &str, w: &[u8]) -> String {
    observe_with(variantside, cfg, w, None)
}

/// the same over a source that delivers `data` following `script` (the explicitly configured
/// readers the behaviour is compared with read the same bytes from a Cursor)
pub fn observe_src(variantside: bool, cfg: &str, data: &[u8], script: &[Deliver]) -> String {
    observe_with(variantside, cfg, data, Some(script))
}

fn observe_with(variantside: bool, cfg: &str, w: &[u8], script: Option<&[Deliver]>) -> String {
    match gbs(variantside, cfg, w, script) {
        Err(k) => format!("Err:{k}"),
        Ok(('P', _)) => "Panic".into(),
        Ok((f, beh)) => {
            // which explicitly configured reader does it behave like?
            let fc = cfg.chars().nth(1).filter(|c| *c != '-').unwrap_or(f);
            let _ = fc;
            let bn = gb(variantside, &format!("n{f}"), w);
            let bb = gb(variantside, &format!("b{f}"), w);
            let same = |x: &Result<(char, String), String>| matches!(x, Ok((_, s)) if *s == beh);
            let k = if bn == bb {
                '~'
            } else if same(&bn) {
                'n'
            } else if same(&bb) {
                'b'
            } else {
                '!'
            };
            format!("Ok:{f}:{k}")
        }
    }
}

fn bgzf_of(payload: &[u8]) -> Vec<u8> {
    let mut w = bgzf::io::Writer::new(Vec::new());
    w.write_all(payload).unwrap();
    w.finish().unwrap()
}

fn gzip_of(payload: &[u8]) -> Vec<u8> {
    let mut e = flate2::write::GzEncoder::new(Vec::new(), flate2::Compression::default());
    e.write_all(payload).unwrap();
    e.finish().unwrap()
}

fn push(w: &mut CaseWriter, variantside: bool, cfg: &str, win: &[u8]) {
    let win = &win[..win.len().min(8192)];
    let obs = observe(variantside, cfg, win);
    let (avail, stop) = gz_oracle(win, 8);
    let kind = match (variantside, obs.ends_with(":~")) {
        (false, false) => "da",
        (false, true) => "daf",
        (true, false) => "dv",
        (true, true) => "dvf",
    };
    w.push(kind, vec![cfg.into(), hex(win), hex(&avail), stop]);
}

pub fn generate(rng: &mut Rng, tier: &str, w: &mut CaseWriter) {
    let thorough = tier == "thorough";
    let seeds: Vec<&[u8]> = vec![
        b"BAM\x01\x00\x00\x00\x00\x00\x00\x00\x00",
        b"CRAM\x03\x00\x00\x00\x00\x00\x00\x00\x00\x00\x00\x00\x00\x00\x00\x00\x00\x00\x00\x00\x00\x00",
        b"BCF\x02\x02\x00\x00\x00\x00",
        b"@HD\tVN:1.6\n",
        b"##fileformat=VCFv4.3\n#CHROM\tPOS\tID\tREF\tALT\tQUAL\tFILTER\tINFO\n",
        b"CRAM1\t4\t*\t0\t255\t*\t*\t0\t0\tA\tI\n",
        b"BAM\t4\t*\t0\t255\t*\t*\t0\t0\tA\tI\n",
        b"BCF\t4\t*\t0\t255\t*\t*\t0\t0\tA\tI\n",
        b"*\t4\t*\t0\t255\t*\t*\t0\t0\tA\tI\n",
        b"\x1f\x8b\x08\x04\x00\x00\x00\x00\x00\xff\x06\x00BC\x02\x00\x1b\x00\x03\x00\x00\x00\x00\x00\x00\x00\x00\x00",
        b"\x1f\x8b",
        b"\x1f",
        b"\x1fBAM\x01",
        b"\x8b\x1f",
    ];
    // every prefix of 0..=8 bytes of the seed strings, and every single-byte change of the first 4 bytes
    for s in &seeds {
        for k in 0..=s.len().min(8) {
            push(w, false, "--", &s[..k]);
            push(w, true, "--", &s[..k]);
        }
        push(w, false, "--", s);
        push(w, true, "--", s);
        for i in 0..s.len().min(4) {
            for d in [1u8, 0x20, 0x80] {
                let mut m = s.to_vec();
                m[i] ^= d;
                push(w, false, "--", &m);
                push(w, true, "--", &m);
            }
        }
    }
    // every value of the byte after "CRAM" (SAM read name continuation / TAB vs CRAM major version),
    // and of the byte after "BAM" and "BC"
    for b in 0..=255u8 {
        let mut m = b"CRAM".to_vec();
        m.push(b);
        m.extend_from_slice(b"\t4\t*\t0\t255\t*\t*\t0\t0\tA\tI\n");
        push(w, false, "--", &m);
        push(w, false, "--", &m[..5]);
        let mut m = b"BAM".to_vec();
        m.push(b);
        m.extend_from_slice(&[0; 8]);
        push(w, false, "--", &m);
        let mut m = b"BC".to_vec();
        m.push(b);
        m.extend_from_slice(&[2, 2, 0, 0, 0, 0]);
        push(w, true, "--", &m);
    }
    // gzip / BGZF members with short and magic-like contents, whole and cut at every length
    let payloads: Vec<&[u8]> = vec![
        b"", b"B", b"BA", b"BAM", b"BAM\x01", b"BAM\x01\x00\x00\x00\x00\x00\x00\x00\x00", b"BAM\x02", b"CRA", b"CRAM", b"CRAM\x03\x00",
        b"BC", b"BCF", b"BCF\x02\x02\x00\x00\x00\x00", b"BCG", b"@", b"@CO", b"@HD\tVN:1.6\n", b"##", b"##f", b"##fileformat=VCFv4.3\n", b"abc", b"abcd",
    ];
    for p in &payloads {
        let streams = [bgzf_of(p), gzip_of(p), [bgzf_of(b""), bgzf_of(p)].concat()];
        for (si, s) in streams.iter().enumerate() {
            push(w, false, "--", s);
            push(w, true, "--", s);
            let cuts: Vec<usize> = if thorough || (si == 0 && p.len() <= 4) { (0..s.len()).collect() } else { vec![2, 3, 10, 17, 18, 19, s.len() - 9, s.len() - 1] };
            for k in cuts {
                if k < s.len() {
                    push(w, false, "--", &s[..k]);
                    push(w, true, "--", &s[..k]);
                }
            }
        }
    }
    // windows of files produced by the generic writers (whole, and cut)
    let n_files = if thorough { 12 } else { 3 };
    for i in 0..n_files {
        for code in crate::align::FMTS {
            let spec = crate::align::gen_spec(rng.next(), (i * 3) % 7, (i as u64) % 4, if i == 2 { 1 } else { 0 });
            if let Ok((h, recs)) = crate::align::parse_spec(&spec.text()) {
                let rr: Vec<&dyn sam::alignment::Record> = recs.iter().map(|r| r as &dyn sam::alignment::Record).collect();
                let repo = spec.repository();
                let (h2, code2) = (h.clone(), code.to_string());
                if let Outcome::Done(Ok(bytes)) = guarded(std::panic::AssertUnwindSafe(|| crate::align::write_generic(&code2, &h2, &rr, repo))) {
                    push(w, false, "--", &bytes);
                    for k in [1usize, 2, 3, 4, 5, 18, 30, 64] {
                        if k < bytes.len() {
                            push(w, false, "--", &bytes[..k]);
                        }
                    }
                    let k = rng.range(0, bytes.len() as u64) as usize;
                    push(w, false, "--", &bytes[..k]);
                    push(w, true, "--", &bytes[..bytes.len().min(200)]);
                }
            }
        }
        for code in crate::variant::FMTS {
            let spec = crate::variant::gen_spec(rng.next(), (i * 3) % 7, (i as u64) % 3);
            if let Ok((h, recs)) = crate::variant::parse_spec(&spec.text()) {
                let rr: Vec<&dyn vcf::variant::Record> = recs.iter().map(|r| r as &dyn vcf::variant::Record).collect();
                if let Outcome::Done(Ok(bytes)) = guarded(std::panic::AssertUnwindSafe(|| crate::variant::write_generic(code, &h, &rr))) {
                    push(w, true, "--", &bytes);
                    for k in [1usize, 2, 3, 4, 5, 18, 30, 64] {
                        if k < bytes.len() {
                            push(w, true, "--", &bytes[..k]);
                        }
                    }
                    let k = rng.range(0, bytes.len() as u64) as usize;
                    push(w, true, "--", &bytes[..k]);
                    push(w, false, "--", &bytes[..bytes.len().min(200)]);
                }
            }
        }
    }
    // overrides: every configuration on a few windows
    let wins: Vec<Vec<u8>> = vec![
        b"BAM\x01".to_vec(),
        b"CRAM\x03\x00".to_vec(),
        b"@HD\tVN:1.6\n".to_vec(),
        b"BCF\x02\x02".to_vec(),
        bgzf_of(b"BAM\x01\x00\x00\x00\x00\x00\x00\x00\x00"),
        bgzf_of(b"@HD\tVN:1.6\n"),
        bgzf_of(b"BCF\x02\x02\x00\x00\x00\x00"),
        bgzf_of(b""),
        vec![],
    ];
    for win in &wins {
        for oc in ['-', 'n', 'b'] {
            for of in ['-', 's', 'b', 'c'] {
                push(w, false, &format!("{oc}{of}"), win);
            }
            for of in ['-', 'v', 'b'] {
                push(w, true, &format!("{oc}{of}"), win);
            }
        }
    }
    // the oracle premises (H_magic, H_prefix, H_whole) on the real libraries
    for _ in 0..(if thorough { 400 } else { 40 }) {
        w.push("hz", vec![rng.next().to_string()]);
    }
    // random windows, biased towards magic-like starts
    let n = if thorough { 3000 } else { 150 };
    for _ in 0..n {
        let len = rng.range(0, 12) as usize;
        let mut b = rng.bytes(len);
        if rng.chance(2, 3) && len >= 1 {
            let m: &[u8] = *rng.pick(&[&b"BAM\x01"[..], b"CRAM", b"BCF", b"\x1f\x8b", b"\x1f\x8b\x08\x04", b"@", b"#"]);
            let k = rng.range(1, m.len() as u64) as usize;
            for i in 0..k.min(len) {
                b[i] = m[i];
            }
        }
        for x in b.iter_mut().skip(6) {
            *x = 0;
        }
        let vs = rng.chance(1, 2);
        push(w, vs, "--", &b);
    }
}

/// the three oracle premises of the theorems, on the real BGZF writer and flate2 decoder
fn run_hz(c: &Case) -> Obs {
    let mut rng = Rng::new(c.u(0));
    let len = match rng.below(4) {
        0 => rng.range(0, 8) as usize,
        1 => rng.range(0, 300) as usize,
        2 => rng.range(65000, 66000) as usize,
        _ => rng.range(0, 200000) as usize,
    };
    let payload: Vec<u8> = if rng.chance(1, 2) { rng.bytes(len) } else { (0..len).map(|i| b"ACGT\n@"[i % 6]).collect() };
    let s = bgzf_of(&payload);
    if !(s.len() >= 2 && s[0] == 0x1f && s[1] == 0x8b) {
        return Obs::fail("-", "oracle-premise-magic", hex(&s[..s.len().min(4)]));
    }
    let (whole, stop) = gz_oracle(&s, usize::MAX);
    if whole != payload || stop != "Eof" {
        return Obs::fail("-", "oracle-premise-whole", format!("payload {} bytes, decoder {} bytes then {stop}", payload.len(), whole.len()));
    }
    // H_window (premise of the theorems about the repaired builders): the first 8 KiB of the
    // stream give the decoder the 4 bytes the detector asks for, unless the stream fits the window
    let (first, _) = gz_oracle(&s[..s.len().min(8192)], 4);
    if !(first.len() >= 4 || s.len() <= 8192) {
        return Obs::fail("-", "oracle-premise-window", format!("payload {} bytes, stream {} bytes: {} bytes from the first 8192", payload.len(), s.len(), first.len()));
    }
    let mut cuts: Vec<usize> = (0..40.min(s.len())).collect();
    for _ in 0..12 {
        cuts.push(rng.range(0, s.len() as u64) as usize);
    }
    for m in cuts {
        let (a, _) = gz_oracle(&s[..m.min(8192)], usize::MAX);
        if !payload.starts_with(&a) {
            return Obs::fail("-", "oracle-premise-prefix", format!("window {m} of {}", s.len()));
        }
    }
    Obs::ok("-", !payload.is_empty())
}

pub fn run(c: &Case) -> Obs {
    if c.kind == "hz" {
        return run_hz(c);
    }
    let variantside = c.kind.starts_with("dv");
    let w = c.b(1);
    let mut obs = observe(variantside, &c.args[0], &w);
    let fonly = c.kind.len() == 3;
    if fonly {
        // compression not observable on this window: compare the format only
        if let Some(p) = obs.rfind(':') {
            if obs.starts_with("Ok:") {
                obs.truncate(p);
                obs.push_str(":~");
            }
        }
    }
    // the DEFLATE oracle input of the model must be what flate2 says now
    let (avail, stop) = gz_oracle(&w, 8);
    if hex(&avail) != c.args[2] || stop != c.args[3] {
        return Obs::fail(obs, "harness-gz-oracle-drift", format!("case says {} {}, flate2 says {} {stop}", c.args[2], c.args[3], hex(&avail)));
    }
    let nontrivial = !w.is_empty() && !fonly;
    Obs::ok(obs, nontrivial)
}
