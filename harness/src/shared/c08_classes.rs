//! C08: input classes of known noodles defects in AAC, the name tokenizer and rANS Nx16 (flags = 0),
//! decided from the INPUT alone (no call into noodles).  See known_findings.d/C08.json.
#![allow(dead_code)]
// Input-derived predicates for the known defect classes of noodles-cram's adaptive arithmetic coder
// (codecs/aac) and name tokenizer (codecs/name_tokenizer, which uses rans_nx16 with flags = 0).
// Nothing here calls noodles.

// ------------------------------------------------------------------------------------------
// AAC

/// what the non-STRIPE part of aac::encode does with `src` under `flags` (STRIPE bit ignored)
fn aac_plain_class(flags: u8, src: &[u8]) -> Option<&'static str> {
    const EXT: u8 = 0x04;
    const CAT: u8 = 0x20;
    const PACK: u8 = 0x80;

    // PACK: 1..=16 distinct symbols -> the payload handed to the entropy coder is the packed data
    // (0 bits per symbol when there is a single distinct symbol: an EMPTY payload);
    // 0 or > 16 distinct symbols -> PACK is dropped and the payload is src
    let mut packed: Option<Vec<u8>> = None;
    if flags & PACK != 0 {
        let mut present = [false; 256];
        for &b in src {
            present[b as usize] = true;
        }
        let nsym = present.iter().filter(|&&p| p).count();
        if (1..=16).contains(&nsym) {
            let mut map = [0u8; 256];
            let mut k = 0u8;
            for s in 0..256 {
                if present[s] {
                    map[s] = k;
                    k += 1;
                }
            }
            let per_byte = match nsym {
                1 => 0,
                2 => 8,
                3..=4 => 4,
                _ => 2,
            };
            let mut out = Vec::new();
            if per_byte > 0 {
                let shift = 8 / per_byte;
                for chunk in src.chunks(per_byte) {
                    let mut d = 0u8;
                    for (i, &s) in chunk.iter().enumerate() {
                        d |= map[s as usize] << (shift * i);
                    }
                    out.push(d);
                }
            }
            packed = Some(out);
        }
    }
    let payload: &[u8] = packed.as_deref().unwrap_or(src);

    if flags & CAT != 0 || flags & EXT != 0 {
        // stored / bzip2: no symbol count, no model
        return None;
    }
    // RLE / order-0 / order-1 all start with count_symbols + write_symbol_count
    if payload.is_empty() {
        return Some("aac-empty-payload-assert");
    }
    if payload.iter().any(|&b| b == 0xff) {
        return Some("aac-symbol-count-256");
    }
    None
}

/// Known defect class of `aac::encode(flags, src)` followed by `aac::decode(.., src.len())`,
/// decided from the input alone.
///   "aac-empty-payload-assert": count_symbols() asserts !src.is_empty()  (encoder PANIC)
///   "aac-symbol-count-256":     write_symbol_count() refuses 256          (encoder Err InvalidInput)
pub fn aac_known_class(flags: u8, src: &[u8]) -> Option<&'static str> {
    const STRIPE: u8 = 0x08;
    if flags & STRIPE != 0 {
        // every other flag is ignored; 4 interleaved chunks, each encoded with flags = NO_SIZE
        // (order 0), in order; the first chunk that fails decides
        for i in 0..4 {
            let chunk: Vec<u8> = src.iter().skip(i).step_by(4).copied().collect();
            if let Some(t) = aac_plain_class(0x10, &chunk) {
                return Some(t);
            }
        }
        return None;
    }
    aac_plain_class(flags, src)
}

// ------------------------------------------------------------------------------------------
// rANS Nx16, flags = 0 (order 0, 4 states, size stored), as used for the token byte streams

/// Known defect class of rans_nx16::encode(Flags::empty(), buf) + decode, from `buf` alone.
pub fn nx16_f0_known_class(buf: &[u8]) -> Option<&'static str> {
    if buf.len() < 4 {
        return None; // fewer bytes than states: stored (CAT)
    }
    let mut f = [0u64; 256];
    for &b in buf {
        f[b as usize] += 1;
    }
    let sum: u64 = f.iter().sum();
    // normalize_frequencies in u32: f * 4096
    if f.iter().any(|&x| x * 4096 > u32::MAX as u64) {
        return Some("nx16-normalize-u32-overflow");
    }
    let mut max = 0;
    let mut max_index = 0;
    for (i, &x) in f.iter().enumerate() {
        if x >= max {
            max = x;
            max_index = i;
        }
    }
    let mut nsum = 0u64;
    let mut nf = [0u64; 256];
    for i in 0..256 {
        if f[i] > 0 {
            nf[i] = (f[i] * 4096 / sum).max(1);
            nsum += nf[i];
        }
    }
    if nsum > 4096 {
        let excess = nsum - 4096;
        if nf[max_index] < excess {
            return Some("nx16-normalize-u32-underflow");
        }
        if nf[max_index] == excess {
            return Some("nx16-normalize-zero-max"); // encoder would spin forever (f = 0)
        }
    }
    // write_alphabet starts with prev_sym = 0 although symbol 0 is absent: a run-length byte is
    // written after a FIRST symbol 1; read_alphabet never reads a run length after the first symbol
    if f[0] == 0 && f[1] > 0 {
        return Some("nx16-alphabet-first-symbol-1");
    }
    None
}

// ------------------------------------------------------------------------------------------
// name tokenizer: re-implementation of the ENCODER's tokenisation (encode.rs), only as far as needed
// to know the ten token byte streams of every token position

#[derive(Clone, Debug, PartialEq)]
enum Tok {
    Str(Vec<u8>),
    Char(u8),
    Pad(u32, usize),
    Digits(u32),
    Delta(u32, u8),
    Delta0(u32, u8),
    Match,
    End,
}

/// lexical_core::parse::<u32>: non-empty, ASCII digits only (leading zeros accepted), value fits u32
fn parse_u32(s: &[u8]) -> Option<u32> {
    if s.is_empty() || !s.iter().all(|b| b.is_ascii_digit()) {
        return None;
    }
    let mut v: u64 = 0;
    for &b in s {
        v = v * 10 + (b - b'0') as u64;
        if v > u32::MAX as u64 {
            return None;
        }
    }
    Some(v as u32)
}

fn raw_tokens(name: &[u8]) -> Vec<&[u8]> {
    let mut out = Vec::new();
    let mut i = 0;
    while i < name.len() {
        let alnum = name[i].is_ascii_alphanumeric();
        let mut j = i;
        while j < name.len() && name[j].is_ascii_alphanumeric() == alnum {
            j += 1;
        }
        out.push(&name[i..j]);
        i = j;
    }
    out
}

fn fresh(raw: &[u8]) -> Tok {
    if raw[0] == b'0' {
        if let Some(n) = parse_u32(raw) {
            return Tok::Pad(n, raw.len());
        }
    }
    if let Some(n) = parse_u32(raw) {
        return Tok::Digits(n);
    }
    if raw.len() == 1 { Tok::Char(raw[0]) } else { Tok::Str(raw.to_vec()) }
}

#[derive(Default, Clone)]
pub struct Streams {
    pub ty: Vec<u8>,
    pub string: Vec<u8>,
    pub chr: Vec<u8>,
    pub digits0: Vec<u8>,
    pub dz_len: Vec<u8>,
    pub dup: Vec<u8>,
    pub diff: Vec<u8>,
    pub digits: Vec<u8>,
    pub delta: Vec<u8>,
    pub delta0: Vec<u8>,
}

impl Streams {
    pub fn all(&self) -> [(&'static str, &Vec<u8>); 10] {
        [
            ("type", &self.ty),
            ("string", &self.string),
            ("char", &self.chr),
            ("digits0", &self.digits0),
            ("dzlen", &self.dz_len),
            ("dup", &self.dup),
            ("diff", &self.diff),
            ("digits", &self.digits),
            ("delta", &self.delta),
            ("delta0", &self.delta0),
        ]
    }
    fn push(&mut self, t: &Tok) -> Result<(), ()> {
        match t {
            Tok::Str(s) => {
                self.ty.push(1);
                self.string.extend_from_slice(s);
                self.string.push(0);
            }
            Tok::Char(c) => {
                self.ty.push(2);
                self.chr.push(*c);
            }
            Tok::Pad(n, w) => {
                self.ty.push(3);
                self.digits0.extend_from_slice(&n.to_le_bytes());
                if *w > 255 {
                    return Err(());
                }
                self.dz_len.push(*w as u8);
            }
            Tok::Digits(n) => {
                self.ty.push(7);
                self.digits.extend_from_slice(&n.to_le_bytes());
            }
            Tok::Delta(_, d) => {
                self.ty.push(8);
                self.delta.push(*d);
            }
            Tok::Delta0(_, d) => {
                self.ty.push(9);
                self.delta0.push(*d);
            }
            Tok::Match => self.ty.push(10),
            Tok::End => self.ty.push(12),
        }
        Ok(())
    }
}

pub struct NamesModel {
    /// streams[0] = dup/diff position, streams[1 + i] = token position i
    pub streams: Vec<Streams>,
    pub digits0_width_over_255: bool,
    pub delta_leading_zero: bool,
    pub max_raw_tokens: usize,
}

pub fn names_model(src: &[u8]) -> NamesModel {
    let src = src.strip_suffix(&[0u8]).unwrap_or(src);
    let names: Vec<&[u8]> = src.split(|&b| b == 0).collect();

    struct D {
        dup: Option<usize>,
        raw: Vec<Vec<u8>>,
        toks: Vec<Tok>,
    }
    let mut diffs: Vec<D> = Vec::new();
    let mut index: std::collections::HashMap<&[u8], usize> = std::collections::HashMap::new();
    let mut delta_leading_zero = false;
    let mut max_raw_tokens = 0;

    for (i, name) in names.iter().enumerate() {
        let raws = raw_tokens(name);
        max_raw_tokens = max_raw_tokens.max(raws.len());
        let mut d = D { dup: None, raw: Vec::new(), toks: Vec::new() };
        if i == 0 {
            for r in &raws {
                d.toks.push(fresh(r));
                d.raw.push(r.to_vec());
            }
        } else {
            let dist = match index.get(name) {
                Some(&j) => {
                    d.dup = Some(i - j);
                    i - j
                }
                None => 1,
            };
            let prev = &diffs[i - dist];
            for (j, r) in raws.iter().enumerate() {
                let mut t = None;
                if let (Some(pr), Some(pt)) = (prev.raw.get(j), prev.toks.get(j)) {
                    if *r == &pr[..] {
                        t = Some(Tok::Match);
                    } else if let (Tok::Digits(n) | Tok::Delta(n, _), Some(m)) = (pt, parse_u32(r)) {
                        if m >= *n && m - n <= 255 {
                            t = Some(Tok::Delta(m, (m - n) as u8));
                            // the decoder prints n + delta WITHOUT padding; a leading zero (or any
                            // spelling other than the canonical decimal one) is lost
                            if r[0] == b'0' && r.len() > 1 && d.dup.is_none() {
                                delta_leading_zero = true;
                            }
                        }
                    }
                    if t.is_none() {
                        if let (Tok::Pad(n, _) | Tok::Delta0(n, _), true, Some(m)) = (pt, r.len() == pr.len(), parse_u32(r)) {
                            if m >= *n && m - n <= 255 {
                                t = Some(Tok::Delta0(m, (m - n) as u8));
                            }
                        }
                    }
                }
                d.toks.push(t.unwrap_or_else(|| fresh(r)));
                d.raw.push(r.to_vec());
            }
            if !index.contains_key(name) {
                index.insert(name, i);
            }
        }
        d.toks.push(Tok::End);
        diffs.push(d);
    }

    let max_tok = diffs.iter().map(|d| d.toks.len()).max().unwrap_or(0);
    let mut streams = vec![Streams::default(); 1 + max_tok];
    let mut wide = false;
    for (i, d) in diffs.iter().enumerate() {
        match d.dup {
            Some(k) => {
                streams[0].ty.push(5);
                streams[0].dup.extend_from_slice(&(k as u32).to_le_bytes());
            }
            None => {
                streams[0].ty.push(6);
                let k: u32 = if i == 0 { 0 } else { 1 };
                streams[0].diff.extend_from_slice(&k.to_le_bytes());
            }
        }
    }
    for p in 0..max_tok {
        for d in &diffs {
            if d.dup.is_some() {
                continue;
            }
            if let Some(t) = d.toks.get(p) {
                if streams[1 + p].push(t).is_err() {
                    wide = true;
                }
            }
        }
    }
    NamesModel { streams, digits0_width_over_255: wide, delta_leading_zero, max_raw_tokens }
}

/// Known defect class of name_tokenizer::encode(src) + decode, decided from the input alone.
/// `src` = NUL-terminated names, concatenated.
pub fn names_known_class(src: &[u8]) -> Option<&'static str> {
    if src.is_empty() {
        // encode("") is the encoding of ONE empty name; decode gives "\0"
        return Some("names-empty-list-not-representable");
    }
    if src.last() != Some(&0) {
        return Some("names-input-not-nul-terminated"); // not a valid input of the check
    }
    let m = names_model(src);
    if m.digits0_width_over_255 {
        return Some("names-digits0-width-over-255");
    }
    // every non-empty token byte stream goes through rans_nx16::encode(Flags::empty(), ..)
    let mut first_symbol_1 = false;
    for s in &m.streams {
        for (_, buf) in s.all() {
            match nx16_f0_known_class(buf) {
                Some("nx16-alphabet-first-symbol-1") => first_symbol_1 = true,
                Some("nx16-normalize-u32-overflow") => return Some("names-nx16-normalize-u32-overflow"),
                Some("nx16-normalize-u32-underflow") => return Some("names-nx16-normalize-u32-underflow"),
                Some("nx16-normalize-zero-max") => return Some("names-nx16-normalize-zero-max"),
                _ => {}
            }
        }
    }
    if first_symbol_1 {
        return Some("names-nx16-alphabet-first-symbol-1");
    }
    if m.max_raw_tokens >= 127 {
        return Some("names-more-than-126-tokens");
    }
    if m.delta_leading_zero {
        return Some("names-delta-leading-zero");
    }
    None
}
